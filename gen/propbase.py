"""Base class for property plug-ins of bin/check."""
import glob
import json
import os

import common

COMMON_TRUSTED = [
    "Lean 4.33 kernel; axioms at most propext, Classical.choice, Quot.sound (audited with #print axioms on every run)",
    "hand-written Lean model (lean/TacklerModel/Model/*.lean), tied to /repo by the differential correspondence of this run",
    "correspondence machinery: python generators/canonicalisers (gen/*.py), Rust harness (harness/src/bin/tk_impl.rs) with the read-only hook module tackler-core/src/verif_hooks.rs, Lean driver JSON codec (lean/Driver/*.lean)",
]


class PropBase:
    id = "C00"
    needs_cli = False

    def __init__(self):
        self._samples = []

    # -- cases
    def corpus(self):
        out = []
        for p in sorted(glob.glob(os.path.join(common.VERIF, "corpus", self.id, "*.json"))):
            c = json.load(open(p))
            c.setdefault("kind", "corpus")
            c["corpus_file"] = os.path.basename(p)
            out.append(c)
        return out

    def gen(self, rng, tier, focus=None):
        return []

    def impl_case(self, case):
        return case

    def model_case(self, case):
        return case

    # -- shrinking support: how to rebuild the derived fields of a case after its AST was reduced
    def rerender(self, case):
        if "txns" in case and "text" in case:
            case["text"] = common.render_journal(case["txns"], case.get("layout"))
        return case

    def shrinkable(self, case):
        return "txns" in case and "text" in case and "files" not in case

    # -- judgement
    def compare(self, case, impl, model):
        return None

    def oracle(self, case, impl):
        return None

    def nontrivial(self, case, impl):
        return True

    # -- evidence
    def remember(self, case):
        if len(self._samples) < 3:
            self._samples.append(case)

    def last_samples(self):
        return self._samples

    def sample(self, case):
        c = {k: v for k, v in case.items() if k not in ("mcfg",)}
        s = json.dumps(c, ensure_ascii=False)
        if len(s) > 3000:
            c = {"op": case.get("op"), "kind": case.get("kind"), "text": case.get("text", "")[:1500]}
        return c

    def rule(self):
        return ""

    def trusted_base(self):
        return list(COMMON_TRUSTED)

    def assumptions(self):
        return []


def model_cfg(cfg):
    """the part of the configuration the Lean `Settings` reads"""
    comm = cfg.get("commodities")
    return {
        # the mode switches may be given by the file (`strict`, `audit`) or by an overlap (`ov_strict`, `ov_audit`)
        "strict": bool(cfg.get("ov_strict", cfg.get("strict", False))),
        "audit": bool(cfg.get("ov_audit", cfg.get("audit", False))),
        # Config: commodities file absent => permit-empty = true; present => flag (default false)
        "permit_empty": True if comm is None else bool(cfg.get("permit_empty", False)),
        "accounts": cfg.get("accounts") or [],
        "commodities": comm or [],
        "tags": cfg.get("tags") or [],
    }


def cmp_status(impl, model):
    """compare load status; returns ('skip'|None|str)"""
    mi = model.get("r")
    ii = impl.get("r")
    if mi == "UNDEF":
        return "skip"
    if mi == "BADCASE" or ii in ("BADCASE", "CFGERR", "GARBLED"):
        return "driver problem: impl=%s model=%s %s %s" % (ii, mi, impl.get("msg", ""), model.get("msg", ""))
    if ii != mi:
        return "load status differs: impl=%s model=%s (%s)" % (ii, mi, (impl.get("msg") or "")[:200])
    return None


def model_tscfg(cfg):
    """`kernel.timestamp` for the Lean model (`Time.TsCfg`): fixed offset in seconds and the default time;
    None for a named zone other than UTC (outside the model)"""
    tz = cfg.get("tz") or {"name": "UTC"}
    if "offset" in tz:
        o = tz["offset"]
        sgn = -1 if o.startswith("-") else 1
        hh, mm = o[1:].split(":")[:2]
        off = sgn * (int(hh) * 3600 + int(mm) * 60)
    elif tz.get("name", "UTC") == "UTC":
        off = 0
    else:
        return None
    dt = cfg.get("default_time", "00:00:00")
    frac = 0
    if "." in dt:
        dt, f = dt.split(".")
        frac = int((f + "000000000")[:9])
    h, m, s = [int(x) for x in dt.split(":")]
    return {"offset": off, "default_time": [h, m, s, frac]}

"""C09 — audit mode: UUIDs enforced; the transaction-set checksum is the configured hash of the sorted
lower-case UUIDs of the selected transactions, each followed by a newline; size = number selected;
the account-selector checksum is the same construction over the sorted selector patterns."""
import copy
import datetime
import hashlib
import re

import common
from propbase import PropBase, model_cfg

ALGOS = ["SHA-256", "SHA-512", "SHA-512/256", "SHA3-256", "SHA3-512"]
BAD_ALGOS = ["SHA-1", "sha-256", "SHA256", "", "SHA3-384", "SHA-512/224", "SHA-256 "]
REPORTS = ["balance", "balgrp", "register", "equity"]
SEL_KEY = {"balance": "sel_balance", "balgrp": "sel_balgrp", "register": "sel_register", "equity": "sel_equity"}

# valid regular expressions; some are already wrapped (need peeling), some contain the wrapper text or
# anchors, one contains a literal newline, one is empty, one is not ASCII
PATTERNS = ["a", "a:.*", ".*:cash", "^a:b$", "^(?:e.*)$", "(?:x)", "^(?:^(?:a)$)$", "Assets(:.*)?", "é.*", "a|b",
            "[ab]:.*", ".*", "", "\\$", "a\\nb", "a\nb", "^(?:.*)", "(.*)$", "^(?:)$", "e", "b", "B", "ö2", "x:y",
            "^(?:a|b)$", "a.*c", "~", "\\{", "^", "$", "\\^\\(\\?:a\\)\\$", "[)]\\$", "(?:\\^\\(\\?:)b"]


def py_digest(alg, data):
    """python's own implementation of the five algorithms; None if hashlib lacks one"""
    try:
        if alg == "SHA-256":
            return hashlib.sha256(data).hexdigest()
        if alg == "SHA-512":
            return hashlib.sha512(data).hexdigest()
        if alg == "SHA-512/256":
            return hashlib.new("sha512_256", data).hexdigest()
        if alg == "SHA3-256":
            return hashlib.sha3_256(data).hexdigest()
        if alg == "SHA3-512":
            return hashlib.sha3_512(data).hexdigest()
    except Exception:
        return None
    return None


def spec_checksum(alg, items):
    """the property's construction: items sorted (byte order), each followed by a newline, hashed"""
    data = b"".join(x.encode("utf-8") + b"\n" for x in sorted(items, key=lambda s: s.encode("utf-8")))
    return py_digest(alg, data)


def ns_to_rfc3339(ns):
    secs, frac = divmod(ns, 10 ** 9)
    dt = datetime.datetime(1970, 1, 1) + datetime.timedelta(seconds=secs)
    return dt.strftime("%Y-%m-%dT%H:%M:%S") + ((".%09d" % frac) if frac else "") + "Z"


def rfc3339_to_ns(t):
    m = re.match(r"^(\d{4})-(\d\d)-(\d\d)T(\d\d):(\d\d):(\d\d)(?:\.(\d{1,9}))?Z$", t)
    y, mo, d, h, mi, s = [int(m.group(i)) for i in range(1, 7)]
    frac = int((m.group(7) or "0").ljust(9, "0"))
    return common.civil_to_ns(y, mo, d, h, mi, s, frac, 0)


def eval_filter(f, ns):
    """independent evaluation of the filter JSON (the fragment the generator uses) on an instant"""
    (k, v), = f.items()
    if k == "NullaryTRUE":
        return True
    if k == "NullaryFALSE":
        return False
    if k == "TxnFilterTxnTSBegin":
        return rfc3339_to_ns(v["begin"]) <= ns
    if k == "TxnFilterTxnTSEnd":
        return ns < rfc3339_to_ns(v["end"])
    if k == "TxnFilterAND":
        return all(eval_filter(x, ns) for x in v["txnFilters"])
    if k == "TxnFilterOR":
        return any(eval_filter(x, ns) for x in v["txnFilters"])
    if k == "TxnFilterNOT":
        return not eval_filter(v["txnFilter"], ns)
    raise ValueError(k)


def mix_case(rng, u, mode):
    if mode == "upper":
        return u.upper()
    if mode == "mixed":
        return "".join(c.upper() if rng.random() < 0.5 else c for c in u)
    return u


def parse_block(text, title, prefix=""):
    """all occurrences of a metadata block `title` / `%15s : value` in a text -> [(alg, value)]"""
    out = []
    lines = text.split("\n")
    for i, ln in enumerate(lines):
        if ln == prefix + title and i + 1 < len(lines):
            nxt = lines[i + 1]
            if nxt.startswith(prefix):
                nxt = nxt[len(prefix):]
            if " : " in nxt:
                a, v = nxt.split(" : ", 1)
                out.append((a.strip(), v))
            else:
                out.append(("?", nxt))
    return out


def parse_tsc_text(meta):
    """'Txn Set Checksum' blocks of a metadata text -> [(alg, value, size-text)]"""
    out = []
    if not meta:
        return out
    lines = meta.split("\n")
    for i, ln in enumerate(lines):
        if ln == "Txn Set Checksum" and i + 2 < len(lines):
            a, v = lines[i + 1].split(" : ", 1) if " : " in lines[i + 1] else ("?", lines[i + 1])
            s = lines[i + 2].split(" : ", 1)
            out.append((a.strip(), v, s[1] if len(s) == 2 and s[0].strip() == "Set size" else "?"))
    return out


class C09(PropBase):
    id = "C09"
    needs_cli = True     # the borrowed git-storage cases (C08's) run the real binary too

    # ------------------------------------------------------------------------------------ generation
    def gen(self, rng, tier, focus=None):
        out = []
        q = tier == "quick"
        per = 20 if q else 400
        # boundary classes, every algorithm each
        for alg in ALGOS:
            for _ in range(per):
                out.append(self.mk_case(rng, alg, "case:upper", uuid_case="upper"))
                out.append(self.mk_case(rng, alg, "case:mixed", uuid_case="mixed"))
                out.append(self.mk_case(rng, alg, "missing:first", missing="first"))
                out.append(self.mk_case(rng, alg, "missing:last", missing="last"))
                out.append(self.mk_case(rng, alg, "missing:any", missing="any"))
                out.append(self.mk_case(rng, alg, "dup:inside", dup="inside"))
                out.append(self.mk_case(rng, alg, "dup:outside", dup="outside"))
                out.append(self.mk_case(rng, alg, "dup:split", dup="split"))
                out.append(self.mk_case(rng, alg, "dup:case", dup="inside", uuid_case="mixed"))
                out.append(self.mk_case(rng, alg, "empty-set", flt="empty"))
                out.append(self.mk_case(rng, alg, "selectors", selectors="all"))
                out.append(self.mk_case(rng, alg, "audit-off", audit=False))
                out.append(self.mk_case(rng, alg, "audit-off:dup", audit=False, dup="inside"))
            for _ in range(2 if q else 20):
                out.append(self.mk_case(rng, alg, "dup:many", dup="many"))
        for name in BAD_ALGOS:
            out.append(self.mk_case(rng, name, "bad-algorithm", audit=rng.random() < 0.5))
        n = 3000 if q else 30000
        for _ in range(n):
            out.append(self.mk_case(rng, rng.choice(ALGOS), "random",
                                    audit=rng.random() < 0.85,
                                    uuid_case=rng.choice(["lower", "lower", "upper", "mixed"]),
                                    missing=rng.choice([None] * 9 + ["any"]),
                                    dup=rng.choice([None] * 7 + ["inside", "outside", "split"]),
                                    flt=rng.choice(["all", "true", "begin", "end", "and", "and", "not", "or", "empty"]),
                                    selectors=rng.choice(["none", "some", "some", "all"])))
        # the selected set is the same whatever storage it was read from: git storage with byte-identical journal files in one
        # commit (one blob, two files, two transactions) is C08's comparison with the filesystem load, borrowed here
        if not focus:
            import c08
            for c in c08.PROP.gen(rng, "quick", focus=True):
                out.append(dict(c, delegate="c08", kind="git:" + str(c.get("kind", ""))))
        # digests and selector checksums in isolation
        for alg in ALGOS:
            for k in range(6 if q else 120):
                out.append(self.mk_hash_case(rng, alg, k))
        return out

    def mk_filter(self, rng, txns, flt, dup_idx=None, dup_mode=None):
        """-> filter JSON (inside `txnFilter`) or None (= get_all)"""
        nss = sorted({int(t["ts"]["ns"]) for t in txns})
        if dup_idx is not None and dup_mode in ("inside", "outside", "split"):
            a, b = [int(txns[i]["ts"]["ns"]) for i in dup_idx]
            lo, hi = min(a, b), max(a, b)
            if dup_mode == "inside":
                if rng.random() < 0.3:
                    return None
                return {"TxnFilterAND": {"txnFilters": [{"TxnFilterTxnTSBegin": {"begin": ns_to_rfc3339(lo)}},
                                                        {"TxnFilterTxnTSEnd": {"end": ns_to_rfc3339(hi + 1)}}]}}
            if dup_mode == "outside":
                # both duplicates fall outside: select strictly after the later one or strictly before the earlier
                if rng.random() < 0.5:
                    return {"TxnFilterTxnTSBegin": {"begin": ns_to_rfc3339(hi + 1)}}
                return {"TxnFilterTxnTSEnd": {"end": ns_to_rfc3339(lo)}}
            # split: the earlier duplicate is out, the later one is in (needs lo < hi)
            return {"TxnFilterTxnTSBegin": {"begin": ns_to_rfc3339(lo + 1)}}
        pick = lambda: rng.choice(nss) + rng.choice([-1, 0, 0, 1])
        if flt == "all":
            return None
        if flt == "true":
            return {"NullaryTRUE": {}}
        if flt == "empty":
            return rng.choice([{"NullaryFALSE": {}}, {"TxnFilterTxnTSBegin": {"begin": ns_to_rfc3339(nss[-1] + 1)}},
                               {"TxnFilterTxnTSEnd": {"end": ns_to_rfc3339(nss[0])}}])
        if flt == "begin":
            return {"TxnFilterTxnTSBegin": {"begin": ns_to_rfc3339(pick())}}
        if flt == "end":
            return {"TxnFilterTxnTSEnd": {"end": ns_to_rfc3339(pick())}}
        if flt == "and":
            a, b = sorted([pick(), pick()])
            return {"TxnFilterAND": {"txnFilters": [{"TxnFilterTxnTSBegin": {"begin": ns_to_rfc3339(a)}},
                                                    {"TxnFilterTxnTSEnd": {"end": ns_to_rfc3339(b)}}]}}
        if flt == "not":
            return {"TxnFilterNOT": {"txnFilter": {"TxnFilterTxnTSBegin": {"begin": ns_to_rfc3339(pick())}}}}
        if flt == "or":
            a, b = sorted([pick(), pick()])
            return {"TxnFilterOR": {"txnFilters": [{"TxnFilterTxnTSEnd": {"end": ns_to_rfc3339(a)}},
                                                   {"TxnFilterTxnTSBegin": {"begin": ns_to_rfc3339(b)}}]}}
        return None

    def mk_case(self, rng, alg, kind, audit=True, uuid_case="lower", missing=None, dup=None, flt=None, selectors="some"):
        cfg = {"audit": audit, "hash": alg}
        # the audit switch may come from the file or from the command line (overlap); the algorithm always from the file
        r = rng.random()
        if r < 0.25:
            cfg = {"audit": not audit, "ov_audit": audit, "hash": alg}
        elif r < 0.35:
            cfg = {"audit": audit, "ov_audit": audit, "hash": alg}
        n = rng.choice([1, 2, 3, 4, 5, 6, 8, 12]) if dup is None else rng.choice([2, 3, 4, 5, 6, 8])
        if dup == "many":
            n = rng.choice([20, 22, 26])     # >= 10 duplicated UUIDs: the other branch of the error message
        p_uuid = 1.0 if audit else rng.choice([0.0, 0.5, 1.0])
        opts = {"p_invalid": 0.0, "n_txns": n, "p_uuid": p_uuid, "p_price": 0.1, "p_opening": 0.0, "p_loc": 0.1,
                "p_tags": 0.15, "p_comments": 0.1, "comms": common.COMMS[:2]}
        txns = common.gen_journal(rng, cfg, opts)
        dup_idx = None
        if dup == "many":
            for i in range(n // 2):
                if txns[2 * i]["uuid"] is None:
                    txns[2 * i]["uuid"] = common.gen_uuid(rng)
                txns[2 * i + 1]["uuid"] = txns[2 * i]["uuid"]
            dup, flt = None, rng.choice(["all", "true"])
        if dup is not None:
            i, j = rng.sample(range(n), 2)
            if txns[i]["uuid"] is None:
                txns[i]["uuid"] = common.gen_uuid(rng)
            txns[j]["uuid"] = txns[i]["uuid"]
            if dup == "split" and txns[i]["ts"]["ns"] == txns[j]["ts"]["ns"]:
                dup = "inside"
            dup_idx = (i, j)
        for t in txns:
            if t["uuid"] is not None:
                t["uuid"] = mix_case(rng, t["uuid"], uuid_case if rng.random() < 0.7 else "lower")
        if missing == "first":
            txns[0]["uuid"] = None
        elif missing == "last":
            txns[-1]["uuid"] = None
        elif missing == "any":
            txns[rng.randrange(n)]["uuid"] = None
        f = self.mk_filter(rng, txns, flt or rng.choice(["all", "true", "begin", "end", "and"]), dup_idx, dup)
        sels = {}
        if selectors != "none":
            for r in REPORTS:
                if selectors == "all" or rng.random() < 0.5:
                    k = rng.choice([0, 1, 1, 2, 3, 5])
                    sels[r] = [rng.choice(PATTERNS) for _ in range(k)]
                    cfg[SEL_KEY[r]] = sels[r]
        layout = common.gen_layout(rng)
        layout["upper_uuid"] = False
        text = common.render_journal(txns, layout)
        case = {"op": "audit", "kind": kind, "cfg": cfg, "hash": alg, "txns": txns, "text": text,
                "filter": ({"txnFilter": f} if f is not None else None), "selectors": sels, "reports": REPORTS}
        if len(txns) >= 2 and rng.random() < 0.35:
            # the same journal as several files (paths_to_txns): the set - and a duplicate - is a matter of the selected
            # transactions, wherever they were read from; two transactions sharing a uuid are put into different files
            k = rng.choice([2, 2, 3])
            part = [rng.randrange(k) for _ in txns]
            if dup_idx is not None and part[dup_idx[0]] == part[dup_idx[1]]:
                part[dup_idx[1]] = (part[dup_idx[0]] + 1) % k
            files = []
            for i in range(k):
                sub = [t for t, q in zip(txns, part) if q == i]
                if sub:
                    files.append({"name": "d%d/f%d.txn" % (i % 2, i), "text": common.render_journal(sub, layout)})
            case["files"] = files
            case["kind"] = kind + "+files"
        return case

    def mk_hash_case(self, rng, alg, k):
        msgs = []
        if k == 0:
            # every length around the block boundaries (64 / 128 / 136 / 72 byte blocks), as one "separator"
            for ln in list(range(0, 150)) + [199, 200, 255, 256, 257, 271, 272, 273, 287, 288, 289, 400]:
                msgs.append({"items": [""], "sep": bytes(rng.randrange(256) for _ in range(ln)).hex()})
        else:
            for _ in range(40):
                n = rng.choice([0, 1, 1, 2, 3, 5, 9])
                items = [rng.choice([common.gen_uuid(rng), rng.choice(PATTERNS), rng.choice(common.WORDS), "", "é"])
                         for _ in range(n)]
                sep = rng.choice(["0a", "0a", "", "0d0a", "00", "2c20"])
                msgs.append({"items": items, "sep": sep})
        patsets = [[rng.choice(PATTERNS) for _ in range(rng.choice([1, 1, 2, 3, 4, 7]))] for _ in range(20)]
        return {"op": "hash", "kind": "digest", "hash": alg, "msgs": msgs, "patsets": patsets}

    # ------------------------------------------------------------------------------------ driver views
    def expected_selection(self, case):
        """indices (into the written order) of the transactions the filter definition selects"""
        f = case.get("filter")
        txns = case["txns"]
        if f is None:
            return None
        return [i for i, t in enumerate(txns) if eval_filter(f["txnFilter"], int(t["ts"]["ns"]))]

    def impl_case(self, case):
        if case["op"] == "hash":
            return {k: v for k, v in case.items() if k != "kind"}
        return {k: case[k] for k in ("op", "cfg", "text", "filter", "reports", "files") if k in case}

    def model_case(self, case):
        if case["op"] == "hash":
            return {k: v for k, v in case.items() if k != "kind"}
        return {"op": "audit", "cfg": model_cfg(case.get("cfg", {})), "hash": case["hash"], "txns": case["txns"],
                "sel": self.expected_selection(case), "selectors": case.get("selectors", {})}

    # ------------------------------------------------------------------------------------ observables
    def impl_sel_checksums(self, case, impl):
        """report name -> (alg, value) | None (no block) | 'skip' (not observable)"""
        out = {}
        for r in REPORTS:
            rep = (impl.get("reports") or {}).get(r)
            if rep is None or rep.get("r") in ("BADCASE", None):
                out[r] = "skip"
                continue
            text = rep.get("text", "")
            if r == "equity":
                if text == "":
                    out[r] = "skip"        # nothing is exported (no rows): the checksum has nowhere to go
                    continue
                blocks = parse_block(text, "Account Selector Checksum", "   ; ")
            else:
                if rep.get("r") == "PANIC" and "Account Selector Checksum" not in text:
                    out[r] = "skip"
                    continue
                blocks = parse_block(text, "Account Selector Checksum")
            if not blocks:
                out[r] = None
            elif len(set(blocks)) == 1:
                out[r] = blocks[0]
            else:
                out[r] = ("?", "differing blocks %s" % (blocks,))
        return out

    # ------------------------------------------------------------------------------------ judgement
    def compare(self, case, impl, model):
        mi, ii = model.get("r"), impl.get("r")
        if mi == "UNDEF":
            return "skip"
        if mi == "BADCASE" or ii in ("BADCASE", "GARBLED", "FILTERERR"):
            return "driver problem: impl=%s model=%s %s %s" % (ii, mi, impl.get("msg", ""), model.get("msg", ""))
        if ii != mi:
            return "status differs: impl=%s model=%s (%s)" % (ii, mi, (impl.get("msg") or "")[:200])
        if ii != "OK":
            return None
        if case["op"] == "hash":
            if impl["v"] != model["v"]:
                for k, (a, b) in enumerate(zip(impl["v"], model["v"])):
                    if a != b:
                        return "digest differs for message %d (%s): impl=%s model=%s" % (k, case["msgs"][k], a, b)
            if impl["sels"] != model["sels"]:
                for k, (a, b) in enumerate(zip(impl["sels"], model["sels"])):
                    if a != b:
                        return "selector checksum differs for %s: impl=%s model=%s" % (case["patsets"][k], a, b)
            return None
        if impl.get("n") != model.get("n"):
            return "loaded count differs: impl=%s model=%s" % (impl.get("n"), model.get("n"))
        si, sm = impl["set"], model["set"]
        if sm.get("r") == "UNDEF":
            return "skip"
        if si.get("r") != sm.get("r"):
            return "set status differs: impl=%s model=%s (%s)" % (si.get("r"), sm.get("r"), (si.get("msg") or "")[:200])
        if si.get("r") == "OK":
            if si["uuids"] != sm["uuids"]:
                return "selected transactions differ: impl=%s model=%s" % (si["uuids"], sm["uuids"])
            ti = si.get("tsc") or []
            tm = [sm["tsc"]] if sm.get("tsc") else []
            if ti != tm:
                return "txn set checksum differs: impl=%s model=%s" % (ti, tm)
        isel = self.impl_sel_checksums(case, impl)
        for r in REPORTS:
            if isel[r] == "skip":
                continue
            m = model["sels"].get(r)
            mv = (m["alg"], m["value"]) if m else None
            if isel[r] != mv:
                return "account selector checksum of %s differs: impl=%s model=%s" % (r, isel[r], mv)
        return None

    def oracle(self, case, impl):
        r = impl.get("r")
        if r in ("PANIC", "ABORT", "TIMEOUT", "BADCASE", "GARBLED"):
            return None
        alg = case["hash"]
        if case["op"] == "hash":
            if r != "OK":
                return None
            for m, v in zip(case["msgs"], impl["v"]):
                data = b"".join(x.encode("utf-8") + bytes.fromhex(m["sep"]) for x in m["items"])
                exp = py_digest(alg, data)
                if exp is None:
                    continue     # hashlib lacks the algorithm: only the Lean model is compared
                if v.get("alg") != alg or v.get("value") != exp:
                    return {"sig": "digest:" + alg, "what": "Hash::checksum(%s) = %s, hashlib says %s" % (m, v, exp)}
            for ps, v in zip(case["patsets"], impl["sels"]):
                for kind in ("balance", "register", "equity"):
                    if ps:
                        exp = (alg, spec_checksum(alg, ps))
                    else:
                        exp = ("None", "select all non-zero" if kind == "equity" else "select all")
                    got = (v[kind].get("alg"), v[kind].get("value"))
                    if exp[1] is not None and got != exp:
                        return {"sig": "selector-checksum:" + kind, "what": "selector %s: checksum %s, expected %s" % (ps, got, exp)}
            self.remember(case)
            return None
        txns = case["txns"]
        audit = bool(case["cfg"].get("ov_audit", case["cfg"].get("audit")))
        if alg not in ALGOS:
            return None
        if r != "OK":
            return None
        self.remember(case)
        # 1. audit mode: a loaded journal has a UUID on every transaction
        if audit and any(t.get("uuid") is None for t in txns):
            return {"sig": "audit-missing-uuid-accepted", "what": "audit mode: journal with a transaction without UUID was loaded"}
        if impl.get("n") != len(txns):
            return {"sig": "loaded-count", "what": "loaded %s of %d transactions" % (impl.get("n"), len(txns))}
        st = impl["set"]
        sel = self.expected_selection(case)
        chosen = [txns[i] for i in sel] if sel is not None else list(txns)
        canon = [t["uuid"].lower() if t.get("uuid") is not None else None for t in chosen]
        if not audit:
            # no checksum at all
            if st.get("r") != "OK":
                return {"sig": "set-failed-without-audit", "what": "audit off: producing the set failed: %s" % st.get("msg")}
            if st.get("tsc") or "Txn Set Checksum" in (st.get("meta") or ""):
                return {"sig": "checksum-without-audit", "what": "audit off: a txn set checksum was reported"}
            for rname, rep in (impl.get("reports") or {}).items():
                if "Account Selector Checksum" in rep.get("text", ""):
                    return {"sig": "selector-checksum-without-audit", "what": "audit off: %s prints a selector checksum" % rname}
            if sorted(x or "" for x in st["uuids"]) != sorted(x or "" for x in canon):
                return {"sig": "selection", "what": "selected %s, the filter definition selects %s" % (st["uuids"], canon)}
            return None
        # 2. duplicates among the selected ones: producing the set must fail
        if len(set(canon)) != len(canon):
            if st.get("r") == "OK":
                return {"sig": "duplicate-uuid-accepted", "what": "selected set with duplicate UUIDs was produced: %s" % sorted(canon)}
            return None
        if st.get("r") != "OK":
            return {"sig": "set-failed", "what": "a duplicate-free selected set could not be produced: %s" % st.get("msg")}
        # 3. the selection itself, then size and checksum
        if sorted(st["uuids"]) != sorted(canon):
            return {"sig": "selection", "what": "selected %s, the filter definition selects %s" % (st["uuids"], canon)}
        tsc = st.get("tsc") or []
        if len(tsc) != 1:
            return {"sig": "tsc-count", "what": "%d TxnSetChecksum items in the metadata" % len(tsc)}
        exp = spec_checksum(alg, canon)
        t = tsc[0]
        if t["size"] != len(chosen):
            return {"sig": "set-size", "what": "reported size %s, selected %d" % (t["size"], len(chosen))}
        if t["alg"] != alg:
            return {"sig": "checksum-algorithm", "what": "reported algorithm %s, configured %s" % (t["alg"], alg)}
        if exp is not None and t["value"] != exp:
            return {"sig": "set-checksum", "what": "reported %s, %s over the sorted lower-case UUIDs gives %s" % (t["value"], alg, exp)}
        tt = parse_tsc_text(st.get("meta"))
        if tt != [(t["alg"], t["value"], str(t["size"]))]:
            return {"sig": "metadata-text", "what": "metadata text blocks %s do not show the item %s" % (tt, t)}
        # 4. account-selector checksums printed by the reports
        isel = self.impl_sel_checksums(case, impl)
        for rname in REPORTS:
            got = isel[rname]
            if got == "skip":
                continue
            ras = case.get("selectors", {}).get(rname) or []
            if ras:
                e = spec_checksum(alg, ras)
                if e is None:
                    continue
                expsel = (alg, e)
            else:
                expsel = ("None", "select all non-zero" if rname == "equity" else "select all")
            if got != expsel:
                return {"sig": "selector-checksum:" + rname, "what": "%s prints selector checksum %s for %s, expected %s" % (rname, got, ras, expsel)}
        return None

    def rerender(self, case, txns):
        c = copy.deepcopy(case)
        c["txns"] = txns
        c["text"] = common.render_journal(txns)
        return c

    def shrink(self, failure):
        """drop transactions (then selector lists) while the oracle keeps failing with the same signature"""
        case = failure["case"]
        if case.get("op") != "audit":
            return failure
        sig = failure["oracle"].get("sig")
        best = failure

        def attempt(c):
            impl = common.run_driver([common.TK_IMPL], [self.impl_case(c)], jobs=1)[0]
            of = self.oracle(c, impl)
            if of and of.get("sig") == sig:
                return dict(case=c, impl=impl, model=None, oracle=of)
            return None

        changed = True
        while changed and len(best["case"]["txns"]) > 1:
            changed = False
            ts = best["case"]["txns"]
            for i in range(len(ts)):
                r = attempt(self.rerender(best["case"], ts[:i] + ts[i + 1:]))
                if r:
                    best, changed = r, True
                    break
        for rname in list(best["case"].get("selectors", {})):
            if sig.endswith(rname):
                continue
            c = copy.deepcopy(best["case"])
            c["selectors"].pop(rname, None)
            c["cfg"].pop(SEL_KEY[rname], None)
            r = attempt(c)
            if r:
                best = r
        if best is not failure:
            best["model"] = common.run_driver([common.TK_MODEL], [self.model_case(best["case"])], jobs=1)[0]
            best["case"]["shrunk_from"] = common.case_hash(self.impl_case(case))
        return best

    def nontrivial(self, case, impl):
        if case["op"] == "hash":
            return True
        if not case["cfg"].get("ov_audit", case["cfg"].get("audit")):
            return False
        return impl.get("r") in ("OK", "ERR")

    def sample(self, case):
        c = {k: v for k, v in case.items() if k not in ("txns", "msgs", "patsets")}
        if "msgs" in case:
            c["msgs"] = len(case["msgs"])
        return c

    def rule(self):
        return ("journals from gen/common.py (1-12 valid transactions, UUIDs in lower/upper/mixed case, optionally one "
                "missing UUID or one duplicated UUID placed inside/outside/across the filtered range), audit on/off, "
                "each of the five algorithms (plus unsupported names), a filter definition from {none, TRUE, FALSE, "
                "TSBegin, TSEnd, AND, OR, NOT} with bounds at transaction instants -1/0/+1 ns (evaluated independently "
                "in python), selector lists for balance / balance-group / register / equity from a pool incl. wrapped, "
                "anchored, empty, non-ASCII and newline-containing patterns; plus digest-only cases (messages of every "
                "length 0-149 and around 200/256/272/288 bytes, random item lists and separators). non-trivial = audit "
                "mode on (checksums or a load/set error are produced) or a digest case; distinct = sha256 of the "
                "implementation case line")

    def trusted_base(self):
        return super().trusted_base() + [
            "python hashlib (OpenSSL) as the independent implementation of SHA-256, SHA-512, SHA-512/256, SHA3-256, SHA3-512",
            "modelled, not verified: regex compilation of selector patterns (generated patterns are valid), the text "
            "grammar (AST-level tie), serde/jiff decoding of the filter definition (selection cross-checked in python)"]

    def assumptions(self):
        return ["'differs whenever the selected set differs' = theorem preimage_injective (the hashed message determines "
                "the UUID multiset) + collision resistance of the configured hash, a cryptographic assumption that is "
                "not a theorem (theorem equal_checksum_is_collision exhibits the collision otherwise)",
                "DynDigest::update is incremental hashing of the concatenation (digest crates' contract; compared with "
                "hashlib and the Lean digests on every run)"]


PROP = C09()

"""C04 — results depend only on the set of transactions, not on how it was supplied."""
import copy
import json
import re

import common
from propbase import PropBase, model_cfg, model_tscfg, cmp_status

OUTS = ["txns", "identity", "equity", "balance", "balgrp", "register", "meta"]
TEXT_OUTS = ["identity", "equity", "balance", "balgrp", "register", "meta"]
NUM_RE = re.compile(r"^-?\d+(\.\d+)?$")


def cj(x):
    """canonical text of a JSON value (multiset comparison of loaded transactions)"""
    return json.dumps(x, sort_keys=True, ensure_ascii=False)


def numeric_tokens(text):
    """report text as a token list with numbers normalised by value and ruler lines dropped"""
    toks = []
    for ln in text.split("\n"):
        s = ln.strip()
        if not s or set(s) <= set("-=~*#"):
            continue
        for t in s.split():
            toks.append(common.dec_norm(t) if NUM_RE.match(t) else t)
    return toks


class C04(PropBase):
    id = "C04"
    needs_cli = True     # the borrowed git-storage cases (C08's) run the real binary too
    REPEATS = 3

    def gen(self, rng, tier, focus=None):
        n = 250 if tier == "quick" else 3000
        out = []
        for i in range(n):
            klass = rng.choice(["distinct", "distinct", "distinct-audit", "duplicates", "scales", "empty-vs-absent", "priced", "uuid-vs-absent",
                                "far-dates", "dst-day"])
            cfg = {"group_by": rng.choice(["year", "month", "date", "iso-week", "iso-week-date"])}
            opts = {"p_invalid": 0.0, "n_txns": rng.choice([2, 3, 4, 5, 6, 8]), "comms": common.COMMS[:rng.randrange(1, 4)],
                    "p_comments": 0.3, "p_tags": 0.3, "p_loc": 0.2}
            if klass in ("distinct", "distinct-audit", "scales", "priced", "far-dates"):
                opts["p_uuid"] = 1.0
            if klass == "priced":
                # price conversion (txn-time / last-price) with several converted commodities: the "Commodity Prices"
                # metadata and the converted figures must not depend on hash order or arrangement either
                opts["comms"] = common.COMMS[:4]
                opts["p_comm"] = 1.0
                opts["p_price"] = 0.0
                opts["p_opening"] = 0.0
                db = "".join("P 2020-01-0%dT00:00:00Z %s %s EUR\n" % (k + 1, c, r)
                             for k, (c, r) in enumerate([("USD", "0.9"), ("ACME", "120"), ("He·bar", "3.5"), ("USD", "0.8")]))
                cfg["price"] = {"db": db, "lookup": rng.choice(["txn-time", "txn-time", "last-price"])}
                cfg["report_commodity"] = "EUR"
            if klass == "distinct-audit":
                cfg["audit"] = True
                cfg["hash"] = rng.choice(["SHA-256", "SHA-512", "SHA3-256"])
            txns = common.gen_journal(rng, cfg, opts)
            if klass == "dst-day":
                # a named journal zone and offset-less timestamps on both sides of an offset transition of one civil day:
                # the offset of each is the zone's at that wall-clock time, whatever was parsed before it
                import datetime
                import zoneinfo
                zname, day, before, after = rng.choice([
                    ("Europe/Helsinki", (2024, 10, 27), [(1, 15), (2, 30), (2, 59)], [(4, 0), (4, 30), (9, 0)]),
                    ("Europe/Helsinki", (2024, 3, 31), [(0, 30), (2, 59)], [(4, 0), (12, 0)]),
                    ("America/New_York", (2024, 11, 3), [(0, 10), (0, 59)], [(2, 0), (3, 30)]),
                    ("Australia/Lord_Howe", (2024, 4, 7), [(0, 30), (1, 29)], [(2, 0), (5, 0)])])
                cfg["tz"] = {"name": zname}
                z = zoneinfo.ZoneInfo(zname)
                for k, t in enumerate(txns):
                    hh, mm = rng.choice(before if k % 2 == 0 else after)
                    dt = datetime.datetime(day[0], day[1], day[2], hh, mm, 0, tzinfo=z)
                    off = int(dt.utcoffset().total_seconds())
                    ns = int((dt - datetime.datetime(1970, 1, 1, tzinfo=datetime.timezone.utc)).total_seconds()) * 10 ** 9
                    t["ts"] = {"ns": str(ns), "off": off, "text": "%04d-%02d-%02dT%02d:%02d:00" % (day[0], day[1], day[2], hh, mm)}
                    t["uuid"] = common.gen_uuid(rng)
            if klass == "far-dates":
                # instants on both sides of what a signed 64-bit nanosecond count can hold (1677 .. 2262), with ordinary ones
                for t in txns:
                    if rng.random() < 0.6:
                        t["ts"] = common.gen_ts(rng, cfg, base_year=rng.choice([1001, 1500, 1676, 1678, 1900, 2261, 2263, 2500, 9998]))
            if klass == "duplicates":
                # clone headers so that some transactions are indistinguishable by (instant, code, desc, uuid)
                for t in txns:
                    t["uuid"] = None
                j = rng.randrange(len(txns))
                # indistinguishable also when they carry the same (present) uuid: outside audit mode that is allowed, and
                # they are still two transactions with their own postings
                shared = common.gen_uuid(rng) if rng.random() < 0.5 else None
                txns[j]["uuid"] = shared
                for k in rng.sample(range(len(txns)), min(2, len(txns))):
                    for f in ("ts", "code", "desc", "uuid"):
                        txns[k][f] = copy.deepcopy(txns[j][f])
            if klass == "empty-vs-absent":
                # same instant; headers differ only by an empty vs an absent code / description / uuid
                for t in txns:
                    t["uuid"] = None
                j = rng.randrange(len(txns))
                base = txns[j]
                f = rng.choice(["code", "desc"])
                for k in range(len(txns)):
                    txns[k]["ts"] = copy.deepcopy(base["ts"])
                    txns[k]["code"] = None
                    txns[k]["desc"] = None
                    txns[k]["uuid"] = None
                variants = [(None, None), ("", None), (None, ""), ("", ""), ("a", None), (None, "a"), ("a", ""), ("", "a")]
                rng.shuffle(variants)
                txns = txns[:len(variants)]
                for k, t in enumerate(txns):
                    t["code"], t["desc"] = variants[k]
            if klass == "uuid-vs-absent":
                # identical instant, code and description; distinguishable only by the uuid, one transaction has none
                j = rng.randrange(len(txns))
                for k in range(len(txns)):
                    for f in ("ts", "code", "desc"):
                        txns[k][f] = copy.deepcopy(txns[j][f])
                    txns[k]["uuid"] = common.gen_uuid(rng)
                txns[rng.randrange(len(txns))]["uuid"] = None
            if klass == "scales":
                # F8 shape: children of one node with different scales that cancel
                t = txns[0]
                c = t["posts"][0].get("unit")
                t["posts"] = [{"acct": "s:x", "amount": "1.00", "unit": c, "comment": None},
                              {"acct": "s:y", "amount": "-1.00", "unit": c, "comment": None},
                              {"acct": "s:z", "amount": "5", "unit": c, "comment": None},
                              {"acct": "q", "amount": "-5", "unit": c, "comment": None}]
                if c and c.get("closing"):
                    for p in t["posts"]:
                        p["unit"] = {"comm": c["comm"], "opening": None, "closing": None}
                t["last"] = None
            # arrangement A: one text; arrangement B: permuted, sharded, different layout
            text_a = common.render_journal(txns, common.gen_layout(rng))
            perm = list(range(len(txns)))
            rng.shuffle(perm)
            nfiles = rng.randrange(1, len(txns) + 1)
            shards = [[] for _ in range(nfiles)]
            for idx in perm:
                shards[rng.randrange(nfiles)].append(txns[idx])
            files = []
            for k, sh in enumerate(shards):
                if not sh:
                    continue
                name = rng.choice(["f%d.txn", "sub/g%d.txn", "sub/deep/er/h%d.txn", "z/%d.txn"]) % k
                files.append({"name": name, "text": common.render_journal(sh, common.gen_layout(rng))})
            # a subdirectory of the journal directory may be a symbolic link to a directory kept elsewhere
            tops = sorted(set(f["name"].split("/")[0] for f in files if "/" in f["name"]))
            if tops and rng.random() < 0.3:
                top = rng.choice(tops)
                for f in files:
                    if f["name"].startswith(top + "/"):
                        f["name"] = "../elsewhere/" + f["name"]
                files.append({"name": top, "symlink": "../elsewhere/" + top, "text": ""})
                klass += "+symlinked-dir"
            out.append({"op": "run", "kind": klass, "cfg": cfg, "txns": txns, "text": text_a, "files": files,
                        "perm": perm, "want": OUTS})
        # the same set of transactions supplied through git storage (files of one commit, byte-identical copies among
        # them) must load like the filesystem arrangement of that commit: C08's comparison, borrowed here
        if not focus:
            import c08
            for c in c08.PROP.gen(rng, "quick", focus=True):
                out.append(dict(c, delegate="c08", kind="git:" + str(c.get("kind", ""))))
        return out

    # the implementation is run on both arrangements, several times in fresh processes
    def run_impl(self, cases):
        runs = []
        for rep in range(self.REPEATS):
            a = common.run_driver([common.TK_IMPL], [{k: v for k, v in c.items() if k not in ("txns", "files", "perm")} for c in cases])
            b = common.run_driver([common.TK_IMPL], [dict({k: v for k, v in c.items() if k not in ("txns", "text", "perm")}, walk=True) for c in cases])
            runs.append((a, b))
        return [{"r": runs[0][0][i].get("r"), "runs": [(ra[i], rb[i]) for ra, rb in runs]} for i in range(len(cases))]

    def impl_case(self, case):
        return case

    # the model loads both arrangements as well: A as the generator's AST (semantic layers) and as the one text
    # (grammar model, `loadText`); B as the sharded files at text level (`loadFiles`, files in listed order)
    def model_case(self, case):
        mcfg = model_cfg(case.get("cfg", {}))
        ts = model_tscfg(case.get("cfg", {}))
        base = {"op": "run", "cfg": mcfg, "want": ["txns"]}
        if ts is not None:
            base["tscfg"] = ts
        a = dict(base, txns=case["txns"])
        t = dict(base, text=case["text"]) if ts is not None else None
        b = dict(base, files=[{"text": f["text"]} for f in case["files"] if "symlink" not in f]) if ts is not None else None
        # a third order of the files (reversed): the model's own file-order freedom is exercised too
        r = dict(base, files=[{"text": f["text"]} for f in reversed(case["files"]) if "symlink" not in f]) if ts is not None else None
        return {"a": a, "t": t, "b": b, "r": r}

    def run_model(self, mcases):
        flat, where = [], []
        for i, mc in enumerate(mcases):
            for k in ("a", "t", "b", "r"):
                if mc.get(k) is not None:
                    flat.append(mc[k])
                    where.append((i, k))
        ans = common.run_driver([common.TK_MODEL], flat)
        out = [dict() for _ in mcases]
        for (i, k), a in zip(where, ans):
            out[i][k] = a
        # the answer of arrangement A (AST) is the primary one (status protocol of bin/check)
        return [dict(o.get("a", {}), arr=o) for o in out]

    def compare(self, case, impl, model):
        a0 = impl["runs"][0][0]
        arr = model.get("arr", {})
        ma = arr.get("a", model)
        d = cmp_status(a0, ma)
        if d:
            return d
        # the model's loads of the other arrangements: same status as its load of A (C04 `shards_free`, first clause)
        for k in ("t", "b", "r"):
            mk = arr.get(k)
            if mk is None:
                continue
            if mk.get("r") in ("BADCASE", "GARBLED"):
                return "driver problem: model arrangement %s: %s" % (k, mk.get("msg", ""))
            if mk.get("r") != ma.get("r"):
                return "model load status differs between arrangements: A=%s %s=%s" % (ma.get("r"), k, mk.get("r"))
        if a0.get("r") != "OK":
            return None
        mv = ma["out"]["txns"]["v"]
        mb = arr["b"]["out"]["txns"]["v"] if arr.get("b") else None
        distinct = not case["kind"].startswith("duplicates")
        if arr.get("t") and arr["t"]["out"]["txns"]["v"] != mv:
            return "model: the one text loads differently from the generator's AST"
        if distinct:
            # distinguishable transactions: the model's loads of the two arrangements are EQUAL lists
            for k in ("b", "r"):
                if arr.get(k) and arr[k]["out"]["txns"]["v"] != mv:
                    return "model: arrangement %s loads to a different list than arrangement A" % k
        else:
            # otherwise permutations of each other
            for k in ("b", "r"):
                if arr.get(k) and sorted(map(cj, arr[k]["out"]["txns"]["v"])) != sorted(map(cj, mv)):
                    return "model: arrangement %s does not load to a permutation of arrangement A" % k
        for ra, rb in impl["runs"]:
            for which, r, want in (("one-file", ra, mv), ("sharded", rb, mb if mb is not None else mv)):
                if r.get("r") != "OK":
                    return "an arrangement failed to load: %s" % r.get("r")
                got = r["out"]["txns"].get("v")
                if distinct:
                    if got != want:
                        return "loaded order of the %s arrangement differs from the model's load of that arrangement" % which
                else:
                    # indistinguishable transactions: the stable sort keeps supply order among equal keys, and the
                    # directory walk order of the implementation is not the model's file order: compare as multisets
                    if sorted(map(cj, got)) != sorted(map(cj, want)):
                        return "loaded transactions of the %s arrangement differ (as a multiset) from the model's" % which
                    if which == "one-file" and got != want:
                        return "loaded order of the one-file arrangement differs from the model's (stable sort)"
        return None

    def oracle(self, case, impl):
        runs = impl["runs"]
        first = runs[0][0]
        statuses = {r.get("r") for pair in runs for r in pair}
        if statuses & {"PANIC", "ABORT", "TIMEOUT"}:
            return None
        if len(statuses) != 1:
            return {"sig": "status-differs", "what": "arrangements/runs disagree on load status: %s" % sorted(statuses)}
        if first.get("r") != "OK":
            return None
        self.remember(case)
        distinct = not case["kind"].startswith("duplicates")
        for o in TEXT_OUTS:
            ref = first["out"][o]
            for ra, rb in runs:
                for which, r in (("one-file", ra), ("sharded", rb)):
                    cur = r["out"][o]
                    if cur.get("r") != ref.get("r"):
                        return {"sig": "output-status:" + o, "what": "%s output status differs between arrangements/runs (%s vs %s)" % (o, cur.get("r"), ref.get("r"))}
                    if ref.get("r") != "OK":
                        continue
                    if distinct:
                        if cur["v"] != ref["v"]:
                            return {"sig": "bytes:" + o, "what": "%s output is not byte-identical (%s arrangement / repeated run)" % (o, which),
                                    "a": ref["v"][:1500], "b": cur["v"][:1500]}
                    elif o in ("balance", "balgrp"):
                        if numeric_tokens(cur["v"]) != numeric_tokens(ref["v"]):
                            return {"sig": "numbers:" + o, "what": "%s figures differ as numbers for indistinguishable transactions" % o,
                                    "a": ref["v"][:1500], "b": cur["v"][:1500]}
        return None

    def nontrivial(self, case, impl):
        return len(case.get("files", [])) > 1 or case.get("perm") != sorted(case.get("perm", []))

    def sample(self, case):
        return {"kind": case.get("kind"), "one_file_text": case.get("text", "")[:800],
                "shards": [(f["name"], f["text"][:300]) for f in case.get("files", [])[:4]], "perm": case.get("perm")}

    def rule(self):
        return ("a generated set of transactions is supplied twice: as one text, and permuted + sharded over 1..n files in "
                "nested directories with another random layout (loaded through the directory walk); each arrangement is "
                "run %d times in fresh processes (fresh hash seeds); all six output texts must be byte-identical when "
                "headers are pairwise distinct, balance/balance-group figures equal as numbers otherwise; the Lean model "
                "loads both arrangements too (A as AST and as text, B as the sharded files at text level through loadFiles, "
                "also with the files reversed): its loads must agree with each other (equal lists for distinct headers, "
                "permutations otherwise) and the loaded order of every implementation run is compared with the model's "
                "load of the same arrangement; non-trivial = more than one file or a non-identity permutation" % self.REPEATS)

    def trusted_base(self):
        return super().trusted_base() + [
            "sampled, not modelled: std HashMap seeding (fresh processes), walkdir traversal order (the model loads the "
            "files in the listed and in the reversed order; file-order freedom is the theorem C04.shards_free)"]

    def assumptions(self):
        return ["byte-identity is required only for transactions pairwise distinct in (instant, code, description, uuid)"]


PROP = C04()

"""C04 — results depend only on the set of transactions, not on how it was supplied."""
import copy
import re

import common
from propbase import PropBase, model_cfg, cmp_status

OUTS = ["txns", "identity", "equity", "balance", "balgrp", "register", "meta"]
TEXT_OUTS = ["identity", "equity", "balance", "balgrp", "register", "meta"]
NUM_RE = re.compile(r"^-?\d+(\.\d+)?$")


def numeric_tokens(text):
    """report text as a token list with numbers normalised by value and ruler lines dropped"""
    toks = []
    for ln in text.split("\n"):
        s = ln.strip()
        if not s or set(s) <= set("-=~*#"):
            continue
        for t in s.split():
            toks.append(common.dec_norm(t) if NUM_RE.match(t) else t)
    return toks


class C04(PropBase):
    id = "C04"
    REPEATS = 3

    def gen(self, rng, tier, focus=None):
        n = 250 if tier == "quick" else 3000
        out = []
        for i in range(n):
            klass = rng.choice(["distinct", "distinct", "distinct-audit", "duplicates", "scales", "empty-vs-absent", "priced"])
            cfg = {"group_by": rng.choice(["year", "month", "date", "iso-week", "iso-week-date"])}
            opts = {"p_invalid": 0.0, "n_txns": rng.choice([2, 3, 4, 5, 6, 8]), "comms": common.COMMS[:rng.randrange(1, 4)],
                    "p_comments": 0.3, "p_tags": 0.3, "p_loc": 0.2}
            if klass in ("distinct", "distinct-audit", "scales", "priced"):
                opts["p_uuid"] = 1.0
            if klass == "priced":
                # price conversion (txn-time / last-price) with several converted commodities: the "Commodity Prices"
                # metadata and the converted figures must not depend on hash order or arrangement either
                opts["comms"] = common.COMMS[:4]
                opts["p_comm"] = 1.0
                opts["p_price"] = 0.0
                opts["p_opening"] = 0.0
                db = "".join("P 2020-01-0%dT00:00:00Z %s %s EUR\n" % (k + 1, c, r)
                             for k, (c, r) in enumerate([("USD", "0.9"), ("ACME", "120"), ("He·bar", "3.5"), ("USD", "0.8")]))
                cfg["price"] = {"db": db, "lookup": rng.choice(["txn-time", "txn-time", "last-price"])}
                cfg["report_commodity"] = "EUR"
            if klass == "distinct-audit":
                cfg["audit"] = True
                cfg["hash"] = rng.choice(["SHA-256", "SHA-512", "SHA3-256"])
            txns = common.gen_journal(rng, cfg, opts)
            if klass == "duplicates":
                # clone headers so that some transactions are indistinguishable by (instant, code, desc, uuid)
                for t in txns:
                    t["uuid"] = None
                j = rng.randrange(len(txns))
                for k in rng.sample(range(len(txns)), min(2, len(txns))):
                    for f in ("ts", "code", "desc"):
                        txns[k][f] = copy.deepcopy(txns[j][f])
            if klass == "empty-vs-absent":
                # same instant; headers differ only by an empty vs an absent code / description / uuid
                for t in txns:
                    t["uuid"] = None
                j = rng.randrange(len(txns))
                base = txns[j]
                f = rng.choice(["code", "desc"])
                for k in range(len(txns)):
                    txns[k]["ts"] = copy.deepcopy(base["ts"])
                    txns[k]["code"] = None
                    txns[k]["desc"] = None
                    txns[k]["uuid"] = None
                variants = [(None, None), ("", None), (None, ""), ("", ""), ("a", None), (None, "a"), ("a", ""), ("", "a")]
                rng.shuffle(variants)
                txns = txns[:len(variants)]
                for k, t in enumerate(txns):
                    t["code"], t["desc"] = variants[k]
            if klass == "scales":
                # F8 shape: children of one node with different scales that cancel
                t = txns[0]
                c = t["posts"][0].get("unit")
                t["posts"] = [{"acct": "s:x", "amount": "1.00", "unit": c, "comment": None},
                              {"acct": "s:y", "amount": "-1.00", "unit": c, "comment": None},
                              {"acct": "s:z", "amount": "5", "unit": c, "comment": None},
                              {"acct": "q", "amount": "-5", "unit": c, "comment": None}]
                if c and c.get("closing"):
                    for p in t["posts"]:
                        p["unit"] = {"comm": c["comm"], "opening": None, "closing": None}
                t["last"] = None
            # arrangement A: one text; arrangement B: permuted, sharded, different layout
            text_a = common.render_journal(txns, common.gen_layout(rng))
            perm = list(range(len(txns)))
            rng.shuffle(perm)
            nfiles = rng.randrange(1, len(txns) + 1)
            shards = [[] for _ in range(nfiles)]
            for idx in perm:
                shards[rng.randrange(nfiles)].append(txns[idx])
            files = []
            for k, sh in enumerate(shards):
                if not sh:
                    continue
                name = rng.choice(["f%d.txn", "sub/g%d.txn", "sub/deep/er/h%d.txn", "z/%d.txn"]) % k
                files.append({"name": name, "text": common.render_journal(sh, common.gen_layout(rng))})
            out.append({"op": "run", "kind": klass, "cfg": cfg, "txns": txns, "text": text_a, "files": files,
                        "perm": perm, "want": OUTS})
        return out

    # the implementation is run on both arrangements, several times in fresh processes
    def run_impl(self, cases):
        runs = []
        for rep in range(self.REPEATS):
            a = common.run_driver([common.TK_IMPL], [{k: v for k, v in c.items() if k not in ("txns", "files", "perm")} for c in cases])
            b = common.run_driver([common.TK_IMPL], [dict({k: v for k, v in c.items() if k not in ("txns", "text", "perm")}, walk=True) for c in cases])
            runs.append((a, b))
        return [{"r": runs[0][0][i].get("r"), "runs": [(ra[i], rb[i]) for ra, rb in runs]} for i in range(len(cases))]

    def impl_case(self, case):
        return case

    def model_case(self, case):
        c = {k: v for k, v in case.items() if k not in ("text", "files", "perm")}
        c["cfg"] = model_cfg(case.get("cfg", {}))
        c["want"] = ["txns"]
        return c

    def compare(self, case, impl, model):
        a0 = impl["runs"][0][0]
        d = cmp_status(a0, model)
        if d:
            return d
        if a0.get("r") != "OK":
            return None
        if case["kind"] == "duplicates":
            return None
        mv = model["out"]["txns"]["v"]
        for ra, rb in impl["runs"]:
            for r in (ra, rb):
                if r.get("r") != "OK":
                    return "an arrangement failed to load: %s" % r.get("r")
                if r["out"]["txns"].get("v") != mv:
                    return "loaded order differs from the model's sorted order"
        return None

    def oracle(self, case, impl):
        runs = impl["runs"]
        first = runs[0][0]
        statuses = {r.get("r") for pair in runs for r in pair}
        if statuses & {"PANIC", "ABORT", "TIMEOUT"}:
            return None
        if len(statuses) != 1:
            return {"sig": "status-differs", "what": "arrangements/runs disagree on load status: %s" % sorted(statuses)}
        if first.get("r") != "OK":
            return None
        self.remember(case)
        distinct = case["kind"] != "duplicates"
        for o in TEXT_OUTS:
            ref = first["out"][o]
            for ra, rb in runs:
                for which, r in (("one-file", ra), ("sharded", rb)):
                    cur = r["out"][o]
                    if cur.get("r") != ref.get("r"):
                        return {"sig": "output-status:" + o, "what": "%s output status differs between arrangements/runs (%s vs %s)" % (o, cur.get("r"), ref.get("r"))}
                    if ref.get("r") != "OK":
                        continue
                    if distinct:
                        if cur["v"] != ref["v"]:
                            return {"sig": "bytes:" + o, "what": "%s output is not byte-identical (%s arrangement / repeated run)" % (o, which),
                                    "a": ref["v"][:1500], "b": cur["v"][:1500]}
                    elif o in ("balance", "balgrp"):
                        if numeric_tokens(cur["v"]) != numeric_tokens(ref["v"]):
                            return {"sig": "numbers:" + o, "what": "%s figures differ as numbers for indistinguishable transactions" % o,
                                    "a": ref["v"][:1500], "b": cur["v"][:1500]}
        return None

    def nontrivial(self, case, impl):
        return len(case.get("files", [])) > 1 or case.get("perm") != sorted(case.get("perm", []))

    def sample(self, case):
        return {"kind": case.get("kind"), "one_file_text": case.get("text", "")[:800],
                "shards": [(f["name"], f["text"][:300]) for f in case.get("files", [])[:4]], "perm": case.get("perm")}

    def rule(self):
        return ("a generated set of transactions is supplied twice: as one text, and permuted + sharded over 1..n files in "
                "nested directories with another random layout (loaded through the directory walk); each arrangement is "
                "run %d times in fresh processes (fresh hash seeds); all six output texts must be byte-identical when "
                "headers are pairwise distinct, balance/balance-group figures equal as numbers otherwise; the Lean model's "
                "sorted order is compared with the loaded order of every run; non-trivial = more than one file or a "
                "non-identity permutation" % self.REPEATS)

    def trusted_base(self):
        return super().trusted_base() + [
            "modelled, not verified: std HashMap seeding (sampled by fresh processes), walkdir traversal order, "
            "the text grammar (layout variants are exercised on the implementation only until the grammar model is merged)"]

    def assumptions(self):
        return ["byte-identity is required only for transactions pairwise distinct in (instant, code, description, uuid)"]


PROP = C04()

"""C03 — register report: canonical order and exact running totals."""
import decimal
import re
from decimal import Decimal as D
from fractions import Fraction as F

import common
from propbase import PropBase, model_cfg, cmp_status

STYLES = ["full", "seconds", "date"]


def chain_exact(texts):
    """does `first, first + t2, (first + t2) + t3, ...` stay inside rust_decimal's exact domain (operands
    aligned to the larger scale, result coefficient within 96 bits)?  A zero operand returns the other one as
    stored (DESIGN.md Appendix C)."""
    acc = D(0)
    acc_scale = 0
    for t in texts:
        d = D(t)
        sc = common.dec_scale(t)
        if acc == 0:
            acc, acc_scale = d, sc
            continue
        if d == 0:
            continue
        s = max(acc_scale, sc)
        z = acc + d
        if abs(int(z.scaleb(s))) > common.MAX96:
            return False
        acc, acc_scale = z, s
    return True


def frac(s):
    return F(D(s))


def hdr_key(t):
    """`Ord for TxnHeader`: instant, code or "", description or "", uuid text or "" (strings by code points =
    UTF-8 byte order), then absent-before-present for code and for description"""
    return (int(t["ts"]["ns"]), t.get("code") or "", t.get("desc") or "", t.get("uuid") or "",
            t.get("code") is not None, t.get("desc") is not None)


def uniq(xs):
    out = []
    for x in xs:
        if x not in out:
            out.append(x)
    return out


class C03(PropBase):
    id = "C03"

    # ------------------------------------------------------------------ generation
    def gen(self, rng, tier, focus=None):
        quick = tier == "quick"
        out = []
        per = 60 if quick else 1200
        for kind in ("tie-code", "tie-desc", "tie-uuid", "tie-mixed"):
            for _ in range(per):
                out.append(self.gen_tie(rng, kind))
        for _ in range(per * 2):
            out.append(self.gen_dup_account(rng))
        for _ in range(per * 2):
            out.append(self.gen_two_comm(rng))
        for _ in range(per * 2):
            out.append(self.gen_hide(rng))
        for _ in range(per * 2):
            out.append(self.gen_priced(rng))
        for _ in range(per):
            out.append(self.gen_inexact(rng))
        for _ in range(per):
            out.append(self.gen_far_dates(rng))
        for _ in range(1 if quick else 6):
            n = rng.choice([2051, 2049, 1025, 4099])
            txns = common.gen_large_journal(rng, n)
            out.append(self.mk(rng, {}, txns, "large:%d" % n, self.pick_names(rng, txns[:20], 0.3)))
        n = 1500 if quick else 40000
        for _ in range(n):
            out.append(self.gen_random(rng))
        # displayed at a small report scale: amounts and totals are the exact figures rounded once (half away from zero);
        # the last total still agrees with the balance report, which rounds the same exact sum
        for _ in range(120 if quick else 4000):
            c = rng.choice([self.gen_random, self.gen_dup_account, self.gen_two_comm])(rng)
            mx = rng.randrange(0, 4)
            c["cfg"]["scale_min"], c["cfg"]["scale_max"] = rng.randrange(0, mx + 1), mx
            c["kind"] = "scaled:" + c["kind"]
            out.append(c)
        return out

    def mk(self, rng, cfg, txns, kind, names=None):
        cfg = dict(cfg)
        cfg.setdefault("ts_style", rng.choice(STYLES))
        if rng.random() < 0.5:
            rng.shuffle(txns)
        text = common.render_journal(txns, common.gen_layout(rng))
        case = {"op": "run", "kind": kind, "cfg": cfg, "txns": txns, "text": text}
        if names:
            case["msel_register"] = names
        return case

    def accounts_of(self, txns):
        accts = []
        for t in txns:
            for p in t["posts"]:
                accts.append(p["acct"])
            if t.get("last"):
                accts.append(t["last"]["acct"])
        return uniq(accts)

    def pick_names(self, rng, txns, p=0.6):
        if rng.random() >= p:
            return None
        accts = self.accounts_of(txns)
        k = rng.choice([1, 1, 2, 3])
        names = rng.sample(accts, min(k, len(accts)))
        if rng.random() < 0.15:
            names.append("no:such:account")
        if rng.random() < 0.1:
            # a name that is only a string prefix / parent of a posted account selects nothing more
            names.append(rng.choice(accts).split(":")[0])
        return uniq(names)

    def simple_txn(self, rng, ts, posts, code=None, desc=None, uuid=None, comm=""):
        """posts: list of (acct, amount text); balanced by the caller or by an implicit last posting"""
        unit = {"comm": comm, "opening": None, "closing": None} if comm else None
        t = {"ts": dict(ts), "code": code, "desc": desc, "uuid": uuid, "loc": None, "tags": None, "comments": None,
             "posts": [{"acct": a, "amount": v, "unit": unit, "comment": None} for a, v in posts], "last": None}
        total = sum(D(v) for _, v in posts)
        if total != 0:
            if rng.random() < 0.5:
                t["last"] = {"acct": rng.choice(["e:bal", "z", "a"]), "comment": None}
            else:
                t["posts"].append({"acct": rng.choice(["e:bal", "z", "a"]), "amount": common.fmt_dec(-total), "unit": unit,
                                   "comment": None})
        return t

    def gen_tie(self, rng, kind):
        """equal instants, headers differing only in code / description / uuid (or absent vs empty)"""
        cfg = {}
        base = common.gen_ts(rng, cfg)
        # the same instant written with different offsets
        n = rng.choice([2, 3, 4, 5])
        codes = [None, "", "a", "b", "B", "aa", "é", "#1", "x y"]
        descs = [None, "", "a", "b", "a b", "ÄÖ", "x'y", "(c) d"]
        txns = []
        fixed_uuid = common.gen_uuid(rng) if rng.random() < 0.5 else None
        for i in range(n):
            code, desc, uuid = None, None, fixed_uuid
            if kind in ("tie-code", "tie-mixed"):
                code = rng.choice(codes)
            if kind in ("tie-desc", "tie-mixed"):
                desc = rng.choice(descs)
            if kind in ("tie-uuid", "tie-mixed"):
                uuid = rng.choice([None, common.gen_uuid(rng), common.gen_uuid(rng)])
            ts = dict(base)
            if rng.random() < 0.3 and "T" in base["text"]:
                ts = self.same_instant_other_offset(rng, base)
            posts = [(rng.choice(["a", "a:b", "b", "e:x"]), common.gen_amount_text(rng)) for _ in range(rng.choice([1, 2]))]
            txns.append(self.simple_txn(rng, ts, posts, code, desc, uuid, rng.choice(["", "", "EUR"])))
        if rng.random() < 0.4:
            # and a neighbour one nanosecond / one day away
            other = common.gen_ts(rng, cfg)
            txns.append(self.simple_txn(rng, other, [("a", "1")], rng.choice(codes), rng.choice(descs), None, ""))
        return self.mk(rng, cfg, txns, kind, self.pick_names(rng, txns, 0.3))

    FAR_YEARS = [1001, 1500, 1676, 1677, 1678, 1900, 1969, 2024, 2261, 2262, 2263, 2500, 9998]

    def gen_far_dates(self, rng):
        """instants far from the present, on both sides of the range a signed 64-bit count of nanoseconds since 1970 can
        hold (1677-09-21 .. 2262-04-11), mixed with ordinary ones: the canonical order is by instant over the whole
        range of years the journal format accepts"""
        cfg = {}
        txns = []
        for _ in range(rng.choice([2, 3, 4, 5])):
            if rng.random() < 0.25:
                # around the two ends of the 64-bit nanosecond range
                text = rng.choice(["1677-09-21T00:12:43Z", "1677-09-21T00:12:44Z", "1677-09-21T00:12:43.145224191Z",
                                   "1677-09-21T00:12:43.145224193Z", "2262-04-11T23:47:16Z", "2262-04-11T23:47:17Z",
                                   "2262-04-11T23:47:16.854775807Z", "2262-04-11T23:47:16.854775808Z"])
                y, mo, d = int(text[0:4]), int(text[5:7]), int(text[8:10])
                h, mi, sec = int(text[11:13]), int(text[14:16]), int(text[17:19])
                frac = text[20:-1] if "." in text else ""
                ns = common.civil_to_ns(y, mo, d, h, mi, sec, int((frac + "000000000")[:9]) if frac else 0, 0)
                ts = {"ns": str(ns), "off": 0, "text": text}
            else:
                ts = common.gen_ts(rng, cfg, base_year=rng.choice(self.FAR_YEARS))
            txns.append(self.simple_txn(rng, ts, [(rng.choice(["a", "a:b", "b"]), common.gen_amount_text(rng))], comm=""))
        txns.append(self.simple_txn(rng, common.gen_ts(rng, cfg), [("a", "1")], comm=""))
        return self.mk(rng, cfg, txns, "far-dates", self.pick_names(rng, txns, 0.3))

    def same_instant_other_offset(self, rng, ts):
        """re-render the instant `ts` with another UTC offset (text changes, instant does not)"""
        import datetime
        off = rng.choice([0, 3600, -18000, 19800, 50400, -43200])
        ns = int(ts["ns"])
        secs, frac_ns = divmod(ns, 10 ** 9)
        dt = common.EPOCH + datetime.timedelta(seconds=secs + off)
        text = dt.strftime("%Y-%m-%dT%H:%M:%S")
        if frac_ns:
            text += "." + ("%09d" % frac_ns)
        text += common.fmt_off(off)
        return {"ns": str(ns), "off": off, "text": text}

    def gen_dup_account(self, rng):
        """the same account several times inside one transaction, interleaved with others"""
        cfg = {}
        accts = rng.sample(["a", "a:b", "a:bc", "b", "e:x", "ab", "é"], 3)
        txns = []
        for _ in range(rng.choice([1, 2, 3, 4])):
            ts = common.gen_ts(rng, cfg, cluster=(2024, 3, 5))
            k = rng.choice([3, 4, 5, 6])
            posts = [(rng.choice(accts[:2]) if rng.random() < 0.7 else accts[2], common.gen_amount_text(rng)) for _ in range(k)]
            txns.append(self.simple_txn(rng, ts, posts, comm=rng.choice(["", "EUR"])))
        return self.mk(rng, cfg, txns, "dup-account", self.pick_names(rng, txns, 0.5))

    def gen_two_comm(self, rng):
        """one account posted in two or three commodities (also inside one transaction, via a closing price)"""
        cfg = {}
        accts = rng.sample(["a", "a:b", "b", "e:x", "Assets:cash"], 2)
        comms = rng.sample(["", "EUR", "USD", "ACME"], 3)
        txns = []
        for _ in range(rng.choice([2, 3, 4, 6])):
            ts = common.gen_ts(rng, cfg, cluster=(2024, 7, 9))
            c = rng.choice(comms)
            if c and rng.random() < 0.35:
                # `acct  n OTHER @ p c` and `acct -x c`: the same account twice with different commodities
                other = rng.choice([x for x in ["EUR", "USD", "ACME"] if x != c])
                amt = common.gen_amount_text(rng).lstrip("-")
                price = rng.choice(["2", "1.25", "0.5", "120"])
                t = {"ts": ts, "code": None, "desc": None, "uuid": None, "loc": None, "tags": None, "comments": None,
                     "posts": [
                         {"acct": accts[0], "amount": amt, "unit": {"comm": other, "opening": None,
                                                                     "closing": {"k": "@", "v": price, "c": c}}, "comment": None},
                         {"acct": accts[0], "amount": common.fmt_dec(-(D(amt) * D(price))),
                          "unit": {"comm": c, "opening": None, "closing": None}, "comment": None}],
                     "last": None}
                if rng.random() < 0.5:
                    t["posts"].reverse()
                txns.append(t)
            else:
                posts = [(rng.choice(accts), common.gen_amount_text(rng)) for _ in range(rng.choice([1, 2, 3]))]
                txns.append(self.simple_txn(rng, ts, posts, comm=c))
        return self.mk(rng, cfg, txns, "two-comm", self.pick_names(rng, txns, 0.5))

    def gen_hide(self, rng):
        """a selector that hides every row of at least one entry (or of all of them)"""
        cfg = {}
        txns = common.gen_journal(rng, cfg, {"p_invalid": 0.0, "n_txns": rng.choice([2, 3, 4, 6]), "p_price": 0.1,
                                              "p_opening": 0.0, "n_accts": 4})
        per_txn = [uniq([p["acct"] for p in t["posts"]] + ([t["last"]["acct"]] if t.get("last") else [])) for t in txns]
        r = rng.random()
        if r < 0.2:
            names = ["no:such:account"]
        else:
            # accounts of one transaction that do not occur in some other one
            i = rng.randrange(len(txns))
            names = rng.sample(per_txn[i], min(len(per_txn[i]), rng.choice([1, 1, 2])))
        return self.mk(rng, cfg, txns, "hide-entry", names)

    def gen_priced(self, rng):
        cfg = {}
        txns = common.gen_journal(rng, cfg, {"p_invalid": 0.0, "p_price": 0.6, "p_opening": 0.15, "p_comm": 1.0,
                                              "comms": common.COMMS[:rng.randrange(2, 5)], "n_accts": 4})
        return self.mk(rng, cfg, txns, "priced", self.pick_names(rng, txns, 0.4))

    def gen_inexact(self, rng):
        """running totals that leave the exact domain of rust_decimal (F17) or overflow"""
        cfg = {}
        big = rng.choice(["7922816251426433759354395033.5", "792281625142643375935439503.35", "79228162514264337593543950335",
                          "7922816251426433759354395033", "1000000000000000000000000000.1"])
        small = rng.choice(["0.05", "0.15", "0.0000001", "1.5", "0.5", "0.25"])
        ts1 = common.gen_ts(rng, cfg)
        ts2 = common.gen_ts(rng, cfg)
        ts3 = common.gen_ts(rng, cfg)
        txns = [self.simple_txn(rng, ts1, [("a", big)]), self.simple_txn(rng, ts2, [("a", small)]),
                self.simple_txn(rng, ts3, [("a", rng.choice([small, common.neg_text(big), big]))])]
        return self.mk(rng, cfg, txns, "inexact", None)

    def gen_random(self, rng):
        cfg = {}
        if rng.random() < 0.3:
            cfg["tz"] = {"offset": rng.choice(["+02:00", "-05:00", "+05:30", "+00:00"])}
        if rng.random() < 0.3:
            cfg["default_time"] = rng.choice(["00:00:00", "12:00:00", "23:59:59"])
        big = rng.random() < 0.05
        opts = {"p_invalid": 0.03, "big": big, "p_price": rng.choice([0.0, 0.25, 0.5]), "p_opening": rng.choice([0.0, 0.1]),
                "comms": common.COMMS[:rng.randrange(1, 5)], "n_accts": rng.choice([2, 3, 6])}
        txns = common.gen_journal(rng, cfg, opts)
        return self.mk(rng, cfg, txns, "big" if big else "random", self.pick_names(rng, txns, 0.5))

    # ------------------------------------------------------------------ running
    def impl_case(self, case):
        """two runs of the real library: the report with the selector (plus transactions and balance report),
        and the same report without selector"""
        base = {"op": "run", "cfg": dict(case.get("cfg", {})), "text": case["text"]}
        names = case.get("msel_register")
        if "sel_register_raw" in case:
            pats = case["sel_register_raw"]
        else:
            pats = [re.escape(n) for n in names] if names else None
        sel = dict(base)
        sel["cfg"] = dict(base["cfg"])
        if pats:
            sel["cfg"]["sel_register"] = pats
        sel["want"] = ["txns", "register", "balance"]
        allr = dict(base)
        allr["want"] = ["register"]
        return {"sel": sel, "all": allr if pats else None}

    def run_impl(self, impl_cases):
        flat = []
        idx = []
        for i, c in enumerate(impl_cases):
            flat.append(c["sel"])
            idx.append((i, "sel"))
            if c["all"] is not None:
                flat.append(c["all"])
                idx.append((i, "all"))
        ans = common.run_driver([common.TK_IMPL], flat, jobs=min(4, common.NCPU))
        parts = [dict() for _ in impl_cases]
        for (i, k), a in zip(idx, ans):
            parts[i][k] = a
        out = []
        for p in parts:
            a = p["sel"]
            if a.get("r") == "OK":
                a = dict(a)
                a["out"] = dict(a["out"])
                if "all" in p:
                    b = p["all"]
                    a["out"]["register_all"] = b["out"]["register"] if b.get("r") == "OK" else {"r": "LOAD-" + str(b.get("r"))}
                else:
                    a["out"]["register_all"] = a["out"]["register"]
            out.append(a)
        return out

    def model_case(self, case):
        if case.get("cfg", {}).get("scale_max") is not None:
            return None     # display scale: C17's model; here the implementation is judged by the oracle
        c = {"op": "run", "cfg": model_cfg(case.get("cfg", {})), "txns": case["txns"],
             "want": ["txns", "register", "register_all"]}
        if case.get("msel_register"):
            c["msel_register"] = case["msel_register"]
        return c

    # ------------------------------------------------------------------ tie
    def canon_impl(self, out, style):
        """printed report -> canonical entries, or a status string"""
        if out.get("r") != "OK":
            return out.get("r")
        es = common.parse_register_report(out["v"])
        if es is None:
            return "NOTITLE"
        res = []
        for e in es:
            if e.get("garbled") is not None or e["ts"] is None:
                return "GARBLED:" + str(e.get("garbled"))[:80]
            res.append({"ns": common.register_ts_ns(e["ts"]), "code": e["code"], "desc": e["desc"], "uuid": e["uuid"],
                        "rows": [(a, common.dec_norm(v), common.dec_norm(t), c) if v != "?" else (a, v, t, c)
                                 for a, v, t, c in e["rows"]]})
        return res

    def canon_model(self, out, style):
        if out.get("r") != "OK":
            return out.get("r")
        return [{"ns": common.floor_ns(e["ns"], style), "code": e["code"], "desc": e["desc"], "uuid": e["uuid"],
                 "rows": [(a, common.dec_norm(v), common.dec_norm(t), c) for a, v, t, c in e["rows"]]} for e in out["v"]]

    def compare(self, case, impl, model):
        d = cmp_status(impl, model)
        if d:
            return d
        if impl.get("r") != "OK":
            return None
        style = case.get("cfg", {}).get("ts_style", "full")
        a = impl["out"]["txns"]
        b = model["out"]["txns"]
        if a.get("r") != "OK" or b.get("r") != "OK":
            return "txns output status impl=%s model=%s" % (a.get("r"), b.get("r"))
        if a["v"] != b["v"]:
            return "loaded transactions (or their order) differ: impl=%s model=%s" % (
                [hdr_key(t) for t in a["v"]][:8], [hdr_key(t) for t in b["v"]][:8])
        skipped = 0
        for kind in ("register", "register_all"):
            mo = self.canon_model(model["out"][kind], style)
            io = self.canon_impl(impl["out"][kind], style)
            if mo == "UNDEF":
                skipped += 1
                continue
            if isinstance(mo, str) or isinstance(io, str):
                return "%s status: impl=%s model=%s" % (kind, io if isinstance(io, str) else "OK", mo if isinstance(mo, str) else "OK")
            if len(mo) != len(io):
                return "%s: %d entries printed, model has %d" % (kind, len(io), len(mo))
            for k, (x, y) in enumerate(zip(io, mo)):
                if x != y:
                    return "%s entry %d differs: impl=%s model=%s" % (kind, k, str(x)[:500], str(y)[:500])
        if skipped == 2:
            return "skip"
        return None

    # ------------------------------------------------------------------ oracle
    def oracle(self, case, impl):
        """the property on the implementation's own outputs: order of the loaded transactions, entries against
        transactions, running totals as exact prefix sums, last totals against the balance report, the selected
        report against the unselected one"""
        if impl.get("r") != "OK":
            return None
        out = impl["out"]
        txo = out["txns"]
        if txo.get("r") != "OK":
            return {"sig": "txns-output", "what": "loaded transactions cannot be listed: %s" % txo.get("r")}
        txns = txo["v"]
        style = case.get("cfg", {}).get("ts_style", "full")
        # 1. canonical order of the loaded set: (instant, code, description, uuid), absent before empty on a full tie
        for i in range(len(txns) - 1):
            if hdr_key(txns[i]) > hdr_key(txns[i + 1]):
                return {"sig": "load-order", "what": "loaded transactions %d and %d are not in canonical order: %s > %s" % (
                    i, i + 1, hdr_key(txns[i]), hdr_key(txns[i + 1]))}
        src = sorted(hdr_key(t) for t in case.get("txns", []))
        if src and [hdr_key(t) for t in txns] != src:
            return {"sig": "load-perm", "what": "loaded headers are not the written ones in canonical order"}
        ra = out["register_all"]
        rs = out["register"]
        if ra.get("r") == "PANIC" or rs.get("r") == "PANIC":
            return None      # overflowing sums: outside the numeric domain of the property (C15 deals with panics)
        if ra.get("r") != "OK" or rs.get("r") != "OK":
            return {"sig": "register-status", "what": "register report failed: all=%s selected=%s" % (ra.get("r"), rs.get("r"))}
        ea = common.parse_register_report(ra["v"])
        es = common.parse_register_report(rs["v"])
        if ea is None or es is None:
            return {"sig": "register-parse", "what": "no REGISTER title in the report"}
        for e in ea + es:
            if e.get("garbled") is not None or any(r[1] == "?" for r in e["rows"]):
                return {"sig": "register-parse", "what": "unreadable register entry: %s" % str(e)[:300]}
        self.remember(case)
        # 2. without selector: one entry per transaction, in the loaded order, showing exactly its postings
        if len(ea) != len(txns):
            return {"sig": "entry-count", "what": "%d transactions but %d register entries without selector" % (len(txns), len(ea))}
        mx_ = case.get("cfg", {}).get("scale_max")
        if mx_ is not None:
            return self.oracle_scaled(case, out, txns, ea, mx_)
        totals = {}
        history = {}
        inexact_hit = None
        for i, (e, t) in enumerate(zip(ea, txns)):
            if (e["code"], e["desc"], e["uuid"]) != (t.get("code"), t.get("desc"), t.get("uuid")):
                return {"sig": "entry-order", "what": "entry %d shows header %s, transaction %d is %s" % (
                    i, (e["code"], e["desc"], e["uuid"]), i, (t.get("code"), t.get("desc"), t.get("uuid")))}
            if common.register_ts_ns(e["ts"]) != common.floor_ns(t["ts"]["ns"], style):
                return {"sig": "entry-order", "what": "entry %d shows time %s, transaction %d is at %s ns" % (i, e["ts"], i, t["ts"]["ns"])}
            shown = sorted((a, frac(v), c) for a, v, _, c in e["rows"])
            posted = sorted((p["acct"], frac(p["amount"]), p["comm"]) for p in t["posts"])
            if shown != posted:
                return {"sig": "entry-rows", "what": "entry %d rows %s are not the postings %s" % (i, shown, posted)}
            # 3. running totals: exact prefix sums over earlier transactions and the rows so far
            for a, v, tot, c in e["rows"]:
                k = (a, c)
                totals[k] = totals.get(k, F(0)) + frac(v)
                history.setdefault(k, []).append(v)
                if frac(tot) != totals[k]:
                    if not chain_exact(history[k]):
                        inexact_hit = inexact_hit or {"sig": "F17:inexact-arithmetic",
                                                      "what": "running total of %s %s shows %s, exact sum is %s (a partial sum is not representable, rust_decimal rounded silently)" % (a, c, tot, totals[k])}
                        # follow the implementation from here on, as the next rows build on the rounded value
                        totals[k] = frac(tot)
                        continue
                    return {"sig": "running-total", "what": "entry %d: running total of %s %s shows %s, exact sum of the postings so far is %s" % (
                        i, a, c, tot, totals[k])}
        # 4. the last running total of every (account, commodity) is the balance report's account sum
        bo = out.get("balance", {})
        if bo.get("r") == "OK" and inexact_hit is None:
            bal = common.parse_balance_report(bo["v"])
            if bal is None:
                return {"sig": "balance-parse", "what": "no BALANCE title"}
            rows, _ = bal
            own = {}
            for c, a, o, _t in rows:
                if o == "?":
                    return {"sig": "balance-parse", "what": "unreadable balance row"}
                own[(a, c)] = frac(o)
            last = {}
            for e in ea:
                for a, v, tot, c in e["rows"]:
                    last[(a, c)] = frac(tot)
            for k, v in last.items():
                if k not in own:
                    return {"sig": "balance-missing-row", "what": "account %s %s is in the register but not in the balance report" % k}
                if own[k] != v:
                    if not chain_exact(["0"] + history[k]):
                        inexact_hit = {"sig": "F17:inexact-arithmetic", "what": "balance sum of %s %s is %s, last register total %s (inexact partial sum)" % (k[0], k[1], own[k], v)}
                        break
                    return {"sig": "last-total-balance", "what": "last running total of %s %s is %s, balance report says %s" % (k[0], k[1], v, own[k])}
            for k, v in own.items():
                if k not in last and v != 0:
                    return {"sig": "balance-extra-row", "what": "balance report has %s for %s %s, which the register never lists" % (v, k[0], k[1])}
        elif bo.get("r") not in ("OK", "PANIC", None):
            return {"sig": "balance-status", "what": "balance report failed: %s" % bo.get("r")}
        # 5. the selector only hides rows and empty entries
        names = case.get("msel_register")
        if names:
            expect = []
            for e in ea:
                rows = [r for r in e["rows"] if r[0] in names]
                if rows:
                    expect.append({"ts": e["ts"], "code": e["code"], "desc": e["desc"], "uuid": e["uuid"], "rows": rows})
            got = [{"ts": e["ts"], "code": e["code"], "desc": e["desc"], "uuid": e["uuid"], "rows": e["rows"]} for e in es]
            if got != expect:
                for k, (x, y) in enumerate(zip(got, expect)):
                    if x != y:
                        return {"sig": "selector-changes-report", "what": "with selector %s entry %d is %s, the unselected report restricted to these accounts gives %s" % (
                            names, k, str(x)[:400], str(y)[:400])}
                return {"sig": "selector-changes-report", "what": "with selector %s there are %d entries, the unselected report restricted to these accounts has %d" % (
                    names, len(got), len(expect))}
        elif "sel_register_raw" not in case:
            if es != ea:
                return {"sig": "selector-changes-report", "what": "two runs without selector differ"}
        return inexact_hit

    def oracle_scaled(self, case, out, txns, ea, mx):
        """a report scale with few decimals: every shown amount is the posted amount rounded half away from zero to
        `mx` decimals, the total shown last for an account in an entry is the exact running total rounded the same way,
        and the last total of every account is what the balance report shows"""
        q = D(1).scaleb(-mx)

        def rnd(x):
            with decimal.localcontext() as ctx:
                ctx.prec = 60
                return D(x).quantize(q, rounding=decimal.ROUND_HALF_UP)
        totals, last, hist = {}, {}, {}
        for i, (e, t) in enumerate(zip(ea, txns)):
            shown = sorted((a, D(v), c) for a, v, _, c in e["rows"])
            posted = sorted((p["acct"], rnd(D(p["amount"])), p["comm"]) for p in t["posts"])
            if [(a, v.normalize() if v else v, c) for a, v, c in shown] != [(a, v.normalize() if v else v, c) for a, v, c in posted]:
                return {"sig": "scaled-entry-rows", "what": "entry %d at scale max %d shows %s, the postings rounded half away from zero are %s" % (i, mx, shown, posted)}
            for p in t["posts"]:
                k = (p["acct"], p["comm"])
                hist.setdefault(k, []).append(p["amount"])
                if not chain_exact(hist[k]):
                    return None     # a partial sum is not representable: outside the numeric domain (F17)
                with decimal.localcontext() as ctx:
                    ctx.prec = 60
                    totals[k] = totals.get(k, D(0)) + D(p["amount"])
            fin = {}
            for a, v, tot, c in e["rows"]:
                fin[(a, c)] = tot
            for k, tot in fin.items():
                last[k] = tot
                if D(tot) != rnd(totals[k]):
                    return {"sig": "scaled-running-total", "what": "entry %d: total of %s %s shows %s, the exact running total %s rounds to %s at %d decimals" % (
                        i, k[0], k[1], tot, totals[k], rnd(totals[k]), mx)}
        bo = out.get("balance", {})
        if bo.get("r") == "OK":
            bal = common.parse_balance_report(bo["v"])
            if bal is not None:
                own = {(a, c): o for c, a, o, _t in bal[0]}
                for k, v in last.items():
                    if k in own and own[k] != "?" and D(own[k]) != D(v):
                        return {"sig": "last-total-balance", "what": "last running total of %s %s is shown as %s, the balance report shows %s" % (k[0], k[1], v, own[k])}
        return None

    def nontrivial(self, case, impl):
        if impl.get("r") != "OK":
            return False
        ts = case.get("txns", [])
        if len(ts) >= 2:
            return True
        for t in ts:
            accts = [p["acct"] for p in t["posts"]]
            if len(set(accts)) < len(accts):
                return True
        return bool(case.get("msel_register"))

    def rule(self):
        return ("journal ASTs from gen/common.py rendered with a random layout and in random input order, report zone UTC, "
                "timestamp style full|seconds|date, optional account selector of 1-3 exact account names (re.escape'd for the "
                "implementation; also names that match nothing or only a parent); boundary classes: equal instants with headers "
                "differing only in code / description / uuid (absent vs empty vs text, the same instant written with different "
                "offsets), the same account several times in one transaction, one account in 2-3 commodities (also inside one "
                "transaction through a closing price), selectors hiding every row of an entry or of the report, closing prices, "
                "running totals leaving rust_decimal's exact domain; non-trivial = loads, and has >= 2 transactions or a repeated "
                "account or a selector; distinct = sha256 of the implementation case")

    def trusted_base(self):
        return super().trusted_base() + [
            "row parser of the register / balance text reports (gen/common.py parse_register_report, parse_balance_report)",
            "modelled, not verified: rust_decimal addition outside the exact domain (model answers UNDEF, case skipped); "
            "account selectors are exact names (the regex engine is not modelled here, C11); timestamp text is compared as "
            "the instant it denotes at the style's granularity (formatting is C16's); price conversion is off (C07)"]

    def assumptions(self):
        return ["posting amounts have scale <= 28 (representation invariant of rust_decimal::Decimal, TxnsWF)",
                "numeric domain of the property: every running total is exactly representable (the model answers UNDEF otherwise; "
                "DESIGN.md F17, known finding)",
                "account names contain no ':' inside a component, so equal name strings mean equal component lists"]


PROP = C03()

"""C13 — the balance-group report partitions the transactions by period in the report time zone.

Tie: op `run` with `want: ["txns", "balgrp", "balance"]`.  The implementation prints the balance-group report
(`BalanceGroupReporter::write_txt_report`, scale min 0 / max 28, so every figure is printed as stored); the Lean
model answers the ordered list of printed groups `(title, rows, deltas)` of `Tackler.balanceGroups`
(Model/Group.lean).  The report zone is given to the implementation as an IANA name (`report-timezone`) and to the
model as data: a fixed offset for `UTC` / `Etc/GMT±N`, else the zone's transition table around the case's instants,
exported from jiff by the harness op `tzdata` (as C16 does).  Titles, rows and deltas are compared in order, text-exact.

Oracle (independent of the model): regroup the implementation's own list of accepted transactions in python —
period text of every instant at the offset `zoneinfo` gives for the report zone — and check on the printed report:
titles strictly ascending (as periods and as strings) and unique; the printed groups are exactly the periods that have
a listed row; every group's rows / own sums / tree sums / deltas are the exact (`fractions.Fraction`) figures of its
members (the row check is C02's); every transaction therefore counts in exactly one group; and for every account the
own sums over all groups add up to the own sum of the overall balance report.
"""
import os
import struct
import zoneinfo
from fractions import Fraction as F

import common
import c02
import c16
from propbase import PropBase, model_cfg, cmp_status

NS = c16.NS
DAY = 86400
MAX_NS = c16.MAX_NS
JOBS = min(4, common.NCPU)

GROUP_BYS = ["year", "month", "date", "iso-week", "iso-week-date"]
DISPLAY_KEY = {"year": "year", "month": "month", "date": "date", "iso-week": "week", "iso-week-date": "week_date"}

# report zones with a fixed offset (model: `{"off": seconds}`); POSIX sign convention in the names
FIXED = {"UTC": 0, "Etc/GMT-14": 50400, "Etc/GMT+12": -43200, "Etc/GMT-2": 7200, "Etc/GMT+5": -18000,
         "Etc/GMT-13": 46800, "Etc/GMT+11": -39600, "Etc/GMT-1": 3600, "Etc/GMT+1": -3600, "Etc/GMT-9": 32400}
EXTREME = ["Etc/GMT-14", "Etc/GMT+12", "Pacific/Kiritimati", "Etc/GMT-13", "Etc/GMT+11", "Pacific/Apia",
           "Pacific/Chatham", "Pacific/Niue"]
# named zones (model: transition table): DST zones of both hemispheres, half-hour / 45-minute offsets, a half-hour
# DST (Lord_Howe), a date-line jump (Apia, Kiritimati)
NAMED = ["Europe/Helsinki", "America/New_York", "America/St_Johns", "Australia/Lord_Howe", "Pacific/Kiritimati",
         "Pacific/Apia", "Asia/Kolkata", "Asia/Kathmandu", "Pacific/Marquesas", "America/Goose_Bay",
         "America/Santiago", "Africa/Cairo", "Europe/Dublin", "Pacific/Chatham", "America/Sao_Paulo", "Asia/Tehran"]
# zones with a fall-back across midnight (the wall clock goes back to the previous day): always in the pool; every run
# adds more of them from a scan of the tz database (`backward_transitions`)
FALLBACK_CORE = ["America/Goose_Bay", "America/St_Johns", "America/Santiago", "America/Sao_Paulo", "Africa/Cairo",
                 "America/Asuncion", "America/Moncton", "America/Scoresbysund", "Asia/Tehran", "America/Havana"]

ACCTS = ["a:cash", "a:bank:x", "a:bank:y", "e:food", "e:rent", "e:travel:air", "i:salary", "x", "l:card"]
COMMS = ["", "", "EUR", "USD"]
AMOUNTS = ["1", "2", "3.50", "10", "0.25", "7.00", "12.345", "100", "-4", "-0.5", "1.10", "20.0"]


# ---------------------------------------------------------------------------------------------
# the tz database read directly (TZif files), independent of jiff and of zoneinfo's lookup: transitions that move the
# local date backwards

def tzif_transitions(name):
    """[(instant secs, offset before, offset after)] of a zone's TZif file (64-bit block), or None"""
    for base in zoneinfo.TZPATH:
        p = os.path.join(base, name)
        if os.path.isfile(p):
            break
    else:
        return None
    try:
        b = open(p, "rb").read()
        if b[:4] != b"TZif" or b[4:5] < b"2":
            return None
        _, _, isutc, isstd, leap, timecnt, typecnt, charcnt = struct.unpack(">4s c 15x 6l", b[:44])
        o = 44 + timecnt * 5 + typecnt * 6 + charcnt + leap * 8 + isstd + isutc
        _, _, isutc, isstd, leap, timecnt, typecnt, charcnt = struct.unpack(">4s c 15x 6l", b[o:o + 44])
        o += 44
        times = struct.unpack(">%dq" % timecnt, b[o:o + 8 * timecnt])
        o += 8 * timecnt
        idx = b[o:o + timecnt]
        o += timecnt
        types = [struct.unpack(">lBB", b[o + 6 * i:o + 6 * i + 6]) for i in range(typecnt)]
    except (OSError, struct.error, IndexError):
        return None
    out = []
    prev = types[0][0] if types else 0
    for t, i in zip(times, idx):
        off = types[i][0]
        out.append((t, prev, off))
        prev = off
    return out


_BACKWARD = None


def backward_transitions():
    """{zone: [(instant secs, offset before, offset after)]}: transitions between 1900 and 2037 at which the local
    date goes back (the last wall-clock second before the transition is on a later day than the first one after it)"""
    global _BACKWARD
    if _BACKWARD is None:
        _BACKWARD = {}
        lo, hi = c16.days_civil(1900, 1, 1) * DAY, c16.days_civil(2037, 1, 1) * DAY
        for z in sorted(zoneinfo.available_timezones()):
            if z.startswith(("posix/", "right/")) or "/" not in z:
                continue
            for (t, prev, off) in tzif_transitions(z) or []:
                if lo < t < hi and off < prev and (t + off) // DAY < (t - 1 + prev) // DAY:
                    _BACKWARD.setdefault(z, []).append((t, prev, off))
    return _BACKWARD


# ---------------------------------------------------------------------------------------------
# canonicaliser of the report text

def parse_balgrp_report(text, title="BALANCE GROUP"):
    return common.parse_balgrp_report(text, title)


def group_body_as_balance(g):
    """the block of one group re-labelled as a balance report text (same layout after the title line)"""
    return "BALANCE\n-------\n" + "\n".join(g["lines"]) + "\n"


# ---------------------------------------------------------------------------------------------
# period arithmetic of the oracle (python datetime / zoneinfo; shares nothing with the Lean model)

def zone_offset(zone, ns):
    if zone in FIXED:
        return FIXED[zone]
    return c16.zone_offset_at(zone, ns // NS)


def period_key(ns, off, group_by):
    return c16.display(ns, off)[DISPLAY_KEY[group_by]]


def title_tuple(title):
    """a title as a tuple of integers (period order); None when it is not a period text"""
    try:
        parts = title.replace("W", "").split("-")
        if title.startswith("-"):
            return None
        return tuple(int(x) for x in parts)
    except ValueError:
        return None


def local_to_instants(zone, local_secs):
    """instants (secs) whose wall clock in `zone` shows `local_secs`; in a gap: the instant of the transition side"""
    out = set()
    for probe in (local_secs - DAY, local_secs, local_secs + DAY):
        o = zone_offset(zone, probe * NS)
        if o is None:
            continue
        t = local_secs - o
        if zone_offset(zone, t * NS) == o:
            out.add(t)
    if not out:
        o = zone_offset(zone, (local_secs - DAY) * NS)
        if o is not None:
            out.add(local_secs - o)
    return sorted(out)


# ---------------------------------------------------------------------------------------------
# generator

def in_range(ns):
    """journal timestamps of the property's domain: years 1000-9999 (as written in UTC)"""
    return c16.days_civil(1000, 1, 1) * DAY * NS <= ns <= MAX_NS


def mk_ts(rng, ns, zone=None):
    """journal timestamp dict for an instant, written with a random offset (year kept within 1000..9999)"""
    secs, sub = divmod(ns, NS)
    for _ in range(6):
        off = rng.choice([0, 0, 0, 3600, 7200, -18000, 19800, -34200, 50400, -43200, 20700])
        y = c16.civil_of(secs + off)[0]
        if 1000 <= y <= 9999:
            t = c16.render_instant(rng, secs, sub, off)
            if t is not None:
                return {"ns": str(ns), "off": off, "text": t}
    t = c16.render_instant(rng, secs, sub, 0)
    return {"ns": str(ns), "off": 0, "text": t}


def mk_txn(rng, ns, i, accts=None, comm=None):
    accts = accts or ACCTS
    comm = rng.choice(COMMS) if comm is None else comm
    unit = {"comm": comm, "opening": None, "closing": None} if comm else None
    k = rng.choice([1, 1, 2, 3])
    legs = [(rng.choice(accts), rng.choice(AMOUNTS)) for _ in range(k)]
    posts = [{"acct": a, "amount": amt, "unit": unit, "comment": None} for a, amt in legs]
    total = sum((common.D(amt) for _, amt in legs), common.D(0))
    last = None
    closer = rng.choice(accts)
    if total != 0:
        if rng.random() < 0.5:
            last = {"acct": closer, "comment": None}
        else:
            posts.append({"acct": closer, "amount": common.fmt_dec(-total), "unit": unit, "comment": None})
    return {"ts": mk_ts(rng, ns), "code": None, "desc": "t%d" % i, "uuid": None, "loc": None, "tags": None,
            "comments": None, "posts": posts, "last": last}


def around(rng, b_ns, wide=False):
    """instants clustered around a boundary instant"""
    ds = [-1, 0, 1]
    ds += rng.sample([-NS, NS, -2, 2, -DAY * NS, DAY * NS, -3600 * NS, 3600 * NS, -7 * DAY * NS, 7 * DAY * NS,
                      -DAY * NS - 1, DAY * NS + 1, 500000000, -500000000], rng.randrange(0, 4))
    if wide:
        ds += [rng.randrange(-40, 40) * DAY * NS + rng.randrange(DAY * NS) for _ in range(rng.randrange(1, 4))]
    return [b_ns + d for d in ds]


def rand_zone(rng):
    r = rng.random()
    if r < 0.35:
        return rng.choice(list(FIXED))
    return rng.choice(NAMED)


def rand_year(rng):
    r = rng.random()
    if r < 0.5:
        return rng.choice([2009, 2010, 2015, 2016, 2020, 2021, 2023, 2024, 2025, 2026, 2027])
    if r < 0.7:
        return rng.randrange(1971, 2037)
    if r < 0.8:
        return rng.choice([1000, 1001, 9998, 9999, 1582, 1900, 2000, 2100, 2400])
    return rng.randrange(1000, 9999)


def local_boundary(rng, what, y=None):
    """wall-clock seconds (as if UTC) of the start of a local year / month / day / ISO week"""
    y = y or rand_year(rng)
    if what == "year":
        return c16.days_civil(y, 1, 1) * DAY
    if what == "month":
        return c16.days_civil(y, rng.randrange(1, 13), 1) * DAY
    d = c16.days_civil(y, rng.randrange(1, 13), rng.randrange(1, 29))
    if what == "week":
        d -= (d + 3) % 7          # the Monday on or before (1970-01-01 was a Thursday)
    return d * DAY


class C13(PropBase):
    id = "C13"

    def __init__(self):
        super().__init__()
        self._tables = {}

    # ---- cases
    def mk(self, rng, kind, zone, group_by, instants, sel_mode=None, accts=None, shuffle=True):
        instants = [ns for ns in instants if in_range(ns)]
        if zone not in FIXED:
            # F22 (jiff looks a pre-1970 instant with a fraction up at the next whole second): keep named zones clear
            # of it, the oracle classifies what is left
            instants = [ns - ns % NS if ns < 0 else ns for ns in instants]
        if not instants:
            instants = [c16.days_civil(2024, 1, 1) * DAY * NS]
        txns = [mk_txn(rng, ns, i, accts) for i, ns in enumerate(instants)]
        if shuffle:
            rng.shuffle(txns)
        cfg = {"report_tz": zone, "group_by": group_by}
        case = {"op": "run", "kind": kind, "cfg": cfg, "txns": txns, "want": ["txns", "balgrp", "balance"],
                "mgroup_by": group_by, "zone": zone,
                "text": common.render_journal(txns, common.gen_layout(rng))}
        if sel_mode:
            names = c02.all_row_names(txns)
            if sel_mode == "one":
                # the accounts of one transaction only: the other periods are (mostly) emptied
                t = rng.choice(txns)
                sel = sorted({p["acct"] for p in t["posts"][:1]})
            elif sel_mode == "none":
                sel = ["zz:nothing"]
            else:
                sel = rng.sample(names, rng.randrange(1, max(2, len(names) // 2 + 1)))
            sel = sorted(set(sel))
            cfg["sel_balgrp"] = [c02.rx_escape(s) for s in sel]
            case["msel_balgrp"] = sel
            case["kind"] = kind + "+sel"
        return case

    def b_period(self, rng, what, group_by=None, zone=None):
        zone = zone or rand_zone(rng)
        group_by = group_by or rng.choice(GROUP_BYS)
        loc = local_boundary(rng, what)
        ts = local_to_instants(zone, loc) or [loc]
        b = rng.choice(ts) * NS
        return self.mk(rng, what + "-boundary", zone, group_by, around(rng, b, wide=rng.random() < 0.3),
                       sel_mode=rng.choice([None, None, None, "some"]))

    def b_iso_newyear(self, rng):
        y = rng.choice([2009, 2010, 2015, 2016, 2020, 2021, 2024, 2025, 2026, 2027, 2032, 1000, 9998, 1999, 2000,
                        rng.randrange(1001, 9998)])
        zone = rand_zone(rng)
        days = []
        for (yy, m, d) in [(y, 12, 28), (y, 12, 29), (y, 12, 30), (y, 12, 31), (y + 1, 1, 1), (y + 1, 1, 2), (y + 1, 1, 3),
                           (y + 1, 1, 4), (y + 1, 1, 5)]:
            if yy <= 9999:
                days.append(c16.days_civil(yy, m, d))
        inst = []
        for d in rng.sample(days, min(len(days), rng.randrange(3, 7))):
            for t in local_to_instants(zone, d * DAY + rng.choice([0, 0, 1, 43200, 86399])):
                inst.append(t * NS + rng.choice([0, 0, -1, 1, 999999999]))
        return self.mk(rng, "iso-newyear", zone, rng.choice(["iso-week", "iso-week", "iso-week-date", "year", "month"]),
                       inst)

    def b_extreme(self, rng):
        zone = rng.choice(EXTREME)
        what = rng.choice(["day", "day", "month", "year", "week"])
        loc = local_boundary(rng, what, y=rng.choice([2024, 2011, 1994, 2025, 1000, 9999, rand_year(rng)]))
        ts = local_to_instants(zone, loc) or [loc]
        return self.mk(rng, "extreme-offset", zone, rng.choice(GROUP_BYS), around(rng, rng.choice(ts) * NS))

    def b_fallback(self, rng, zone=None, which=None):
        """a zone whose clock goes back over midnight: instants on both sides of the transition, so that the local date
        (and with it week-date, and at month / year ends the month, the ISO week …) comes twice"""
        bw = backward_transitions()
        if zone is None:
            pool = [z for z in FALLBACK_CORE if z in bw]
            more = sorted(z for z in bw if len(bw[z]) >= 3)
            zone = rng.choice(pool) if (rng.random() < 0.6 or not more) else rng.choice(more)
        trs = bw.get(zone) or []
        if not trs:
            return self.b_period(rng, "day", zone=zone)
        t, prev, off = trs[which] if which is not None else rng.choice(trs[-12:] if rng.random() < 0.7 else trs)
        w = prev - off
        # before: the last w seconds on the later local day; after: the replayed w seconds; then the later day again
        inst = [t * NS - 1, (t - rng.randrange(1, max(2, min(w, 3600)))) * NS, t * NS, (t + rng.randrange(0, w)) * NS,
                (t + w) * NS + rng.choice([0, 1, 30 * NS]), (t + w + rng.randrange(1, 7200)) * NS]
        # the local midnight that is passed twice
        mid = ((t + prev) // DAY) * DAY
        for x in (mid - prev, mid - off):
            inst += [x * NS - 1, x * NS]
        inst = rng.sample(inst, rng.randrange(3, len(inst) + 1))
        gb = rng.choice(["date", "date", "iso-week-date", "iso-week-date", "iso-week", "month", "year"])
        return self.mk(rng, "fallback-midnight", zone, gb, inst, sel_mode=rng.choice([None, None, None, "some"]))

    def b_selector(self, rng):
        zone = rand_zone(rng)
        gb = rng.choice(GROUP_BYS)
        y = rand_year(rng)
        base = c16.days_civil(y, rng.randrange(1, 13), rng.randrange(1, 29)) * DAY
        step = {"year": 200 * DAY, "month": 20 * DAY, "date": 43200, "iso-week": 4 * DAY, "iso-week-date": 43200}[gb]
        inst = [(base + i * step + rng.randrange(step)) * NS for i in range(rng.randrange(3, 7))]
        return self.mk(rng, "selector-empties", zone, gb, inst, sel_mode=rng.choice(["one", "one", "some", "none"]))

    def b_years(self, rng):
        zone = rand_zone(rng)
        gb = rng.choice(GROUP_BYS)
        if rng.random() < 0.5:
            b = c16.days_civil(1000, 1, 1) * DAY * NS
            inst = [b, b + 1, b + rng.randrange(3 * DAY) * NS, b + 366 * DAY * NS, b + 12 * 3600 * NS, b + 15 * 3600 * NS]
        else:
            inst = [MAX_NS, MAX_NS - 1, MAX_NS - rng.randrange(3 * DAY) * NS, MAX_NS - 366 * DAY * NS,
                    MAX_NS - 22 * 3600 * NS - 999999999, MAX_NS - 14 * 3600 * NS]
        return self.mk(rng, "year-range", zone, gb, inst)

    def b_random(self, rng):
        zone = rand_zone(rng)
        gb = rng.choice(GROUP_BYS)
        y = rand_year(rng)
        span = rng.choice([2, 10, 40, 400, 1200]) * DAY
        base = c16.days_civil(y, rng.randrange(1, 13), rng.randrange(1, 29)) * DAY
        inst = [(base + rng.randrange(span)) * NS + rng.choice([0, 0, rng.randrange(NS)]) for _ in range(rng.randrange(1, 9))]
        accts = rng.sample(ACCTS, rng.randrange(2, len(ACCTS) + 1))
        return self.mk(rng, "random", zone, gb, inst, sel_mode=rng.choice([None, None, "some"]), accts=accts)

    def gen(self, rng, tier, focus=None):
        q = tier == "quick"
        mult = 1 if q else 50
        out = []
        # the witness of F12 on every group-by setting (fixed list, every run)
        for gb in GROUP_BYS:
            t = 1289098860            # 2010-11-07T03:01:00Z: America/Goose_Bay goes from 00:01 back to 23:01
            out.append(self.mk(rng, "fallback-midnight", "America/Goose_Bay", gb,
                               [(t - 30) * NS, (t + 1740) * NS, (t + 5340) * NS], shuffle=False))
        for what in ("year", "month", "day", "week"):
            for gb in GROUP_BYS:
                for _ in range(15 * mult):
                    out.append(self.b_period(rng, what, gb))
        for _ in range(150 * mult):
            out.append(self.b_iso_newyear(rng))
        for _ in range(120 * mult):
            out.append(self.b_extreme(rng))
        for _ in range(300 * mult):
            out.append(self.b_fallback(rng))
        for _ in range(150 * mult):
            out.append(self.b_selector(rng))
        for _ in range(80 * mult):
            out.append(self.b_years(rng))
        for _ in range(600 * mult):
            out.append(self.b_random(rng))
        # a large journal (thousands of transactions over months, a count off any block size): every transaction in exactly
        # one group whatever the size
        for _ in range(1 if q else 5):
            n = rng.choice([2051, 2049, 1025, 4099])
            base = c16.days_civil(2024, 1, 1) * DAY * NS
            out.append(self.mk(rng, "large:%d" % n, rng.choice(["UTC", "Europe/Helsinki", "Asia/Tokyo"]), rng.choice(GROUP_BYS),
                               [base + i * 3601 * NS for i in range(n)]))
        if not q:
            # every backward transition of the core zones
            bw = backward_transitions()
            for z in FALLBACK_CORE:
                for i in range(len(bw.get(z, []))):
                    out.append(self.b_fallback(rng, zone=z, which=i))
        self.attach_tables(out)
        return out

    # ---- zone data for the model (exported from jiff through the harness, as C16 does)
    def attach_tables(self, cases):
        need = []
        for c in cases:
            z = c["zone"]
            if z in FIXED:
                c["mreport_tz"] = {"off": FIXED[z]}
                continue
            nss = [int(t["ts"]["ns"]) for t in c["txns"]]
            lo = max(min(nss) - 3 * DAY * NS, c16.MIN_NS + DAY * NS)
            hi = min(max(nss) + 3 * DAY * NS, MAX_NS)
            lo -= lo % (DAY * NS)
            key = (z, lo, hi)
            c["_tkey"] = key
            if key not in self._tables:
                need.append(key)
        need = sorted(set(need))
        if need:
            ans = common.run_driver([common.TK_IMPL], [{"op": "tzdata", "zone": z, "lo": str(lo), "hi": str(hi)}
                                                         for (z, lo, hi) in need], jobs=JOBS)
            for key, a in zip(need, ans):
                if a.get("r") != "OK":
                    raise RuntimeError("tzdata %s: %s" % (key, a))
                v = a["v"]
                # transitions are at whole seconds and the lookup truncates to the second: the table is valid up to
                # the last nanosecond of the second `hi`
                self._tables[key] = {"lo": v["lo"], "hi": str(int(v["hi"]) + NS - 1), "init": v["init"], "trans": v["trans"]}
        for c in cases:
            k = c.pop("_tkey", None)
            if k is not None:
                c["mreport_tz"] = {"table": self._tables[k]}

    # ---- protocol plumbing
    def impl_case(self, case):
        return {k: v for k, v in case.items() if k not in ("txns", "msel_balgrp", "mreport_tz", "mgroup_by", "zone", "kind")}

    def model_case(self, case):
        if "mreport_tz" not in case:
            self.attach_tables([case])
        c = {"op": "run", "cfg": model_cfg(case.get("cfg", {})), "txns": case["txns"], "want": ["balgrp"],
             "mgroup_by": case["mgroup_by"], "mreport_tz": case["mreport_tz"]}
        if case.get("msel_balgrp"):
            c["msel_balgrp"] = case["msel_balgrp"]
        return c

    def rerender(self, case):
        case["text"] = common.render_journal(case["txns"], case.get("layout"))
        case.pop("mreport_tz", None)
        return case

    # ---- tie
    def compare(self, case, impl, model):
        d = cmp_status(impl, model)
        if d:
            return d
        if impl.get("r") != "OK":
            return None
        a = impl["out"]["balgrp"]
        b = model["out"]["balgrp"]
        if b.get("r") == "UNDEF":
            return "skip"
        ar = "ERR" if a.get("r") == "PANIC" else a.get("r")     # `expect` inside balance_groups: the model says ERR
        if ar != b.get("r"):
            return "balgrp status differs: impl=%s model=%s (%s)" % (a.get("r"), b.get("r"), str(a.get("msg"))[:200])
        if ar != "OK":
            return None
        groups = parse_balgrp_report(a["v"])
        if groups is None:
            return "balance-group report without title: %r" % a["v"][:300]
        mg = b["v"]
        if [g["title"] for g in groups] != [g["title"] for g in mg]:
            return "group titles differ: impl=%s model=%s" % ([g["title"] for g in groups], [g["title"] for g in mg])
        for g, m in zip(groups, mg):
            rows = [tuple(r) for r in g["rows"]]
            mrows = [tuple(r) for r in m["rows"]]
            if rows != mrows:
                for i, (x, y) in enumerate(zip(rows, mrows)):
                    if x != y:
                        return "group %s row %d differs: impl=%s model=%s" % (g["title"], i, x, y)
                return "group %s: number of rows differs: impl=%d model=%d" % (g["title"], len(rows), len(mrows))
            if [tuple(x) for x in g["deltas"]] != [tuple(x) for x in m["deltas"]]:
                return "group %s deltas differ: impl=%s model=%s" % (g["title"], g["deltas"], m["deltas"])
        return None

    # ---- oracle
    def oracle(self, case, impl):
        if impl.get("r") != "OK":
            return {"sig": "load-failed", "what": "a generated valid journal does not load: %s %s" % (impl.get("r"), str(impl.get("msg"))[:200])}
        txns = impl["out"].get("txns", {})
        grp = impl["out"].get("balgrp", {})
        bal = impl["out"].get("balance", {})
        if txns.get("r") != "OK":
            return {"sig": "txns-output", "what": "accepted set cannot be listed: %s" % txns.get("r")}
        if grp.get("r") == "PANIC":
            return {"sig": "balgrp-panic", "what": "balance-group report panics: %s" % str(grp.get("msg"))[:200]}
        if grp.get("r") != "OK":
            return {"sig": "balgrp-error", "what": "no balance-group report for an accepted journal: %s" % str(grp.get("msg"))[:200]}
        self.remember(case)
        zone, gb = case["zone"], case["mgroup_by"]
        sel = case.get("msel_balgrp")
        sel = set(sel) if sel else None
        groups = parse_balgrp_report(grp["v"])
        if groups is None:
            return {"sig": "no-report", "what": "balance-group report text without title"}
        titles = [g["title"] for g in groups]
        # 1. each period once, ascending (as periods, and as the strings that are printed)
        if len(set(titles)) != len(titles):
            dup = sorted({t for t in titles if titles.count(t) > 1})
            return {"sig": "title-twice", "what": "period printed more than once: %s (titles %s, zone %s)" % (dup, titles, zone)}
        tups = [title_tuple(t) for t in titles]
        if None in tups:
            return {"sig": "title-text", "what": "title is not a period text: %s" % titles}
        if any(not (x < y) for x, y in zip(tups, tups[1:])) or any(not (x < y) for x, y in zip(titles, titles[1:])):
            return {"sig": "title-order", "what": "titles not in ascending order: %s" % titles}
        # 2. regroup the accepted transactions independently
        exp = {}
        quirk = False
        for t in txns["v"]:
            ns = int(t["ts"]["ns"])
            off = zone_offset(zone, ns)
            if off is None:
                return None          # python cannot represent the instant in that zone
            if zone not in FIXED and ns < 0 and ns % NS and c16.zone_offset_at(zone, ns // NS + 1) != off:
                quirk = True
            exp.setdefault(period_key(ns, off, gb), []).append(t)
        listed = {}
        for k, members in exp.items():
            posts = [(p["comm"], p["acct"], p["amount"]) for t in members for p in t["posts"]]
            keys = {(c, a) for c, a, _ in posts}
            for (c, a) in list(keys):
                for x in c02.ancestors(a):
                    keys.add((c, x))
            if any(sel is None or a in sel for _, a in keys):
                listed[k] = posts
        f = self.check_groups(groups, titles, listed, exp, sel, case)
        if f and quirk:
            return {"sig": "F22:jiff-subsecond-offset", "what": "%s (an instant with a fraction in the last second before a "
                    "pre-1970 transition: jiff looks it up at the next whole second)" % f["what"]}
        if f:
            return f
        # 5. per account: own sums over all groups = own sum of the overall balance report
        if bal.get("r") != "OK":
            return {"sig": "balance-error", "what": "no balance report for an accepted journal: %s" % bal.get("r")}
        parsed = common.parse_balance_report(bal["v"])
        if parsed is None:
            return {"sig": "no-report", "what": "balance report text without title"}
        total = {}
        for g in groups:
            for (c, a, o, _) in g["rows"]:
                total[(c, a)] = total.get((c, a), F(0)) + F(o)
        for (c, a, o, _) in parsed[0]:
            if sel is not None and a not in sel:
                continue
            if (c, a) not in total:
                return {"sig": "group-total", "what": "account %s of the balance report is in no group" % ((c, a),)}
            if total[(c, a)] != F(o):
                return {"sig": "group-total", "what": "own sums of %s over the groups add to %s, the balance report says %s"
                        % ((c, a), total[(c, a)], o)}
        for k in total:
            if k not in {(c, a) for (c, a, _, _) in parsed[0]}:
                return {"sig": "group-total", "what": "account %s is in a group but not in the balance report" % (k,)}
        return None

    def check_groups(self, groups, titles, listed, exp, sel, case):
        # 3. the printed groups are exactly the periods with a listed row (empty groups dropped, nothing else dropped)
        if sorted(titles) != sorted(listed):
            missing = sorted(set(listed) - set(titles))
            extra = sorted(set(titles) - set(listed))
            emptied = [t for t in extra if t in exp]
            if emptied and not missing and len(emptied) == len(extra):
                return {"sig": "empty-group-printed", "what": "groups without a listed row are printed: %s" % emptied}
            return {"sig": "group-set", "what": "printed periods %s, periods of the transactions in zone %s: %s (missing %s, extra %s)"
                    % (titles, case["zone"], sorted(listed), missing, extra)}
        # 4. every group's figures are the balance report of its members
        for g in groups:
            if not g["rows"]:
                return {"sig": "empty-group-printed", "what": "group %s is printed without rows" % g["title"]}
            f = c02.PROP.check_report(listed[g["title"]], sel, group_body_as_balance(g), {"no_price": True})
            if f:
                return {"sig": "group-" + f["sig"], "what": "group %s: %s" % (g["title"], f["what"])}
        return None

    def nontrivial(self, case, impl):
        if impl.get("r") != "OK" or impl["out"].get("balgrp", {}).get("r") != "OK":
            return False
        groups = parse_balgrp_report(impl["out"]["balgrp"]["v"]) or []
        return len(groups) >= 2 or case["kind"].startswith(("fallback", "selector"))

    def rule(self):
        return ("journals of 1-12 transactions whose instants are clustered (-1 ns, 0, +1 ns, +-1 s, +-1 day ...) around "
                "the start of a local year / month / day / ISO week *in the report zone*, around new year for ISO weeks "
                "52/53/01, in zones at +14:00 / -12:00 / +13:45, on both sides of every kind of fall-back across midnight "
                "(America/Goose_Bay 2010-11-07 on all five group-by settings in every run, the core list of such zones, "
                "and further zones found by scanning the TZif files of the tz database for transitions that move the local "
                "date backwards), at the ends of the year range 1000..9999, with account selectors that empty some or all "
                "groups, plus random journals over 2 days .. 3 years; all five group-by settings; report zones: UTC, "
                "Etc/GMT+-N (model: fixed offset) and 16+ named zones (model: transition table exported from jiff); "
                "non-trivial = at least two groups printed, or a fall-back / selector case; distinct = sha256 of the "
                "implementation case line")

    def trusted_base(self):
        return super().trusted_base() + [
            "modelled as data, not verified: the tz database (transition tables exported from jiff by harness op tzdata "
            "for the window of each case; the oracle uses python's zoneinfo and its own TZif reader instead); jiff's "
            "offset lookup by truncated second (F22) is part of Time.offsetAt",
            "price conversion is off (report commodity unset), so a group's kernel input is its members' posting stream; "
            "the account selector of the tie is an exact-name selector (regex semantics are C11's); rust_decimal `+` "
            "outside the exact domain is UNDEF in the model (F17), the generator uses small amounts"]

    def assumptions(self):
        return ["journal timestamps in years 1000-9999 (the property's domain; there the printed period texts order as the "
                "periods do); the theorems hold for every instant and every zone table, with the title order stated as "
                "string order",
                "posting amounts have scale <= 28 and account names determine account paths (PostsWF, as for C02)",
                "Balance::from_iter failing inside balance_groups is a panic in the code (`expect`); not reachable after a "
                "successful load (C02.balance_ok_of_closed); the model answers ERR there"]


PROP = C13()

"""C12 — strict mode accepts exactly the journals that use only declared names; with strict mode off
nothing depends on the charts; when both modes accept, all outputs are identical.

A case is one journal (AST + rendering) and several configurations (`runs`), answered by op `strict`
in both drivers:
  S  strict on,  the generated charts          L  strict off, the same charts
  E  strict off, empty charts (same permit-empty-commodity switch)
"""
import re

import common
from propbase import PropBase, model_cfg

REPORTS = ["txns", "identity", "balance", "balgrp", "register", "equity"]
WANT = REPORTS + ["probe"]
PROBE_COMMS = [""] + common.COMMS + ["SEK", "NOK", "XAU"]
LABELS = ["S", "L", "E"]

KINDS = ["all_declared", "leaf_gap_desc", "post_to_parent", "undecl_acct", "undecl_comm_posting",
         "undecl_comm_closing", "undecl_comm_opening", "undecl_tag", "report_comm", "price_comm", "dup_decl",
         "empty_comm", "invalid_chart", "equity", "closing_only_comm", "odd_tag"]

INVALID_ACCOUNTS = ["a b", "", ":a", "a::b", "a:", " a", "a:-b", "a:b c", "a:_x"]
INVALID_COMMS = ["1EUR", "", "E UR", "E:UR", "-EUR", "_EUR"]
EXTRA_COMMS = ["SEK", "NOK", "XAU"]


# ------------------------------------------------------------------------------------------------
# names used by a journal AST (python's own reading of the property statement)

def used_names(txns):
    accts, comms, tags = set(), set(), set()
    for t in txns:
        for p in t["posts"]:
            accts.add(p["acct"])
            u = p.get("unit")
            if u:
                comms.add(u["comm"])
                if u.get("closing"):
                    comms.add(u["closing"]["c"])
                # the opening position `{..}` is parsed and ignored by tackler: not a use
        if t.get("last"):
            accts.add(t["last"]["acct"])
        for tg in (t.get("tags") or []):
            tags.add(tg)
    return accts, comms, tags


def cfg_used(cfg):
    """names the configuration itself uses: (accounts, commodities)"""
    accts, comms = set(), set()
    if cfg.get("report_commodity") is not None:
        comms.add(cfg["report_commodity"])
    pr = cfg.get("price")
    if pr and pr.get("lookup", "none") != "none":
        for e in pr.get("entries", []):
            comms.add(e[0])
            comms.add(e[1])
    if "equity" in (cfg.get("export_targets") or []):
        accts.add(cfg.get("equity_account", "Equity:Balance"))
    return accts, comms


NUM = re.compile(r"^-?\d+(\.\d+)?$")


def canon_output(name, text):
    """balance / balance-group: the printed scale of a tree sum depends on hash-set iteration order
    (DESIGN.md F8, property C04), so numbers are compared by value and columns by content"""
    if name not in ("balance", "balgrp") or not isinstance(text, str):
        return text
    out = []
    for ln in text.split("\n"):
        out.append(" ".join(common.dec_norm(t) if NUM.match(t) else t for t in ln.split()))
    return "\n".join(out)


def ancestors(a):
    parts = a.split(":")
    return [":".join(parts[:i]) for i in range(1, len(parts))]


def price_text(entries):
    return "".join("P 2024-01-0%d %s %s %s\n" % (1 + i % 9, e[0], e[2] if len(e) > 2 else "1.5", e[1])
                   for i, e in enumerate(entries))


# ------------------------------------------------------------------------------------------------

class C12(PropBase):
    id = "C12"
    needs_cli = True     # the borrowed command-line cases (C19's) run the real binary

    # ---- generation
    def gen(self, rng, tier, focus=None):
        out = []
        per_kind = 25 if tier == "quick" else 700
        n_random = 450 if tier == "quick" else 14000
        for kind in KINDS:
            for _ in range(per_kind):
                out.append(self.gen_case(rng, kind))
        for _ in range(n_random):
            out.append(self.gen_case(rng, "random"))
        # the strict switch as the user gives it: in the file, on the command line (`--strict.mode true|false`), or both with
        # different values - the effective mode is the command line's.  These runs of the real binary on a journal with
        # declared and undeclared names are C19's cases (strict key in every file / option combination), borrowed here
        if not focus:
            import c19
            w = c19.world()
            for fs in (False, True):
                for cs in (None, False, True):
                    for _ in range(2 if tier == "quick" else 12):
                        f = c19.rand_file(rng, w)
                        f["strict"] = fs
                        c = c19.rand_cli(rng, w, f, 0.15, shape="nothing")
                        c.pop("strict.mode", None)
                        if cs is not None:
                            c["strict.mode"] = cs
                        out.append(dict(c19.PROP.mk("strict-switch", f, c, "console"), delegate="c19",
                                        kind="cli:strict-switch:%s/%s" % (fs, cs)))
        return out

    def gen_txns(self, rng, pool, comms, tag_pool, opts=None):
        o = {"p_invalid": 0.0, "comms": comms, "tag_pool": tag_pool, "p_tags": 0.35, "p_price": 0.3,
             "p_opening": 0.1, "p_comm": 0.6 if comms else 0.0, "p_loc": 0.05, "depth": 4}
        o.update(opts or {})
        n = o.get("n_txns") or rng.choice([1, 1, 2, 3, 4, 6])
        cfg = {}
        cluster = (2024, rng.randrange(1, 13), rng.randrange(1, 29))
        txns = [common.gen_txn(rng, cfg, o, pool, cluster) for _ in range(n)]
        if rng.random() < o.get("p_fault", 0.06):
            common.inject_fault(rng, rng.choice(txns), comms or ["EUR", "USD"])
        return txns

    def gen_case(self, rng, kind):
        """one journal + charts; the chart shape is driven by `kind`"""
        pool = common.gen_account_pool(rng, rng.choice([3, 5, 6]), 4)
        comms = list(common.COMMS[:rng.randrange(1, 4)])
        tag_pool = list(common.TAGS[:rng.randrange(1, 5)])
        permit_empty = rng.random() < 0.6
        opts = {}
        if not permit_empty and kind != "empty_comm":
            opts["p_comm"] = 1.0           # keep most journals acceptable
        if kind in ("random",):
            opts["p_fault"] = 0.1
        txns = self.gen_txns(rng, pool, comms, tag_pool, opts)
        base = {"permit_empty": permit_empty, "omit_pe": rng.random() < 0.5}

        def declare_all():
            a, c, t = used_names(txns)
            return sorted(a), sorted(x for x in c if x != ""), sorted(t)

        accts, cs, tgs = declare_all()
        extra = {}

        def simple_txn(posts, last=None, tags=None):
            t = common.gen_header(rng, {}, {"p_tags": 0.0, "p_loc": 0.0})
            t["tags"] = tags
            t["posts"] = posts
            t["last"] = last
            return t

        unit = ({"comm": comms[0], "opening": None, "closing": None}
                if (not permit_empty or rng.random() < 0.5) else None)

        def post(acct, amt, u=unit):
            return {"acct": acct, "amount": amt, "unit": u, "comment": None}

        if kind == "odd_tag":
            # tags are multi-part names whose sub-parts may begin with any name character ('_', '-', a digit, the middle
            # dot) - unlike account sub-names; a chart that declares such a tag is a valid chart, and a journal using it
            # is accepted in strict mode
            tg = rng.choice(["trip:_private", "x:-y", "m:\u00b7n", "t:1st", "a:_", "q:-", "w:9:_"])
            txns.append(simple_txn([post(pool[0], "1")], {"acct": pool[-1], "comment": None},
                                   tags=[tg] + ([tag_pool[0]] if rng.random() < 0.5 else [])))
            accts, cs, tgs = declare_all()
        elif kind == "all_declared":
            # supersets, shuffled, with unrelated extras
            accts = accts + [common.gen_account(rng) for _ in range(rng.randrange(0, 3))]
            cs = cs + rng.sample(EXTRA_COMMS, rng.randrange(0, 2))
            rng.shuffle(accts)
        elif kind in ("leaf_gap_desc", "post_to_parent"):
            # a declared leaf whose 1..3 parents are not declared
            missing = rng.randrange(1, 4)
            root = rng.choice(common.ROOT_PARTS) + "g"
            parts = [root] + [rng.choice(common.ACCT_PARTS) for _ in range(missing)]
            leaf = ":".join(parts)
            other = rng.choice(["e", "Exp:x", root + ":zz"])
            if kind == "leaf_gap_desc":
                target = leaf + ":" + ":".join(rng.choice(common.ACCT_PARTS) for _ in range(rng.randrange(1, 3)))
            else:
                target = ":".join(parts[:rng.randrange(1, len(parts))])
            amt = common.gen_amount_text(rng)
            if rng.random() < 0.4:
                # the declared leaf itself is posted to first (its parents must stay unpostable)
                txns.append(simple_txn([post(leaf, common.gen_amount_text(rng))], {"acct": other, "comment": None}))
            if rng.random() < 0.5:
                txns.append(simple_txn([post(target, amt)], {"acct": other, "comment": None}))
            else:
                txns.append(simple_txn([post(other, amt), post(target, common.neg_text(amt))]))
            a2, c2, _ = used_names(txns)
            cs = sorted(x for x in c2 if x != "")
            accts = [a for a in sorted(a2) if a != target] + [leaf, other]
            if rng.random() < 0.25:
                accts.append(target)                 # sometimes declared after all
            if rng.random() < 0.3:
                accts = [a for a in accts if a not in ancestors(leaf)]
        elif kind == "undecl_acct":
            victim = rng.choice(accts)
            accts = [a for a in accts if a != victim]
            if rng.random() < 0.5:
                accts += ancestors(victim)[-1:]      # its parent is declared instead
        elif kind in ("undecl_comm_posting", "undecl_comm_closing", "undecl_comm_opening"):
            x = rng.choice(EXTRA_COMMS)
            amt = common.gen_amount_text(rng)
            c0 = comms[0]
            if kind == "undecl_comm_posting":
                u = {"comm": x, "opening": None, "closing": None}
                txns.append(simple_txn([post(pool[0], amt, u)], {"acct": pool[-1], "comment": None}))
            elif kind == "undecl_comm_closing":
                u = {"comm": c0, "opening": None, "closing": {"k": rng.choice("@="), "v": "2" if not amt.startswith("-") else "-2", "c": x}}
                if u["closing"]["k"] == "@":
                    u["closing"]["v"] = "2"
                txns.append(simple_txn([post(pool[0], amt, u)], {"acct": pool[-1], "comment": None}))
            else:
                u = {"comm": c0, "opening": {"v": "3", "c": x}, "closing": None}
                txns.append(simple_txn([post(pool[0], amt, u)], {"acct": pool[-1], "comment": None}))
            accts, cs, tgs = declare_all()
            cs = [c for c in cs if c != x]
        elif kind == "closing_only_comm":
            x = rng.choice(EXTRA_COMMS)
            c0 = comms[0]
            k = rng.choice("@=")
            q = rng.choice(["2", "3", "12.5"])
            def cl(sign):
                return {"comm": c0, "opening": None, "closing": {"k": k, "v": ("120" if k == "@" else sign + "240"), "c": x}}
            amt = "2"
            txns.append(simple_txn([post(pool[0], "-" + amt, cl("-")), post(pool[-1], amt, cl(""))], None))
            accts, cs, tgs = declare_all()
            cs = [c for c in cs if c != x]
        elif kind == "undecl_tag":
            tg = rng.choice(["zz", "trip:zz", "t9", "par", "par:ent", "kid:x"])
            txns.append(simple_txn([post(pool[0], "1")], {"acct": pool[-1], "comment": None},
                                   tags=[tg] + ([tag_pool[0]] if rng.random() < 0.5 else [])))
            accts, cs, tgs = declare_all()
            tgs = [t for t in tgs if t != tg]
            # tags are flat names: a declared hierarchical tag declares neither its parents nor its children
            if tg in ("par", "par:ent"):
                tgs = tgs + ["par:ent:child"]
            if tg == "kid:x":
                tgs = tgs + ["kid"]
        elif kind == "report_comm":
            rc = rng.choice(comms + EXTRA_COMMS)
            extra["report_commodity"] = rc
            if rng.random() < 0.5:
                cs = sorted(set(cs) | {rc})
            else:
                cs = [c for c in cs if c != rc]
        elif kind == "price_comm":
            rc = rng.choice(comms)
            extra["report_commodity"] = rc
            mode = rng.choice(["declared", "undecl_base", "undecl_eq", "mixed", "mixed"])
            x = rng.choice(EXTRA_COMMS)
            ents = []
            for _ in range(rng.randrange(1, 4)):
                b = rng.choice(comms + ([] if mode in ("declared", "undecl_base", "undecl_eq") else EXTRA_COMMS))
                q = rc if mode != "mixed" else rng.choice([rc, rc, rng.choice(comms + EXTRA_COMMS)])
                ents.append([b, q, rng.choice(["2", "0.5", "1.25"])])
            if mode == "undecl_base":
                ents.insert(rng.randrange(len(ents) + 1), [x, rc, "3"])
            elif mode == "undecl_eq":
                ents.insert(rng.randrange(len(ents) + 1), [rng.choice(comms), x, "3"])
            if rng.random() < 0.06:
                ents = []                             # empty price file: an error in every mode
            lookup = rng.choice(["last-price", "txn-time", "last-price", "last-price", "none", "given-time", "given-time"])
            extra["price"] = {"entries": ents, "db": price_text(ents), "lookup": lookup}
            if lookup == "given-time":
                # the chart applies to every entry of the price file, also to those the given time leaves out of the lookup
                extra["price"]["before"] = rng.choice(["2024-01-01T00:00:00Z", "2024-01-02T12:00:00Z", "2023-06-01", "2024-01-05", "2025-01-01"])
            cs = sorted(set(cs) | {rc})
            if mode == "mixed" and rng.random() < 0.5:
                cs = sorted(set(cs) | {e[0] for e in ents} | {e[1] for e in ents})
            elif mode != "mixed":
                cs = sorted((set(cs) | {e[0] for e in ents} | {e[1] for e in ents}) - {x})
            if rng.random() < 0.08:
                del extra["report_commodity"]         # conversion without report commodity: error in every mode
        elif kind == "dup_decl":
            accts = accts + accts[:2] + accts[-1:]
            cs = cs + cs[:1]
            tgs = tgs + tgs
            rng.shuffle(accts)
            if rng.random() < 0.4 and accts:
                victim = rng.choice(accts)
                accts = [a for a in accts if a != victim]
        elif kind == "empty_comm":
            base["permit_empty"] = permit_empty = rng.random() < 0.5
            txns.append(simple_txn([post(pool[0], "2", None)], {"acct": pool[-1], "comment": None}))
            accts, cs, tgs = declare_all()
        elif kind == "invalid_chart":
            which = rng.choice(["acct", "comm"])
            if which == "acct":
                accts = accts + [rng.choice(INVALID_ACCOUNTS)]
            else:
                cs = cs + [rng.choice(INVALID_COMMS)]
            extra["_invalid"] = which
        elif kind == "equity":
            extra["export_targets"] = ["equity"]
            ea = rng.choice(["Equity:Balance", "e", "eq:x"])
            extra["equity_account"] = ea
            if rng.random() < 0.5:
                accts = accts + [ea]
            elif rng.random() < 0.5:
                accts = accts + [ea + ":sub"]
        else:  # random: independent random subsets of the used names plus noise
            def subset(xs, p):
                return [x for x in xs if rng.random() < p]
            p = rng.choice([1.0, 1.0, 0.9, 0.7])
            accts = subset(accts, p) + [common.gen_account(rng) for _ in range(rng.randrange(0, 3))]
            cs = subset(cs, rng.choice([1.0, 1.0, 0.8]))
            tgs = subset(tgs, rng.choice([1.0, 1.0, 0.7]))
            if rng.random() < 0.2:
                accts = [a for a in accts if rng.random() < 0.8] + [a + ":deep:er" for a in accts[:1]]
            if rng.random() < 0.15:
                extra["report_commodity"] = rng.choice(comms + EXTRA_COMMS[:1])
                if rng.random() < 0.5:
                    ents = [[rng.choice(comms + EXTRA_COMMS[:1]), extra["report_commodity"], "2"]]
                    extra["price"] = {"entries": ents, "db": price_text(ents), "lookup": "last-price"}

        invalid = extra.pop("_invalid", None)
        charts = {"accounts": accts, "commodities": cs, "tags": tgs}
        runs = []
        for label in LABELS:
            cfg = {"strict": label == "S", "permit_empty": base["permit_empty"]}
            if not base["permit_empty"] and base.get("omit_pe"):
                del cfg["permit_empty"]       # the key is optional; absent means false, whatever names the chart lists
            # the effective mode may come from the file or from the command-line overlap (`--strict.mode`):
            # charts, synthetic parents and every later check must follow the EFFECTIVE flag
            via = rng.random()
            if via < 0.35:
                cfg["strict"] = not (label == "S")
                cfg["ov_strict"] = label == "S"
            elif via < 0.5:
                cfg["ov_strict"] = label == "S"
            cfg.update(charts if label != "E" else {"accounts": [], "commodities": [], "tags": []})
            cfg.update(extra)
            runs.append({"label": label, "cfg": cfg})
        text = common.render_journal(txns, common.gen_layout(rng))
        ua, _, _ = used_names(txns)
        pa = set(ua) | {a for a in accts if a not in INVALID_ACCOUNTS}
        pa |= {q for a in list(pa) for q in ancestors(a)}
        pa |= {common.gen_account(rng), rng.choice(sorted(pa)) + ":zz"}
        case = {"op": "strict", "kind": kind, "txns": txns, "text": text, "want": WANT, "runs": runs,
                "probe": {"accounts": sorted(pa), "commodities": PROBE_COMMS}}
        if invalid:
            case["invalid_chart"] = invalid
        return case

    # ---- what each driver reads
    def impl_case(self, case):
        c = {k: v for k, v in case.items() if k != "txns"}
        runs = []
        for r in case["runs"]:
            cfg = dict(r["cfg"])
            if cfg.get("price"):
                cfg["price"] = {k: v for k, v in cfg["price"].items() if k != "entries"}
            runs.append({"cfg": cfg})
        c["runs"] = runs
        return c

    def model_case(self, case):
        c = {k: v for k, v in case.items() if k not in ("text",)}
        c["want"] = ["txns", "probe"]
        runs = []
        for r in case["runs"]:
            cfg = r["cfg"]
            m = model_cfg(cfg)
            m["report_commodity"] = cfg.get("report_commodity")
            pr = cfg.get("price")
            m["price_comms"] = ([[e[0], e[1]] for e in pr["entries"]]
                                if pr and pr.get("lookup", "none") != "none" else None)
            m["equity_target"] = "equity" in (cfg.get("export_targets") or [])
            m["equity_account"] = cfg.get("equity_account", "Equity:Balance")
            runs.append({"cfg": m})
        c["runs"] = runs
        return c

    # ---- tie
    def compare(self, case, impl, model):
        if impl.get("r") != "MULTI" or model.get("r") != "MULTI":
            return "driver problem: impl=%s model=%s %s %s" % (impl.get("r"), model.get("r"), impl.get("msg", ""), model.get("msg", ""))
        if any(m.get("r") == "UNDEF" for m in model["runs"]):
            return "skip"
        for run, i, m in zip(case["runs"], impl["runs"], model["runs"]):
            lab = run["label"]
            if case.get("invalid_chart") and lab != "E":
                continue            # lexical validity of chart entries is not modelled: classified by the oracle
            ir, mr = i.get("r"), m.get("r")
            if mr == "BADCASE" or ir in ("BADCASE", "GARBLED"):
                return "driver problem in run %s: impl=%s model=%s %s %s" % (lab, ir, mr, i.get("msg", ""), m.get("msg", ""))
            if ir == "CFGERR" and (i.get("msg") or "").startswith("config:"):
                return "generated configuration is not readable in run %s: %s" % (lab, i.get("msg"))
            if ir != mr:
                return "run %s: load status differs: impl=%s model=%s (%s)" % (lab, ir, mr, (i.get("msg") or "")[:200])
            if ir != "OK":
                continue
            a, b = i["out"]["txns"], m["out"]["txns"]
            if a.get("r") != "OK" or b.get("r") != "OK":
                return "run %s: txns output status impl=%s model=%s" % (lab, a.get("r"), b.get("r"))
            if a["v"] != b["v"]:
                for x, y in zip(a["v"], b["v"]):
                    if x != y:
                        return "run %s: accepted transactions differ: impl=%s model=%s" % (lab, str(x)[:500], str(y)[:500])
                return "run %s: number of accepted transactions differs" % lab
            if not case.get("probe"):
                continue
            pa, pb = i["out"].get("probe", {}), m["out"].get("probe", {})
            if pa.get("r") != "OK" or pb.get("r") != "OK":
                return "run %s: probe output status impl=%s model=%s" % (lab, pa.get("r"), pb.get("r"))
            if pa["v"] != pb["v"]:
                if pa["v"]["comms"] != pb["v"]["comms"]:
                    return "run %s: known commodities after the load differ: impl=%s model=%s (%s)" % (
                        lab, pa["v"]["comms"], pb["v"]["comms"], case["probe"]["commodities"])
                for acct, x, y in zip(case["probe"]["accounts"], pa["v"]["accts"], pb["v"]["accts"]):
                    if x != y:
                        return "run %s: account lookup of '%s' after the load differs: impl=%s model=%s" % (lab, acct, x, y)
        return None

    # ---- the property statement on the implementation alone
    def oracle(self, case, impl):
        if impl.get("r") != "MULTI":
            return None
        runs = dict(zip([r["label"] for r in case["runs"]], impl["runs"]))
        cfgs = dict((r["label"], r["cfg"]) for r in case["runs"])
        S, L, E = runs["S"], runs["L"], runs["E"]
        for lab, r in runs.items():
            if r.get("r") in ("PANIC", "ABORT", "TIMEOUT"):
                return {"sig": "load-panics", "what": "run %s: loading panics" % lab}
        if case.get("invalid_chart"):
            # a chart entry that is not a valid name is a configuration error in both modes
            for lab in ("S", "L"):
                if runs[lab].get("r") != "CFGERR":
                    return {"sig": "invalid-chart-entry-accepted",
                            "what": "run %s: chart with an invalid %s entry gives %s" % (lab, case["invalid_chart"], runs[lab].get("r"))}
            return None
        self.remember(case)

        def outputs_fail(lab, r, sigbase):
            for w in REPORTS:
                o = r["out"].get(w, {})
                if o.get("r") != "OK":
                    return {"sig": "%s:%s" % (sigbase, "report" if w in ("balance", "balgrp", "equity") else w),
                            "what": "run %s: output %s is %s (%s)" % (lab, w, o.get("r"), (o.get("msg") or "")[:160])}
            return None

        def outputs_differ(la, ra, lb, rb, sigbase):
            for w in REPORTS:
                if canon_output(w, ra["out"][w].get("v")) != canon_output(w, rb["out"][w].get("v")):
                    return {"sig": "%s:%s" % (sigbase, w),
                            "what": "output %s differs between run %s and run %s" % (w, la, lb)}
            return None

        # every ancestor of every posted account can be looked up by reports (both modes)
        probe = case.get("probe") or {"accounts": [], "commodities": []}
        pidx = {a: k for k, a in enumerate(probe["accounts"])}
        cidx = {c: k for k, c in enumerate(probe["commodities"])}
        for lab, r in runs.items():
            if r.get("r") != "OK" or r["out"].get("probe", {}).get("r") != "OK" or r["out"]["txns"].get("r") != "OK":
                continue
            rows = r["out"]["probe"]["v"]["accts"]
            for t in r["out"]["txns"]["v"]:
                for p in t["posts"]:
                    for q in ancestors(p["acct"]) + [p["acct"]]:
                        if q in pidx and p["comm"] in cidx and rows[pidx[q]][cidx[p["comm"]]] != "1":
                            return {"sig": "ancestor-not-reportable:" + ("strict" if lab == "S" else "lax"),
                                    "what": "run %s: account '%s' (ancestor of the posted '%s', commodity '%s') is unknown to get_txn_account" % (lab, q, p["acct"], p["comm"])}
        # (b) strict off: nothing depends on the charts
        if L.get("r") != E.get("r"):
            return {"sig": "lax-acceptance-depends-on-chart",
                    "what": "strict off: load is %s with the charts and %s with empty charts (%s)" % (
                        L.get("r"), E.get("r"), (L.get("msg") or E.get("msg") or "")[:160])}
        if L.get("r") == "OK":
            f = outputs_fail("L", L, "lax-output-fails") or outputs_fail("E", E, "lax-empty-chart-output-fails")
            if f:
                return f
            f = outputs_differ("L", L, "E", E, "lax-output-depends-on-chart")
            if f:
                return f
        # (a) strict on: accepted iff lax accepts and every used name is declared
        cfg = cfgs["S"]
        ua, uc, ut = used_names(case["txns"])
        ca, cc = cfg_used(cfg)
        missing = ([("account", a) for a in sorted(ua | ca) if a not in cfg["accounts"]] +
                   [("commodity", c) for c in sorted(uc | cc) if c != "" and c not in cfg["commodities"]] +
                   [("tag", t) for t in sorted(ut) if t not in cfg["tags"]])
        if L.get("r") != "OK":
            if S.get("r") == "OK":
                return {"sig": "strict-accepts-what-lax-rejects", "what": "strict on accepts a journal that strict off rejects (%s)" % L.get("r")}
            return None
        if missing and S.get("r") == "OK":
            return {"sig": "strict-accepts-undeclared-" + missing[0][0],
                    "what": "strict on accepts although %s '%s' is not declared" % missing[0]}
        if not missing and S.get("r") != "OK":
            return {"sig": "strict-rejects-declared",
                    "what": "strict on rejects (%s: %s) although every used name is declared" % (S.get("r"), (S.get("msg") or "")[:160])}
        # (c) both modes accept: identical outputs
        if S.get("r") == "OK":
            f = outputs_fail("S", S, "strict-output-fails") or outputs_differ("S", S, "L", L, "modes-differ")
            if f:
                return f
        return None

    def nontrivial(self, case, impl):
        if not isinstance(impl, dict) or impl.get("r") != "MULTI":
            return False
        # the strict flag decides something: the journal is acceptable with strict off and the charts are not empty
        L = impl["runs"][1]
        cfg = case["runs"][0]["cfg"]
        return L.get("r") == "OK" and bool(cfg["accounts"])

    def sample(self, case):
        return {"op": case["op"], "kind": case["kind"], "text": case["text"][:800],
                "charts": {k: case["runs"][0]["cfg"].get(k) for k in ("accounts", "commodities", "tags", "permit_empty",
                                                                        "report_commodity", "export_targets", "equity_account")}}

    def rule(self):
        return ("one journal AST (gen/common.py: accounts from a generated tree, 1-3 commodities, closing '@'/'=' and "
                "opening '{..}' positions, tags, implicit last posting, 6-10% injected semantic faults) rendered with a "
                "random layout, and charts built per boundary class (all declared / declared leaf with 1-3 undeclared "
                "parents and a posting to a descendant of the leaf / posting to the undeclared parent / one undeclared "
                "account, posting commodity, closing-price-only commodity, opening-only commodity, tag / report commodity "
                "and price-file commodities declared or not / duplicate declarations / empty commodity with the permission "
                "on and off / invalid chart entries / equity export with declared or undeclared equity account / random "
                "subsets); each case is run three times (strict, lax, lax with empty charts) through op `strict`, with the outputs "
                "txns/identity/balance/balance-group/register/equity and a probe of the charts after the load; "
                "non-trivial = lax mode accepts the journal and the account chart is not empty; distinct = sha256 of the "
                "implementation case line")

    def trusted_base(self):
        return super().trusted_base() + [
            "modelled, not verified: lexical validity of chart entries (`AccountTreeNode::from`, `Commodity::from`; such cases "
            "are classified by the oracle, not compared), TOML/config decoding, the price-file grammar (the model gets the "
            "commodity pair of every entry), the text grammar of journals (AST-level tie); reports/exports are compared "
            "between runs of the implementation (oracle), not with the model",
            "read-only hook tackler_core::verif_hooks::settings_knows_txn_account (fixes/hook-c12-settings-probe.diff) wraps the "
            "crate-private Settings::get_txn_account for the probe output"]

    def assumptions(self):
        return ["chart entries are lexically valid names (otherwise Settings::try_from fails: oracle class invalid_chart)",
                "the report commodity is given in the configuration file, not on the command line"]


PROP = C12()

"""C10 — equity export carries every selected balance forward exactly."""
import datetime
import hashlib
import re
from decimal import Decimal as D

import common
from propbase import PropBase, model_cfg, cmp_status

EQUITY_ACCOUNTS = ["Equity:Balance", "Eq", "e:q:u", "Equity:Opening·Balance", "a", "x:y"]
# not account names of the journal grammar (F18: the configuration must reject them)
BAD_EQUITY_ACCOUNTS = ["", "a b", ":a", "a::b", "1", "-5", "a:", "a;b", "x'y", "(a)", "a:-b", "Equity Account",
                       "a\tb", " a", "a ", "a:b c"]
WARNING = [
    "WARNING:",
    "WARNING: The sum of equity transaction is zero without equity account.",
    "WARNING: Therefore there is no equity posting row, and this is probably not right.",
    "WARNING: Is the account selector correct for this Equity export?",
    "WARNING:",
]
TS_RE = re.compile(r"^(\d{4})-(\d\d)-(\d\d)T(\d\d):(\d\d):(\d\d)(?:\.(\d{1,9}))?([+-])(\d\d):(\d\d)(?::(\d\d))?$")
PAD = 15


# ---------------------------------------------------------------------------------------------
# helpers (python side only; independent of the Lean model)

def ns_to_rfc3339_utc(ns):
    secs, frac = divmod(ns, 10 ** 9)
    dt = common.EPOCH + datetime.timedelta(seconds=secs)
    t = dt.strftime("%Y-%m-%dT%H:%M:%S")
    if frac:
        t += "." + ("%09d" % frac).rstrip("0")
    return t + "+00:00"


def parse_rfc3339(text):
    m = TS_RE.match(text)
    if not m:
        return None
    y, mo, d, h, mi, s = [int(m.group(i)) for i in range(1, 7)]
    frac = m.group(7)
    frac_ns = int(frac) * 10 ** (9 - len(frac)) if frac else 0
    off = int(m.group(9)) * 3600 + int(m.group(10)) * 60 + (int(m.group(11)) if m.group(11) else 0)
    if m.group(8) == "-":
        off = -off
    try:
        ns = common.civil_to_ns(y, mo, d, h, mi, s, frac_ns, off)
    except ValueError:
        return None
    return {"ns": str(ns), "off": off}


def parse_equity_text(text):
    """export text -> list of {ts, desc, comments, posts:[[acct, amount, comm]]}; None if a line has an
    unexpected shape (the shapes are exactly those of EquityExporter::write_export)"""
    if text == "":
        return []
    if not text.endswith("\n"):
        return None
    lines = text[:-1].split("\n")
    out = []
    cur = None
    for ln in lines:
        if cur is None:
            if " '" not in ln:
                return None
            tss, desc = ln.split(" '", 1)
            ts = parse_rfc3339(tss)
            if ts is None:
                return None
            cur = {"ts": ts, "desc": desc, "comments": [], "posts": []}
            continue
        if ln == "":
            out.append(cur)
            cur = None
            continue
        if ln.startswith("   ; "):
            if cur["posts"]:
                return None
            cur["comments"].append(ln[5:])
            continue
        if not ln.startswith("   ") or ln[3:4] in (" ", ""):
            return None
        body = ln[3:]
        if "  " not in body:
            return None
        acct, val = body.split("  ", 1)
        if " " in acct or not acct:
            return None
        toks = val.split(" ")
        if len(toks) == 1:
            amount, comm = toks[0], ""
        elif len(toks) == 2 and toks[1] != "":
            amount, comm = toks
        else:
            return None
        if not re.match(r"^-?\d+(\.\d+)?$", amount):
            return None
        cur["posts"].append([acct, amount, comm])
    if cur is not None:
        return None
    return out


def sum_chain_exact(texts):
    """does the left fold 0 + t1 + t2 + ... stay inside rust_decimal's exact domain?"""
    acc = D(0)
    acc_scale = 0
    for t in texts:
        d = D(t)
        sc = common.dec_scale(t)
        if acc == 0:
            acc, acc_scale = d, sc
            continue
        if d == 0:
            continue
        s = max(acc_scale, sc)
        z = acc + d
        if abs(int(z.scaleb(s))) > common.MAX96:
            return False
        acc, acc_scale = z, s
    return True


def window_of(case):
    w = case.get("mfilter_ts") or {}
    b = int(w["begin"]) if w.get("begin") is not None else None
    e = int(w["end"]) if w.get("end") is not None else None
    return b, e


def in_window(ns, b, e):
    return (b is None or b <= ns) and (e is None or ns < e)


def filter_json(b, e):
    fs = []
    if b is not None:
        fs.append({"TxnFilterTxnTSBegin": {"begin": ns_to_rfc3339_utc(b)}})
    if e is not None:
        fs.append({"TxnFilterTxnTSEnd": {"end": ns_to_rfc3339_utc(e)}})
    if len(fs) == 1:
        return {"txnFilter": fs[0]}
    return {"txnFilter": {"TxnFilterAND": {"txnFilters": fs}}}


def md_lines(case):
    """comment texts of the metadata items the export prints (computed here with hashlib, independently of both
    drivers): transaction set checksum (audit), filter description, account selector checksum (audit)"""
    cfg = case.get("cfg", {})
    audit = bool(cfg.get("audit"))
    b, e = window_of(case)
    has_filter = case.get("filter") is not None
    if not audit and not has_filter:
        return []
    out = []
    if audit:
        uu = sorted(t["uuid"] for t in case["txns"] if in_window(int(t["ts"]["ns"]), b, e))
        h = hashlib.sha256("".join(u + "\n" for u in uu).encode()).hexdigest()
        out += ["Txn Set Checksum", "%*s : %s" % (PAD, "SHA-256", h), "%*s : %d" % (PAD, "Set size", len(uu)), ""]
    if has_filter:
        out.append("Filter")
        items = []
        if b is not None:
            items.append("Txn TS: begin " + ns_to_rfc3339_utc(b))
        if e is not None:
            items.append("Txn TS: end   " + ns_to_rfc3339_utc(e))
        if len(items) == 1:
            out.append("  " + items[0])
        else:
            out.append("  AND")
            out += ["    " + i for i in items]
        out.append("")
    if audit:
        pats = cfg.get("sel_equity") or []
        if pats:
            h = hashlib.sha256("".join(p + "\n" for p in sorted(pats)).encode()).hexdigest()
            out += ["Account Selector Checksum", "%*s : %s" % (PAD, "SHA-256", h), ""]
        else:
            out += ["Account Selector Checksum", "%*s : %s" % (PAD, "None", "select all non-zero"), ""]
    return out


def journal_accounts(txns):
    s = []
    for t in txns:
        for p in t["posts"]:
            if p["acct"] not in s:
                s.append(p["acct"])
        if t.get("last") and t["last"]["acct"] not in s:
            s.append(t["last"]["acct"])
    return s


# ---------------------------------------------------------------------------------------------

BOUNDARY = ["cancel", "single", "eqa_selected", "prices", "audit", "empty_sel", "filter", "filter_none", "all_zero",
            "audit_filter", "eqa_parent", "bad_eqa"]


class C10(PropBase):
    id = "C10"
    needs_cli = True     # the borrowed output-protocol cases (C14's) run the real binary

    # -- generation
    def gen(self, rng, tier, focus=None):
        out = []
        per = 40 if tier == "quick" else 800
        for kind in BOUNDARY + ["report_scale", "priced"]:
            for _ in range(per):
                out.append(self.mk(rng, kind))
        n = 1500 if tier == "quick" else 30000
        for _ in range(n):
            out.append(self.mk(rng, "random"))
        # "a new journal opened with the export continues from identical balances" needs the export file to be exactly
        # the export: an equity export written where a file already exists (an earlier, longer export) must be refused, the
        # file left as it was - C14's cases, borrowed for the equity destination (run and judged by C14's plug-in)
        if not focus:
            import c14
            for inp in c14.INPUTS:
                for ln in (0, 7, 9000):
                    out.append(dict(c14.PROP.mk(rng, "existing", "small", inp, [], ["equity"], existing=[{"t": "equity", "len": ln}]),
                                    delegate="c14", kind="out:existing-equity"))
                out.append(dict(c14.PROP.mk(rng, "existing", "small", inp, ["balance"], ["identity", "equity"],
                                            existing=[{"t": "equity", "len": 5000}]), delegate="c14", kind="out:existing-equity"))
            # "every selected balance": which accounts are selected is decided by the configuration glue.  An explicit
            # `export.equity.accounts = [ ]` means every account even when `report.accounts` is narrower (and a non-empty
            # equity list wins over the global one); the real binary on C19's world, run and judged by C19's plug-in
            import c19
            for _ in range(4 if tier == "quick" else 40):
                for eq in ([], None, "other"):
                    f = c19.base_file()
                    f["targets"] = ["balance"]
                    f["export_targets"] = ["equity"]
                    f["sel_global"] = list(rng.choice(c19.SELS[1:5]))
                    f["sel_equity"] = list(rng.choice(c19.SELS[1:])) if eq == "other" else eq
                    out.append(dict(c19.PROP.mk("equity-selector", f, {}, "files"), delegate="c19",
                                    kind="cli:equity-selector:%s" % ("empty" if eq == [] else "absent" if eq is None else "own")))
        return out

    def mk(self, rng, kind):
        cfg = {}
        audit = kind in ("audit", "audit_filter") or (kind == "random" and rng.random() < 0.15)
        big = kind == "random" and rng.random() < 0.04
        comms = common.COMMS[:rng.randrange(1, 5)]
        opts = {"p_invalid": 0.0, "big": big, "comms": comms,
                "p_price": 0.5 if kind == "prices" else rng.choice([0.0, 0.0, 0.25]),
                "p_opening": rng.choice([0.0, 0.1]), "n_accts": rng.choice([2, 3, 4, 6]),
                "depth": rng.choice([1, 2, 3, 4]), "p_comm": rng.choice([0.0, 0.5, 0.8, 1.0]),
                "n_txns": rng.choice([1, 2, 3, 4, 6, 9])}
        if audit:
            cfg["audit"] = True
            opts["p_uuid"] = 1.0
        txns = common.gen_journal(rng, cfg, opts)
        if kind == "all_zero":
            # every posting is reversed by a later transaction: every own sum is zero
            txns = [self.explicit(rng, cfg, comms, audit) for _ in range(rng.randrange(1, 4))]
            rev = []
            for t in txns:
                r = dict(t)
                r["ts"] = common.gen_ts(rng, cfg)
                r["uuid"] = common.gen_uuid(rng) if audit else None
                r["posts"] = [dict(p, amount=common.neg_text(p["amount"])) for p in t["posts"]]
                rev.append(r)
            txns = txns + rev
        accts = journal_accounts(txns)
        sel = None
        if kind == "cancel" or (kind == "random" and rng.random() < 0.1):
            # two fresh accounts whose sums cancel in one commodity; select them (and perhaps others)
            c = rng.choice(comms + [""])
            amt = common.gen_amount_text(rng)
            t = dict(common.gen_header(rng, cfg, {"p_uuid": 1.0 if audit else 0.4}))
            unit = {"comm": c, "opening": None, "closing": None} if c else None
            a1, a2 = rng.choice([("cz:p", "cz:q"), ("cz", "cz:q"), ("z1", "z2")])
            t["posts"] = [{"acct": a1, "amount": amt, "unit": unit, "comment": None},
                          {"acct": a2, "amount": common.neg_text(amt), "unit": unit, "comment": None}]
            t["last"] = None
            txns.insert(rng.randrange(len(txns) + 1), t)
            sel = [a1, a2]
            if rng.random() < 0.5:
                sel += rng.sample(accts, rng.randrange(0, min(3, len(accts)) + 1))
        elif kind in ("single", "eqa_parent", "bad_eqa"):
            sel = [rng.choice(accts)]
        elif kind == "empty_sel":
            sel = [rng.choice(["no:such", "a:b:c:d:e:f", accts[0] + "x"])]
        elif kind == "random":
            r = rng.random()
            if r < 0.35:
                sel = None
            elif r < 0.5:
                sel = [rng.choice(accts)]
            else:
                sel = rng.sample(accts, rng.randrange(1, len(accts) + 1))
                if rng.random() < 0.2:
                    sel.append("no:such")
        eqa = rng.choice(EQUITY_ACCOUNTS)
        if kind == "eqa_selected" or (kind == "random" and rng.random() < 0.08):
            eqa = rng.choice(sel if sel else accts)
        elif kind == "bad_eqa":
            eqa = rng.choice(BAD_EQUITY_ACCOUNTS)
        elif kind == "eqa_parent":
            a = sel[0]
            eqa = a.rsplit(":", 1)[0] if ":" in a and rng.random() < 0.6 else a + ":sub"
        cfg["equity_account"] = eqa
        # report display settings must not influence the export: figures are exact, never converted
        if kind == "report_scale" or (kind == "random" and rng.random() < 0.15):
            mx = rng.choice([0, 0, 1, 2, 2, 3, 5])
            cfg["scale_min"] = rng.randrange(0, mx + 1)
            cfg["scale_max"] = mx
        if kind == "priced" or (kind == "random" and rng.random() < 0.1):
            tgt = rng.choice(comms)
            db = "".join("P 2019-0%d-01T00:00:00Z %s %s %s\n" % (k + 1, c, r, tgt)
                         for k, (c, r) in enumerate([(c, r) for c in common.COMMS[:4] if c != tgt
                                                     for r in ("2", "0.5")][:6]))
            if db:
                cfg["price"] = {"db": db, "lookup": rng.choice(["last-price", "txn-time"])}
                cfg["report_commodity"] = tgt
        if sel is not None:
            sel = list(dict.fromkeys(sel))
            cfg["sel_equity"] = [re.escape(a) for a in sel]
        case = {"op": "run", "kind": kind if not big else "big", "cfg": cfg, "txns": txns,
                "equity_account": eqa, "msel_equity": sel or []}
        # the selector may reach the exporter from the command line (`--accounts` replaces the configured list)
        if sel and rng.random() < 0.3:
            case["cli_accounts"] = True
        if kind in ("filter", "filter_none", "audit_filter") or (kind == "random" and rng.random() < 0.2):
            nss = sorted(int(t["ts"]["ns"]) for t in txns)
            if kind == "filter_none":
                b, e = rng.choice([(nss[-1] + 1, None), (None, nss[0]), (nss[0], nss[0])])
            else:
                # boundaries sit on (or one ns off) transaction instants
                def pick():
                    return rng.choice(nss) + rng.choice([0, 0, 1, -1, 10 ** 9, -3600 * 10 ** 9])
                r = rng.random()
                if r < 0.35:
                    b, e = pick(), None
                elif r < 0.7:
                    b, e = None, pick()
                else:
                    b, e = sorted([pick(), pick()])
            case["mfilter_ts"] = {"begin": None if b is None else str(b), "end": None if e is None else str(e)}
            case["filter"] = filter_json(b, e)
        case["text"] = common.render_journal(txns, common.gen_layout(rng))
        return case

    def explicit(self, rng, cfg, comms, audit):
        """a transaction with explicit postings in one commodity, no prices"""
        c = rng.choice(comms + [""])
        unit = {"comm": c, "opening": None, "closing": None} if c else None
        n = rng.randrange(1, 4)
        posts, total = [], D(0)
        for _ in range(n):
            amt = common.gen_amount_text(rng)
            posts.append({"acct": common.gen_account(rng, 3), "amount": amt, "unit": unit, "comment": None})
            total += D(amt)
        if total == 0:
            posts.append({"acct": "fix:a", "amount": "1", "unit": unit, "comment": None})
            total += 1
        posts.append({"acct": common.gen_account(rng, 3), "amount": common.fmt_dec(-total), "unit": unit, "comment": None})
        t = dict(common.gen_header(rng, cfg, {"p_uuid": 1.0 if audit else 0.3}))
        t["posts"] = posts
        t["last"] = None
        return t

    DISPLAY_KEYS = ("scale_min", "scale_max", "price", "report_commodity")

    def impl_case(self, case):
        c = {"op": "run", "cfg": case.get("cfg", {}), "text": case["text"], "want": ["equity", "balance", "txns"]}
        if case.get("cli_accounts") and c["cfg"].get("sel_equity"):
            c["cfg"] = dict(c["cfg"], sel_equity=["zzz:configured:elsewhere"], ov_accounts=c["cfg"]["sel_equity"])
        if any(k in c["cfg"] for k in self.DISPLAY_KEYS):
            c["neutral"] = True
        if case.get("filter") is not None:
            c["filter"] = case["filter"]
        return c

    def model_case(self, case):
        if case.get("kind") == "bad_eqa":
            return None     # rejected by the configuration layer, which the Lean model does not cover
        c = {"op": "run", "cfg": model_cfg(case.get("cfg", {})), "txns": case["txns"], "want": ["equity"],
             "equity_account": case["equity_account"], "msel_equity": case["msel_equity"],
             "md_equity": md_lines(case)}
        if case.get("mfilter_ts"):
            c["mfilter_ts"] = case["mfilter_ts"]
        return c

    # -- the implementation is run twice: the export text is fed back as a journal (lax, no audit)
    def run_impl(self, impl_cases):
        first = common.run_driver([common.TK_IMPL], [{k: v for k, v in c.items() if k != "neutral"} for c in impl_cases])
        # the source's exact balance report and listing come from a run with neutral display settings
        nidx = [i for i, c in enumerate(impl_cases) if c.get("neutral")]
        ncases = [dict({k: v for k, v in impl_cases[i].items() if k != "neutral"},
                       cfg={k: v for k, v in impl_cases[i]["cfg"].items() if k not in self.DISPLAY_KEYS},
                       want=["balance", "txns"]) for i in nidx]
        for i, a in zip(nidx, common.run_driver([common.TK_IMPL], ncases)):
            if isinstance(first[i], dict) and first[i].get("r") == "OK" and isinstance(a, dict) and a.get("r") == "OK":
                first[i]["out"]["balance"] = a["out"]["balance"]
                first[i]["out"]["txns"] = a["out"]["txns"]
        idx, second = [], []
        for i, a in enumerate(first):
            if not isinstance(a, dict) or a.get("r") != "OK":
                continue
            eq = (a.get("out") or {}).get("equity") or {}
            if eq.get("r") == "OK" and eq.get("v"):
                idx.append(i)
                second.append({"op": "run", "cfg": {}, "text": eq["v"], "want": ["balance", "txns"]})
        res = common.run_driver([common.TK_IMPL], second)
        for i, a in zip(idx, res):
            first[i]["reload"] = a
        return first

    # -- correspondence
    def compare(self, case, impl, model):
        d = cmp_status(impl, model)
        if d:
            return d
        if impl.get("r") != "OK":
            return None
        a = impl["out"].get("equity", {})
        b = model["out"].get("equity", {})
        if b.get("r") == "UNDEF":
            return "skip"
        if a.get("r") != b.get("r"):
            return "equity status impl=%s model=%s %s" % (a.get("r"), b.get("r"), (a.get("msg") or b.get("msg") or "")[:200])
        if a.get("r") != "OK":
            return None
        got = parse_equity_text(a["v"])
        if got is None:
            return "export text of the implementation has an unexpected line shape"
        want = b["v"]["txns"]
        if len(got) != len(want):
            return "number of equity transactions: impl=%d model=%d" % (len(got), len(want))
        for x, y in zip(got, want):
            if x != y:
                return "equity transaction differs: impl=%s model=%s" % (str(x)[:500], str(y)[:500])
        if b["v"].get("text") is not None and b["v"]["text"] != a["v"]:
            return "equity text differs: impl=%r model=%r" % (a["v"][:600], b["v"]["text"][:600])
        return None

    # -- the property on the implementation alone
    def oracle(self, case, impl):
        if not isinstance(impl, dict):
            return None
        if case.get("kind") == "bad_eqa":
            # the equity account is written verbatim into the export: a name the journal grammar does not accept
            # must be rejected when the configuration is read (F18)
            if impl.get("r") == "CFGERR":
                return None
            eq = ((impl.get("out") or {}).get("equity") or {}) if impl.get("r") == "OK" else {}
            rl = impl.get("reload")
            if eq.get("r") == "OK" and eq.get("v") and not (isinstance(rl, dict) and rl.get("r") == "OK"):
                return {"sig": "equity-account-not-validated", "what": "equity account %r is accepted by the configuration "
                        "and the export is not a journal: %s" % (case["equity_account"], ((rl or {}).get("msg") or "")[:200])}
            return None
        if impl.get("r") == "CFGERR":
            return {"sig": "config-rejected", "what": "configuration with equity account %r rejected: %s" % (
                case.get("equity_account"), (impl.get("msg") or "")[:200])}
        if impl.get("r") != "OK":
            return None     # load failures / panics are C15's and C01's business
        out = impl.get("out") or {}
        eq = out.get("equity") or {}
        bal = out.get("balance") or {}
        tx = out.get("txns") or {}
        if tx.get("r") != "OK" or bal.get("r") != "OK":
            return None
        sel_names = case.get("msel_equity") or []
        b, e = window_of(case)
        selected = [t for t in case["txns"] if in_window(int(t["ts"]["ns"]), b, e)]
        if len(selected) != len(tx["v"]):
            return None     # the filter itself is C05's business
        # -- source balance restricted to the selected non-zero accounts
        rows = []
        if tx["v"]:
            pr = common.parse_balance_report(bal["v"])
            if pr is None:
                return {"sig": "source-balance-unreadable", "what": "balance report of the source could not be read"}
            rows = pr[0]
        if any(r[2] == "?" for r in rows):
            return {"sig": "source-balance-unreadable", "what": "balance report of the source has an unreadable row"}
        chosen = [r for r in rows if D(r[2]) != 0 and (not sel_names or r[1] in sel_names)]
        groups = []
        for r in chosen:
            if groups and groups[-1][0] == r[0]:
                groups[-1][1].append(r)
            else:
                groups.append((r[0], [r]))
        # -- numeric domain of the property: all sums involved are exactly representable
        per_key = {}
        for t in tx["v"]:
            for p in t["posts"]:
                per_key.setdefault((p["comm"], p["acct"]), []).append(p["amount"])
        if not all(sum_chain_exact(v) for v in per_key.values()):
            return None
        for c, g in groups:
            owns = [r[2] for r in g]
            tot = sum(D(x) for x in owns)
            if not common.dec_fits(tot) or not sum_chain_exact(owns) or not sum_chain_exact(owns + [common.fmt_dec(-tot)]):
                return None
            # the equity account may itself be selected: on re-load its own sum is (its row) + (the balancing posting),
            # which must be exactly representable too (numeric domain of C02; otherwise F17 territory)
            if tot != 0 and any(r[1] == case["equity_account"] and not sum_chain_exact([r[2], common.fmt_dec(-tot)]) for r in g):
                return None
        self.remember(case)
        if eq.get("r") != "OK":
            return {"sig": "equity-export-" + str(eq.get("r")).lower(), "what": "equity export of an accepted journal: %s %s" % (eq.get("r"), (eq.get("msg") or "")[:200])}
        etx = parse_equity_text(eq["v"])
        if etx is None:
            return {"sig": "export-shape", "what": "export text has a line that is not a header, comment, posting or separator line", "text": eq["v"][:1500]}
        # -- shape: one transaction per commodity with a selected non-zero row, in commodity order
        if [c for c, _ in groups] != sorted(set(c for c, _ in groups)):
            return {"sig": "source-balance-order", "what": "balance rows are not grouped by commodity in order"}
        if len(etx) != len(groups):
            return {"sig": "txn-per-commodity", "what": "%d equity transactions for %d commodities with selected non-zero balances" % (len(etx), len(groups)), "text": eq["v"][:1500]}
        eqa = case["equity_account"]
        last_ns = max(int(t["ts"]["ns"]) for t in selected) if selected else None
        expected = {}
        for (c, g), t in zip(groups, etx):
            if int(t["ts"]["ns"]) != last_ns:
                return {"sig": "not-dated-at-last-txn", "what": "equity transaction dated %s, last selected transaction is at %s" % (t["ts"]["ns"], last_ns)}
            want_desc = "Equity" + ((" for " + c) if c else "")
            if not (t["desc"] == want_desc or t["desc"].startswith(want_desc + ": last txn (uuid): ")):
                return {"sig": "description", "what": "description %r for commodity %r" % (t["desc"], c)}
            tot = sum(D(r[2]) for r in g)
            want_posts = [[r[1], r[2], c] for r in g]
            n = len(want_posts)
            if t["posts"][:n] != want_posts:
                return {"sig": "row-postings", "what": "postings %s are not the selected balance rows %s" % (t["posts"][:n], want_posts)}
            rest = t["posts"][n:]
            has_warning = all(w in t["comments"] for w in WARNING[1:4])
            if tot == 0:
                if rest:
                    return {"sig": "balancing-posting-on-zero-sum", "what": "balancing posting %s although the selected sums cancel" % rest}
                if not has_warning:
                    return {"sig": "warning-missing", "what": "no WARNING block although the selected sums cancel"}
            else:
                if len(rest) != 1 or rest[0][0] != eqa or rest[0][2] != c or D(rest[0][1]) != -tot:
                    return {"sig": "balancing-posting", "what": "balancing postings %s, expected one (%s, %s, %s)" % (rest, eqa, -tot, c)}
                if has_warning:
                    return {"sig": "warning-spurious", "what": "WARNING block although there is a balancing posting"}
                expected[(c, eqa)] = expected.get((c, eqa), D(0)) - tot
            for r in g:
                expected[(c, r[1])] = expected.get((c, r[1]), D(0)) + D(r[2])
            if sum(D(p[1]) for p in t["posts"]) != 0:
                return {"sig": "export-txn-unbalanced", "what": "equity transaction for %r sums to %s" % (c, sum(D(p[1]) for p in t["posts"]))}
        for t in etx:
            md = [x for x in t["comments"] if x not in WARNING]
            if md != md_lines(case):
                return {"sig": "metadata-comments", "what": "metadata comment lines %s, expected %s" % (md, md_lines(case))}
        if not etx:
            if eq["v"] != "":
                return {"sig": "empty-export-text", "what": "no selected non-zero balance but the export is not empty"}
            return None
        # -- the export read back as a journal
        rl = impl.get("reload")
        if not isinstance(rl, dict) or rl.get("r") != "OK":
            return {"sig": "export-does-not-reload", "what": "the export is not accepted as a journal: %s %s" % (
                (rl or {}).get("r"), ((rl or {}).get("msg") or "")[:300]), "text": eq["v"][:1500]}
        rtx = rl["out"]["txns"]
        rbal = rl["out"]["balance"]
        if rtx.get("r") != "OK" or rbal.get("r") != "OK":
            return {"sig": "export-does-not-reload", "what": "reports of the re-loaded export fail"}
        if len(rtx["v"]) != len(etx):
            return {"sig": "reload-count", "what": "%d transactions re-loaded from %d exported" % (len(rtx["v"]), len(etx))}
        for t in rtx["v"]:
            if int(t["ts"]["ns"]) != last_ns:
                return {"sig": "not-dated-at-last-txn", "what": "re-loaded transaction dated %s, last selected is %s" % (t["ts"]["ns"], last_ns)}
            if len({p["txn_comm"] for p in t["posts"]}) != 1 or len({p["comm"] for p in t["posts"]}) != 1:
                return {"sig": "reload-mixed-commodity", "what": "re-loaded equity transaction uses several commodities", "txn": t}
            if sum(D(p["txn_amount"]) for p in t["posts"]) != 0 or any(D(p["amount"]) == 0 for p in t["posts"]):
                return {"sig": "reload-unbalanced", "what": "re-loaded equity transaction is not balanced", "txn": t}
        if sorted(t["posts"][0]["comm"] for t in rtx["v"]) != [c for c, _ in groups]:
            return {"sig": "txn-per-commodity", "what": "re-loaded transactions are not one per commodity"}
        pr = common.parse_balance_report(rbal["v"])
        if pr is None:
            return {"sig": "reload-balance-unreadable", "what": "balance report of the re-loaded export could not be read"}
        got = {}
        got_text = {}
        for c, a, own, _tree in pr[0]:
            if own == "?":
                return {"sig": "reload-balance-unreadable", "what": "unreadable balance row"}
            got[(c, a)] = D(own)
            got_text[(c, a)] = own
        for k in sorted(set(got) | set(expected)):
            if got.get(k, D(0)) != expected.get(k, D(0)):
                if k[1] == eqa:
                    return {"sig": "carried-equity-account", "what": "equity account %s %r: re-loaded own sum %s, expected %s" % (k[1], k[0], got.get(k), expected.get(k))}
                return {"sig": "carried-balance", "what": "account %s %r: re-loaded own sum %s, source own sum %s" % (k[1], k[0], got.get(k), expected.get(k))}
        # text-exact (stored scale) for every carried account other than the equity account
        for c, g in groups:
            for r in g:
                if r[1] != eqa and got_text.get((c, r[1])) != r[2]:
                    return {"sig": "carried-balance-text", "what": "account %s %r: re-loaded own sum prints %s, source %s" % (r[1], c, got_text.get((c, r[1])), r[2])}
        return None

    def nontrivial(self, case, impl):
        if case.get("kind") == "bad_eqa":
            return True
        if not isinstance(impl, dict) or impl.get("r") != "OK":
            return False
        eq = (impl.get("out") or {}).get("equity") or {}
        if eq.get("r") != "OK":
            return False
        etx = parse_equity_text(eq["v"]) or []
        if not etx:
            return case.get("kind") in ("empty_sel", "filter_none", "all_zero")
        return len(etx) > 1 or len(etx[0]["posts"]) > 2 or bool(case.get("msel_equity")) or bool(case.get("filter")) \
            or any(w in etx[0]["comments"] for w in WARNING[1:2])

    def rule(self):
        return ("journal ASTs from gen/common.py (valid journals, 1-9 transactions, 1-4 commodities plus none, closing "
                "prices, small account pools so that sums combine), equity account from a pool incl. selected accounts "
                "and their parents/children, selector = none | one account | subset (exact names, regex-escaped), "
                "optional time-window filter with boundaries on transaction instants, audit on/off; class bad_eqa = equity "
                "account strings that are not account names (implementation only: must be a configuration error); "
                "boundary classes: "
                + ", ".join(BOUNDARY) + "; the export text is re-loaded by the implementation (second pass); "
                "non-trivial = the export has a transaction and (>=2 commodities | >=3 postings | selector | filter | "
                "WARNING block) or is a deliberate empty-export class; distinct = sha256 of the implementation case line")

    def trusted_base(self):
        return super().trusted_base() + [
            "modelled as parameters, not verified: account pattern matching (exact names on the model side, escaped "
            "regexes on the implementation side; C11), the metadata comment texts (computed by gen/c10.py with hashlib and "
            "compared with the implementation's lines; C09), the transaction filter (time window only; C05), "
            "the text grammar (the re-load of the export is done by the implementation; the theorems re-parse at the "
            "parse-tree level)",
            "balance-report text parser of gen/common.py (reads own sums of the source and of the re-loaded export)"]

    def assumptions(self):
        return ["numeric domain of C02: every account sum and commodity sum is exactly representable (model answers "
                "UNDEF otherwise; the oracle skips such cases)",
                "C02 facts used as hypotheses by equity_carries: own_sum (a balance row's own sum is the sum of the "
                "postings of its (commodity, account)), rows_nodup (one row per (commodity, account))",
                "the configured equity account is a syntactically valid account name (text level only)"]


PROP = C10()

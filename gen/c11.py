"""C11 — account selectors match whole account names and never alter remaining figures.

The plug-in is organised by *case family*; each family is a small handler object with the methods
`gen / impl_cases / join / model_case / compare / oracle / nontrivial`.  `PROP` dispatches on `case["fam"]`.
To add the row-filter half (balance / register / equity models) append a new handler class and register
it in `FAMILIES` (and its boundary kinds in `rule()`); nothing else needs to change.

Families present:
  rematch  op `rematch`: patterns x haystacks => plain search, full-haystack wrapper, regex set  (regex crate and
           tackler_rs::regex vs Model/Regex.lean; oracle: python `re` on a translation of the generated AST)
  peel     op `peel`: string => peel_full_haystack_pattern / into_full_haystack_pattern
  selrun   op `run` twice on the implementation (with the configured selectors / without any) and op `run` on the
           model with the same selector lists (`sel_*` keys: `Tackler.balanceBySel / registerBySel / equityBySel`, the
           definitions Part B of Props/C11.lean is about) plus the output kind `selects`:
           * tie: the model's balance rows and deltas, printed register entries, equity transactions and text are
             those of the implementation's selected run, row by row, figures text-exact (balance, equity) / by value
             (register, as C03 does); the model's selector predicate applied to the implementation's unselected rows
             gives the implementation's selected rows;
           * oracle (implementation only): selected run = unselected run filtered by python `fullmatch`, figures
             included; deltas of the selected balance = per-commodity sums of the listed own sums (Fractions), one
             line per commodity that still has a listed row; every equity transaction's balancing posting = minus the
             sum of its listed postings (absent iff that sum is zero).
"""
import re
import warnings
from fractions import Fraction as F

import common
from propbase import PropBase, model_cfg, cmp_status

warnings.simplefilter("ignore", FutureWarning)

JOBS = min(4, common.NCPU)

# ---------------------------------------------------------------------------------------------
# regex ASTs (python tuples), rendered to the regex crate's syntax and to python's

META = set("\\.+*?()|[]{}^$")
LIT_POOL = list("aaaabbc:xe") + list("yz019_- ") + ["é", "ö", "A", "]", "}", "#", "&", "~", "\n", ".", "*", "(", ")", "|",
                                                     "[", "^", "$", "\\", "+", "?", "{", "-", "\t"]
HAY_POOL = list("aabbc::xe") + list("yz019_- ") + ["é", "A", "]", "\n", ".", "^", "$", "٣"]
PERL = "dwsDWS"
PERL_PY = {"d": "0-9", "w": "0-9A-Za-z_", "s": "\\t\\n\\x0b\\x0c\\r "}


def g_lit(rng, names=None):
    return ("lit", rng.choice(LIT_POOL))


def g_class(rng):
    items = []
    for _ in range(rng.choice([1, 1, 2, 2, 3, 4])):
        r = rng.random()
        if r < 0.5:
            items.append(("c", rng.choice(LIT_POOL)))
        elif r < 0.8:
            lo, hi = sorted(rng.sample("abcdxyz019AZ:", 2))
            items.append(("r", lo, hi))
        else:
            items.append(("p", rng.choice(PERL)))
    return ("cls", rng.random() < 0.3, items)


def g_atom(rng, depth, st):
    r = rng.random()
    if r < 0.55:
        return g_lit(rng)
    if r < 0.65:
        return ("dot",)
    if r < 0.75:
        return g_class(rng)
    if r < 0.80:
        return ("perl", rng.choice(PERL))
    if r < 0.84:
        return ("bol",) if rng.random() < 0.5 else ("eol",)
    if depth > 0:
        return ("grp", g_alt(rng, depth - 1, st), rng.random() < 0.5)
    return g_lit(rng)


def g_piece(rng, depth, st):
    a = g_atom(rng, depth, st)
    n = 0
    while rng.random() < (0.3 if n == 0 else 0.12) and n < 2:
        op = rng.choice(["star", "star", "plus", "opt"])
        if op in ("star", "plus"):
            if st["stars"] >= 2:
                break
            st["stars"] += 1
        a = (op, a, rng.random() < 0.15)
        n += 1
    return a


def g_seq(rng, depth, st):
    return ("seq", [g_piece(rng, depth, st) for _ in range(rng.choice([0, 1, 1, 2, 2, 3, 4]))])


def g_alt(rng, depth, st):
    n = rng.choice([1, 1, 1, 2, 2, 3])
    return ("alt", [g_seq(rng, depth, st) for _ in range(n)])


def g_regex(rng, depth=2):
    return g_alt(rng, depth, {"stars": 0})


def lits(s):
    return ("alt", [("seq", [("lit", c) for c in s])])


def esc_rust_lit(c, rng=None):
    if c in META:
        return "\\" + c
    if c == "\n":
        return "\\n" if (rng is None or rng.random() < 0.6) else "\n"
    if c == "\t":
        return "\\t" if (rng is None or rng.random() < 0.6) else "\t"
    if rng is not None and c in ":-#&~ _" and rng.random() < 0.15:
        return "\\" + c        # superfluous escape of ASCII punctuation is allowed
    return c


def cls_rust(neg, items, rng=None):
    out = []
    for k, it in enumerate(items):
        if it[0] == "c":
            c = it[1]
            first, last = k == 0, k == len(items) - 1
            if c == "]" and first and rng is not None and rng.random() < 0.5:
                out.append("]")
            elif c == "-" and (first or last) and rng is not None and rng.random() < 0.5:
                out.append("-")
            elif c == "^" and not first and rng is not None and rng.random() < 0.5:
                out.append("^")
            elif c in "\\][^-&~":
                out.append("\\" + c)
            elif c == "\n":
                out.append("\\n")
            elif c == "\t":
                out.append("\\t")
            else:
                out.append(c)
        elif it[0] == "r":
            out.append(it[1] + "-" + it[2])
        else:
            out.append("\\" + it[1])
    return "[" + ("^" if neg else "") + "".join(out) + "]"


def r_rust(a, rng=None):
    t = a[0]
    if t == "lit":
        return esc_rust_lit(a[1], rng)
    if t == "dot":
        return "."
    if t == "cls":
        return cls_rust(a[1], a[2], rng)
    if t == "perl":
        return "\\" + a[1]
    if t == "bol":
        return "^"
    if t == "eol":
        return "$"
    if t == "grp":
        return ("(" if a[2] else "(?:") + r_rust(a[1], rng) + ")"
    if t in ("star", "plus", "opt"):
        op = {"star": "*", "plus": "+", "opt": "?"}[t]
        inner = a[1]
        s = r_rust(inner, rng)
        if inner[0] in ("star", "plus", "opt") and not inner[2] and t == "opt":
            s += "?"          # `a*?` would read as lazy: write `a*??` (opt of lazy star, same Boolean language)
        return s + op + ("?" if a[2] else "")
    if t == "seq":
        return "".join(r_rust(x, rng) for x in a[1])
    if t == "alt":
        return "|".join(r_rust(x, rng) for x in a[1])
    raise ValueError(t)


def item_py(it):
    if it[0] == "c":
        return "[" + re.escape(it[1]) + "]"
    if it[0] == "r":
        return "[" + re.escape(it[1]) + "-" + re.escape(it[2]) + "]"
    k = it[1]
    return "[" + ("^" if k.isupper() else "") + PERL_PY[k.lower()] + "]"


def r_py(a):
    t = a[0]
    if t == "lit":
        return re.escape(a[1])
    if t == "dot":
        return "[^\\n]"
    if t == "cls":
        pos = "(?:" + "|".join(item_py(it) for it in a[2]) + ")"
        return "(?:(?!" + pos + ")[\\s\\S])" if a[1] else pos
    if t == "perl":
        return item_py(("p", a[1]))
    if t == "bol":
        return "\\A"
    if t == "eol":
        return "\\Z"
    if t == "grp":
        return "(?:" + r_py(a[1]) + ")"
    if t in ("star", "plus", "opt"):
        return "(?:" + r_py(a[1]) + ")" + {"star": "*", "plus": "+", "opt": "?"}[t]
    if t == "seq":
        return "".join(r_py(x) for x in a[1])
    if t == "alt":
        return "(?:" + "|".join(r_py(x) for x in a[1]) + ")"
    raise ValueError(t)


def uses_perl(a):
    t = a[0]
    if t == "perl":
        return True
    if t == "cls":
        return any(it[0] == "p" for it in a[2])
    if t in ("grp", "star", "plus", "opt"):
        return uses_perl(a[1])
    if t in ("seq", "alt"):
        return any(uses_perl(x) for x in a[1])
    return False


def item_test(it, c):
    if it[0] == "c":
        return c == it[1]
    if it[0] == "r":
        return it[1] <= c <= it[2]
    return re.fullmatch(item_py(it), c) is not None


def sample(a, rng):
    """a string that probably matches"""
    t = a[0]
    if t == "lit":
        return a[1]
    if t == "dot":
        return rng.choice([c for c in HAY_POOL if c != "\n"])
    if t == "cls" or t == "perl":
        items = a[2] if t == "cls" else [("p", a[1])]
        neg = a[1] if t == "cls" else False
        for _ in range(12):
            it = rng.choice(items)
            if not neg:
                if it[0] == "c":
                    return it[1]
                if it[0] == "r":
                    return chr(rng.randrange(ord(it[1]), ord(it[2]) + 1))
            c = rng.choice(HAY_POOL + list("0 _\t"))
            if any(item_test(i, c) for i in items) != neg:
                return c
        return "q"
    if t in ("bol", "eol"):
        return ""
    if t == "grp":
        return sample(a[1], rng)
    if t == "star":
        return "".join(sample(a[1], rng) for _ in range(rng.choice([0, 1, 2, 3])))
    if t == "plus":
        return "".join(sample(a[1], rng) for _ in range(rng.choice([1, 1, 2, 3])))
    if t == "opt":
        return sample(a[1], rng) if rng.random() < 0.5 else ""
    if t == "seq":
        return "".join(sample(x, rng) for x in a[1])
    if t == "alt":
        return sample(rng.choice(a[1]), rng)
    raise ValueError(t)


def haystacks(rng, asts, extra=()):
    hs = ["", "a:b", "a:b:c"]
    hs.extend(extra)
    for a in asts:
        for _ in range(3):
            m = sample(a, rng)[:12]
            hs.append(m)
            x, y = rng.choice(HAY_POOL), rng.choice(HAY_POOL)
            hs.extend([x + m, m + y, x + m + y, m + "\n", "\n" + m])
            if m:
                i = rng.randrange(len(m))
                hs.append(m[:i] + m[i + 1:])                       # near miss: one char deleted
                hs.append(m[:i] + rng.choice(HAY_POOL) + m[i + 1:])  # one char replaced
                hs.append(m[:i] + rng.choice(HAY_POOL) + m[i:])      # one char inserted
                hs.append(m[1:])
                hs.append(m[:-1])
    seen, out = set(), []
    for h in hs:
        h = h[:14]
        if h not in seen:
            seen.add(h)
            out.append(h)
    return out[:40]


# ---------------------------------------------------------------------------------------------
# family: rematch

OUTSIDE = ["(?x)a # c", "a{2}", "a{1,2}", "(?i)a", "\\bfoo", "[[:alpha:]]", "\\pL", "(?P<n>a)", "(?<n>a)", "\\x41",
           "[a&&b]", "[a--b]", "\\Aa\\z", "(?m)^a$", "(?s).", "[a-z&&[^b]]", "\\u{41}", "a{,2}", "(?-u:\\w)", "[\\d-a]",
           "[a-z-9]", "[a&b]", "[~a]", "[--a]"]
INVALID = ["a(", "*a", "a)", "[a", "a\\", "(?:", "a|*", "(*)", "[z-a]", "\\e", "a{", "(?", "\\<x", "[]", "[^]", "+", "a(?"]
UNBAL = ["a)|(?:b", "a)(?:b", ")(", "a:b)|(?:c", ".*)|(?:x"]


class Rematch:
    fam = "rematch"

    def mk(self, kind, pats, hays, asts=None, lit=None):
        c = {"fam": "rematch", "op": "rematch", "kind": kind, "pats": pats, "hays": hays}
        if asts is not None:
            c["py"] = [r_py(a) if a is not None else None for a in asts]
            c["perl"] = [uses_perl(a) if a is not None else False for a in asts]
        if lit is not None:
            c["lit"] = lit
        return c

    def gen(self, rng, tier):
        out = []
        n = 700 if tier == "quick" else 30000
        k = 30 if tier == "quick" else 600
        # boundary classes
        for _ in range(k):          # pattern = proper prefix / suffix / infix of an account name
            name = common.gen_account(rng, 4)
            i = rng.randrange(0, len(name))
            j = rng.randrange(i, len(name) + 1)
            part = rng.choice([name[:j], name[i:], name[i:j], name])
            a = lits(part)
            hs = [name, part, name + ":x", "x:" + name, name[:-1], name[1:], "", name + "\n"]
            out.append(self.mk("literal-part", [r_rust(a)], hs, [a], lit=[part]))
        for _ in range(k):          # own anchors
            a = g_regex(rng, 1)
            b = ("alt", [("seq", [("bol",), ("grp", a, False), ("eol",)])])
            c = ("alt", [("seq", [("bol",)] + a[1][0][1] + [("eol",)])] + a[1][1:])
            out.append(self.mk("own-anchors", [r_rust(b, rng), r_rust(c, rng)], haystacks(rng, [a]), [b, c]))
        for _ in range(k):          # top-level alternation (the reason for the group)
            a = ("alt", [g_seq(rng, 1, {"stars": 0}) for _ in range(rng.choice([2, 2, 3]))])
            out.append(self.mk("top-alt", [r_rust(a, rng)], haystacks(rng, [a]), [a]))
        for _ in range(k):          # patterns containing the wrapper text
            a = g_regex(rng, 1)
            p = r_rust(a, rng)
            w = "^(?:" + p + ")$"
            ww = "^(?:" + w + ")$"
            wa = ("alt", [("seq", [("bol",), ("grp", a, False), ("eol",)])])
            wwa = ("alt", [("seq", [("bol",), ("grp", wa, False), ("eol",)])])
            out.append(self.mk("wrapper-text", [w, ww, "^(?:" + p, p + ")$"], haystacks(rng, [a]), [wa, wwa, None, None]))
        for _ in range(k):          # .*
            name = common.gen_account(rng, 4)
            pre = name.split(":")[0]
            asts = [("alt", [("seq", [("star", ("dot",), False)])]),
                    ("alt", [("seq", [("lit", c) for c in pre] + [("star", ("dot",), rng.random() < 0.3)])]),
                    ("alt", [("seq", [("star", ("dot",), False), ("lit", ":")] + [("lit", c) for c in name.split(":")[-1]])])]
            hs = [name, pre, name + "\n", "\n" + name, "x" + name, name + "x", "", "a\nb", pre + ":"]
            out.append(self.mk("dotstar", [r_rust(a) for a in asts], hs, asts))
        for _ in range(max(3, k // 10)):   # the empty pattern
            out.append(self.mk("empty", [""], ["", "a", "\n", "a:b"], [("alt", [("seq", [])])]))
        for p in OUTSIDE:
            out.append(self.mk("outside-subset", [p], ["a", "aa", "a # c", "foo", "A", ""]))
        for p in INVALID:
            out.append(self.mk("invalid", [p], ["a", ""]))
        for p in UNBAL:
            out.append(self.mk("unbalanced", [p], ["a", "b", "ax", "xb", "a:b", "c", "a:bx", "x", ""]))
        # random structured
        for _ in range(n):
            asts = [g_regex(rng, rng.choice([0, 1, 2, 2])) for _ in range(rng.choice([1, 1, 2, 3]))]
            out.append(self.mk("random", [r_rust(a, rng) for a in asts], haystacks(rng, asts), asts))
        # text mutations of rendered patterns: exercises the lexer/parser against the crate's (no python oracle)
        for _ in range(n // 3):
            p = r_rust(g_regex(rng, 2), rng)
            for _ in range(rng.choice([1, 1, 2])):
                i = rng.randrange(len(p) + 1)
                r = rng.random()
                ch = rng.choice(list("()[]|*+?^$\\{}-&~.:a\n]]--^^"))
                if r < 0.4:
                    p = p[:i] + ch + p[i:]
                elif r < 0.7 and p:
                    p = p[:i] + p[i + 1:]
                else:
                    p = p[:i] + ch + p[i + 1:]
            out.append(self.mk("text-mutation", [p], ["", "a", "a:b", "ab", "-", "^", "]", "a\n", "b", "x"]))
        return out

    def impl_cases(self, case):
        return [{"op": "rematch", "pats": case["pats"], "hays": case["hays"]}]

    def join(self, case, answers):
        return answers[0]

    def model_case(self, case):
        return {"op": "rematch", "pats": case["pats"], "hays": case["hays"]}

    def compare(self, case, impl, model):
        if impl.get("r") != "OK" or model.get("r") != "OK":
            return "driver problem: impl=%s model=%s" % (impl.get("r"), model.get("r"))
        compared = 0
        for i, p in enumerate(case["pats"]):
            a, b = impl["per"][i], model["per"][i]
            if b.get("pw") is False:
                return "ParseWrap fails in the model for %r" % p
            for key in ("plain", "full"):
                if b[key] == "UNDEF":
                    continue
                if a[key] == "BADRE":
                    return "%s: model accepts %r, the regex crate rejects it" % (key, p)
                for h, x, y in zip(case["hays"], a[key], b[key]):
                    if y is None:
                        continue
                    compared += 1
                    if x != y:
                        return "%s match differs for pattern %r haystack %r: impl=%s model=%s" % (key, p, h, x, y)
            if a.get("wrapped") is not None:
                if a["wrapped"] != b.get("wrapped"):
                    return "wrapped text differs: impl=%r model=%r" % (a["wrapped"], b.get("wrapped"))
                if a["peeled"] != b.get("peeled"):
                    return "peeled text differs: impl=%r model=%r" % (a["peeled"], b.get("peeled"))
        if model["set"] != "UNDEF":
            if impl["set"] == "BADRE":
                return "set: model accepts %r, the regex crate rejects it" % (case["pats"],)
            for h, x, y in zip(case["hays"], impl["set"], model["set"]):
                if y is None:
                    continue
                compared += 1
                if x != y:
                    return "set match differs for %r haystack %r: impl=%s model=%s" % (case["pats"], h, x, y)
            if impl.get("set_peeled") != model.get("set_peeled"):
                return "peeled_patterns differ: impl=%r model=%r" % (impl.get("set_peeled"), model.get("set_peeled"))
        return None if compared else "skip"

    def oracle(self, case, impl):
        if impl.get("r") != "OK":
            return {"sig": "rematch-driver", "what": "harness answered %s" % impl.get("r")}
        hays = case["hays"]
        fulls = []
        for i, p in enumerate(case["pats"]):
            a = impl["per"][i]
            py = (case.get("py") or [None] * len(case["pats"]))[i]
            perl = (case.get("perl") or [False] * len(case["pats"]))[i]
            fulls.append(a["full"])
            if a["plain"] != "BADRE" and a["full"] == "BADRE":
                xc = re.search(r"\(\?[a-zA-Z-]*x", p) is not None and "#" in p
                return {"sig": "F16:valid-alone-rejected-wrapped" + (":x-comment" if xc else ""),
                        "what": "selector %r is a valid regular expression but its full-haystack form is rejected" % p}
            if a["full"] != "BADRE":
                if a["wrapped"] != "^(?:" + p + ")$":
                    return {"sig": "wrap-text", "what": "wrapped pattern of %r is %r" % (p, a["wrapped"])}
                if a["peeled"] != p:
                    return {"sig": "peel-wrap", "what": "peel(wrap(%r)) = %r" % (p, a["peeled"])}
            if py is not None:
                if a["plain"] == "BADRE" or a["full"] == "BADRE":
                    return {"sig": "subset-pattern-rejected", "what": "generated subset pattern %r rejected by the crate" % p}
                cre = re.compile(py)
                for h, x, y in zip(hays, a["plain"], a["full"]):
                    if perl and not h.isascii():
                        continue
                    ex, ey = cre.search(h) is not None, cre.fullmatch(h) is not None
                    if x != ex:
                        return {"sig": "search-semantics", "what": "Regex::new(%r).is_match(%r) = %s, python %r says %s" % (p, h, x, py, ex)}
                    if y != ey:
                        return {"sig": "not-whole-match" if y and not ey else "whole-match-missed",
                                "what": "full-haystack %r on %r = %s, python fullmatch(%r) says %s" % (p, h, y, py, ey)}
            if a["plain"] != "BADRE" and a["full"] != "BADRE":
                for h, x, y in zip(hays, a["plain"], a["full"]):
                    if y and not x:
                        return {"sig": "full-without-search", "what": "%r: full-haystack match on %r without a plain match" % (p, h)}
            if case.get("lit") and a["full"] != "BADRE":
                lit = case["lit"][i]
                for h, y in zip(hays, a["full"]):
                    if y != (h == lit):
                        return {"sig": "literal-substring" if y else "literal-missed",
                                "what": "literal selector %r on account %r: %s" % (lit, h, y)}
        if impl["set"] != "BADRE" and all(f != "BADRE" for f in fulls):
            for k, h in enumerate(hays):
                if impl["set"][k] != any(f[k] for f in fulls):
                    return {"sig": "set-any", "what": "regex set %r on %r: %s, members %s" % (case["pats"], h, impl["set"][k], [f[k] for f in fulls])}
            if impl.get("set_peeled") != case["pats"]:
                return {"sig": "peel-wrap-set", "what": "peeled_patterns = %r for %r" % (impl.get("set_peeled"), case["pats"])}
        return None

    def nontrivial(self, case, impl):
        if impl.get("r") != "OK":
            return False
        for a in impl["per"]:
            if a["plain"] != "BADRE" and a["full"] != "BADRE":
                if any(x and not y for x, y in zip(a["plain"], a["full"])) and any(a["full"]):
                    return True
        return False


# ---------------------------------------------------------------------------------------------
# family: peel

class Peel:
    fam = "peel"

    def gen(self, rng, tier):
        out = []
        fixed = ["abc", ".*", "(.*)", "^(?:.*)", "(.*)$", "^(?:.*)$", "^(?:^(?:o.a)$)$", "^(?:)$", "^(?:", ")$", "^(?:)",
                 "^(?:a)$b", "x^(?:a)$", "^(?:a)$)$", "^(?:^(?:a)$", "", "^(?:a\n)$", "^(?:é)$", "^(?:)$)$", "^(?)$"]
        for s in fixed:
            out.append({"fam": "peel", "op": "peel", "kind": "peel-fixed", "s": s})
        for _ in range(80 if tier == "quick" else 3000):
            p = r_rust(g_regex(rng, 1), rng)
            r = rng.random()
            if r < 0.3:
                s = "^(?:" + p + ")$"
            elif r < 0.45:
                s = "^(?:" + "^(?:" + p + ")$" + ")$"
            elif r < 0.6:
                s = "^(?:" + p
            elif r < 0.75:
                s = p + ")$"
            elif r < 0.85:
                s = "^(?:" + p + ")$" + rng.choice(["x", "$", ")"])
            else:
                s = p
            out.append({"fam": "peel", "op": "peel", "kind": "peel-random", "s": s})
        return out

    def impl_cases(self, case):
        return [{"op": "peel", "s": case["s"]}]

    def join(self, case, answers):
        return answers[0]

    def model_case(self, case):
        return {"op": "peel", "s": case["s"]}

    def compare(self, case, impl, model):
        if model.get("r") != "OK":
            return "driver problem: model=%s" % model.get("r")
        n = 0
        if impl.get("wrapped") is not None:
            n += 1
            if impl["wrapped"] != model["wrapped"]:
                return "wrapped differs: impl=%r model=%r" % (impl["wrapped"], model["wrapped"])
        if impl.get("r") == "OK":
            n += 1
            if impl["peeled"] != model["peeled"]:
                return "peeled differs for %r: impl=%r model=%r" % (case["s"], impl["peeled"], model["peeled"])
            if impl.get("set_peeled") not in (None, [model["peeled"]]):
                return "peeled_patterns differs for %r: impl=%r model=%r" % (case["s"], impl["set_peeled"], model["peeled"])
        return None if n else "skip"

    def oracle(self, case, impl):
        s = case["s"]
        if impl.get("wrapped") is not None and impl["wrapped"] != "^(?:" + s + ")$":
            return {"sig": "wrap-text", "what": "wrapped pattern of %r is %r" % (s, impl["wrapped"])}
        if impl.get("r") == "OK":
            exp = s[4:-2] if (s.startswith("^(?:") and s[4:].endswith(")$")) else s
            if impl["peeled"] != exp:
                return {"sig": "peel", "what": "peel(%r) = %r, expected %r" % (s, impl["peeled"], exp)}
        return None

    def nontrivial(self, case, impl):
        return impl.get("r") == "OK" and case["s"].startswith("^(?:")


# ---------------------------------------------------------------------------------------------
# family: selrun — the reports use the whole-name selector and list exactly the selected rows

REPORTS = ["balance", "register", "equity"]
# the balance-group report is judged by the python oracle only (rows per group; a group left without rows is omitted)
ALL_REPORTS = REPORTS + ["balgrp"]
GROUPED = ("register", "balgrp")
EQUITY_ACCOUNT = "Equity:Balance"


def parse_register_report(text, title="REGISTER"):
    """-> [(header line, [(acct, amount, total, comm)])]; journals of this family carry no txn metadata/comments"""
    lines = text.split("\n")
    try:
        i = lines.index(title)
    except ValueError:
        return None
    entries = []
    for ln in lines[i + 2:]:
        if ln == "" or set(ln) == {"-"}:
            continue
        if ln.startswith(" " * 12) and len(ln) > 12 and ln[12] != " ":
            tok = ln.split()
            row = (tok[0], tok[1], tok[2], tok[3] if len(tok) > 3 else "") if len(tok) in (3, 4) else ("?", ln, "?", "?")
            if not entries:
                return None
            entries[-1][1].append(row)
        else:
            entries.append((ln, []))
    return entries


def parse_equity_export(text, equity_account=EQUITY_ACCOUNT):
    """-> [(comm, acct, amount)] of the carried-forward postings (the balancing equity posting is left out)"""
    rows = []
    for ln in text.split("\n"):
        if not ln.startswith("   ") or ln.strip().startswith(";") or ln.strip() == "":
            continue
        tok = ln.split()
        if tok[0] == equity_account:
            continue
        if len(tok) == 2:
            rows.append(("", tok[0], tok[1]))
        elif len(tok) == 3:
            rows.append((tok[2], tok[0], tok[1]))
        else:
            rows.append(("?", ln, "?"))
    return rows


def num(s):
    """figures are compared by value: the stored scale of a sum depends on hash-map order (F8, C04's business)"""
    try:
        return common.dec_norm(s)
    except Exception:
        return "?" + s


def rows_of(report, out, eqa=None):
    """canonical rows of one output of op run; None when the output is not OK.  Equity: the postings to the configured
    equity account `eqa` (the balancing posting, and the account's own carried row when it is a journal account) are left
    out here; `oracle_rows_from_postings` judges them exactly"""
    o = out.get(report)
    if not o or o.get("r") != "OK":
        return None
    if report == "balance":
        pr = common.parse_balance_report(o["v"])
        return [] if pr is None else [(r[0], r[1], num(r[2]), num(r[3])) for r in pr[0]]
    if report == "register":
        es = parse_register_report(o["v"])
        return None if es is None else [(h, [(p[0], num(p[1]), num(p[2]), p[3]) for p in ps]) for h, ps in es]
    if report == "balgrp":
        gs = common.parse_balgrp_report(o["v"])
        if gs is None:
            return []
        return [(g["title"], [(r[1], num(r[2]), num(r[3]), r[0]) for r in g["rows"]]) for g in gs]
    return [(r[0], r[1], num(r[2])) for r in parse_equity_export(o["v"], eqa or EQUITY_ACCOUNT)]


def filter_rows(report, rows, pred):
    """the rows a report lists when `pred(account)` is the selector"""
    if report in GROUPED:
        out = []
        for hdr, posts in rows:
            keep = [p for p in posts if pred(p[0])]
            if keep:
                out.append((hdr, keep))
        return out
    return [r for r in rows if pred(r[1])]


def row_accounts(report, rows):
    if report in GROUPED:
        return [p[0] for _, posts in rows for p in posts]
    return [r[1] for r in rows]


def eff_sel(cfg, report):
    own = cfg.get("sel_" + report)
    if own is not None:
        return own
    g = cfg.get("sel_global")
    return g if g is not None else []


SEL_KEYS = ["sel_balance", "sel_balgrp", "sel_register", "sel_equity", "sel_global"]


def parse_equity_txns(text):
    """-> [(header line, [comment texts], [(acct, amount, comm)])], or None when a line has an unexpected shape"""
    if text == "":
        return []
    if not text.endswith("\n"):
        return None
    out, cur = [], None
    for ln in text[:-1].split("\n"):
        if cur is None:
            if ln == "" or ln.startswith(" "):
                return None
            cur = (ln, [], [])
        elif ln == "":
            out.append(cur)
            cur = None
        elif ln.startswith("   ; "):
            cur[1].append(ln[5:])
        elif ln.startswith("   ") and len(ln) > 3 and ln[3] != " ":
            tok = ln.split()
            if len(tok) == 2:
                cur[2].append((tok[0], tok[1], ""))
            elif len(tok) == 3:
                cur[2].append((tok[0], tok[1], tok[2]))
            else:
                return None
        else:
            return None
    return None if cur is not None else out


def out_of(ans, rep):
    return ((ans or {}).get("out") or {}).get(rep) or {}


# ---- row-filter half, implementation-only oracles (appended to SelRun.extra_oracles)

def oracle_deltas(case, impl):
    """the delta lines of the selected balance report are recomputed over the listed rows: one line per commodity
    that still has a listed row, each the exact sum of the listed rows' own sums"""
    o = out_of(impl["sel"], "balance")
    if o.get("r") != "OK":
        return None
    pr = common.parse_balance_report(o["v"])
    rows, deltas = pr if pr is not None else ([], [])
    try:
        comms = sorted({r[0] for r in rows})
        if [d[0] for d in deltas] != comms:
            return {"sig": "delta-set", "what": "balance with selectors %r: delta lines for commodities %s, listed rows have %s" % (
                eff_sel(case["cfg"], "balance"), [d[0] for d in deltas], comms)}
        for c, v in deltas:
            e = sum((F(r[2]) for r in rows if r[0] == c), F(0))
            if F(v) != e:
                return {"sig": "delta-sum", "what": "balance with selectors %r: delta of %r is %s, the listed own sums add to %s" % (
                    eff_sel(case["cfg"], "balance"), c, v, e)}
    except (ValueError, ZeroDivisionError):
        return {"sig": "balance-unparsable", "what": "balance report cannot be parsed: %r" % o["v"][:300]}
    return None


def oracle_equity_balancing(case, impl):
    """every equity transaction is in one commodity; its balancing posting (the equity account) is minus the exact
    sum of the listed postings, and is absent exactly when that sum is zero"""
    o = out_of(impl["sel"], "equity")
    if o.get("r") != "OK":
        return None
    txs = parse_equity_txns(o["v"])
    if txs is None:
        return {"sig": "equity-shape", "what": "equity export has an unexpected line shape: %r" % o["v"][:300]}
    eqa = case["cfg"].get("equity_account", EQUITY_ACCOUNT)
    if eqa in (case.get("names") or []):
        # the equity account is itself an account of the journal: a posting to it may be its own carried row;
        # `oracle_rows_from_postings` judges those exports posting by posting
        return None
    try:
        for hdr, _, posts in txs:
            listed = [p for p in posts if p[0] != eqa]
            bal = [p for p in posts if p[0] == eqa]
            if not listed:
                return {"sig": "equity-empty-txn", "what": "equity transaction %r without a carried-forward posting" % hdr}
            if len({p[2] for p in posts}) != 1:
                return {"sig": "equity-mixed-commodity", "what": "equity transaction %r mixes commodities" % hdr}
            tot = sum((F(p[1]) for p in listed), F(0))
            if tot == 0:
                if bal:
                    return {"sig": "equity-balancing", "what": "%r: listed postings cancel but there is a balancing posting %s" % (hdr, bal)}
            elif len(bal) != 1 or posts[-1] != bal[0] or F(bal[0][1]) != -tot:
                return {"sig": "equity-balancing", "what": "%r: listed postings add to %s, balancing postings %s" % (hdr, tot, bal)}
    except (ValueError, ZeroDivisionError):
        return {"sig": "equity-shape", "what": "equity export amount cannot be parsed: %r" % o["v"][:300]}
    return None


def py_pred(case, rep):
    """the whole-name selector of report `rep` as a python predicate; None when python `re` cannot judge it"""
    pats = eff_sel(case["cfg"], rep)
    if not pats:
        return lambda acct: True
    if any(case["perl"].get(p) for p in pats) and not all(n.isascii() for n in case["names"]):
        return None
    cres = [re.compile(case["py"][p]) for p in pats]
    return lambda acct: any(c.fullmatch(acct) is not None for c in cres)


def oracle_rows_from_postings(case, impl):
    """rows judged against the journal itself, not against the unselected run of the same program:
    * register: every posting of the journal to a selected account is one row (so two postings of one transaction to
      the same account are two rows), per account;
    * equity: per commodity the postings are exactly the selected accounts with a non-zero own sum in the *balance
      report of the unselected run* (the configured equity account included when it is one of them), in that order,
      followed by the balancing posting iff they do not cancel."""
    txns = case.get("txns")
    if txns is None:
        return None
    # -- register
    pred = py_pred(case, "register")
    o = out_of(impl["sel"], "register")
    if pred is not None and o.get("r") == "OK":
        es = parse_register_report(o["v"])
        if es is not None:
            want = {}
            for t in txns:
                for p in t["posts"] + ([t["last"]] if t.get("last") else []):
                    if pred(p["acct"]):
                        want[p["acct"]] = want.get(p["acct"], 0) + 1
            got = {}
            for _, posts in es:
                for p in posts:
                    got[p[0]] = got.get(p[0], 0) + 1
            if got != want:
                diff = {a: (got.get(a, 0), want.get(a, 0)) for a in set(got) | set(want) if got.get(a, 0) != want.get(a, 0)}
                return {"sig": "register-rows-vs-postings",
                        "what": "register with selectors %r: rows per account differ from the journal's postings (listed, posted): %s" % (
                            eff_sel(case["cfg"], "register"), dict(sorted(diff.items())[:6]))}
    # -- equity
    pred = py_pred(case, "equity")
    o = out_of(impl["sel"], "equity")
    bal = out_of(impl["all"], "balance")
    if pred is not None and o.get("r") == "OK" and bal.get("r") == "OK":
        pr = common.parse_balance_report(bal["v"])
        got = parse_equity_txns(o["v"])
        if pr is not None and got is not None:
            eqa = case["cfg"].get("equity_account", EQUITY_ACCOUNT)
            exp = []
            try:
                for c in sorted({r[0] for r in pr[0]}):
                    listed = [(r[1], F(r[2])) for r in pr[0] if r[0] == c and F(r[2]) != 0 and pred(r[1])]
                    if not listed:
                        continue
                    tot = sum((v for _, v in listed), F(0))
                    posts = [(a, v, c) for a, v in listed] + ([(eqa, -tot, c)] if tot != 0 else [])
                    exp.append(posts)
                gotp = [[(p[0], F(p[1]), p[2]) for p in posts] for _, _, posts in got]
            except (ValueError, ZeroDivisionError):
                return None
            if gotp != exp:
                return {"sig": "equity-rows-vs-balance",
                        "what": "equity with selectors %r, equity account %r: postings %s; the selected non-zero rows of the balance "
                                "report (plus balancing) are %s" % (eff_sel(case["cfg"], "equity"), eqa,
                                                                     [[(a, str(v), c) for a, v, c in t] for t in gotp][:4],
                                                                     [[(a, str(v), c) for a, v, c in t] for t in exp][:4])}
    return None


# ---- row-filter half, tie (appended to SelRun.extra_compares): None = agree, "skip", or a message

def status_pair(rep, a, b):
    """common prefix of the three comparisons: ('skip' | message | None = both OK, go on | 'same' = same non-OK status)"""
    if not b or b.get("r") in (None, "NOMODEL", "BADCASE"):
        return "driver problem: model output %s = %s" % (rep, b)
    if b.get("r") == "UNDEF":
        return "skip"
    if a.get("r") != b.get("r"):
        return "%s status with selectors: impl=%s model=%s (%s)" % (rep, a.get("r"), b.get("r"), str(a.get("msg"))[:200])
    return None if a.get("r") == "OK" else "same"


def cmp_balance(case, impl, model):
    a, b = out_of(impl["sel"], "balance"), out_of(model, "balance")
    st = status_pair("balance", a, b)
    if st is not None:
        return None if st == "same" else st
    pr = common.parse_balance_report(a["v"])
    if pr is None:
        return "balance report without title: %r" % a["v"][:300]
    rows, deltas = [tuple(r) for r in pr[0]], [tuple(d) for d in pr[1]]
    mrows, mdeltas = [tuple(r) for r in b["v"]["rows"]], [tuple(d) for d in b["v"]["deltas"]]
    sel = eff_sel(case["cfg"], "balance")
    if rows != mrows:
        for i, (x, y) in enumerate(zip(rows, mrows)):
            if x != y:
                return "balance with selectors %r: row %d differs: impl=%s model=%s" % (sel, i, x, y)
        return "balance with selectors %r: impl lists %d rows, model %d" % (sel, len(rows), len(mrows))
    if deltas != mdeltas:
        return "balance with selectors %r: deltas differ: impl=%s model=%s" % (sel, deltas, mdeltas)
    return None


def cmp_register(case, impl, model):
    a, b = out_of(impl["sel"], "register"), out_of(model, "register")
    st = status_pair("register", a, b)
    if st is not None:
        return None if st == "same" else st
    es = common.parse_register_report(a["v"])
    if es is None:
        return "register report without title: %r" % a["v"][:300]
    io = []
    for e in es:
        if e.get("garbled") is not None or e["ts"] is None or any(r[1] == "?" for r in e["rows"]):
            return "unreadable register entry: %s" % str(e)[:300]
        io.append({"ns": common.register_ts_ns(e["ts"]), "code": e["code"], "desc": e["desc"], "uuid": e["uuid"],
                   "rows": [(x, num(v), num(t), c) for x, v, t, c in e["rows"]]})
    mo = [{"ns": int(e["ns"]), "code": e["code"], "desc": e["desc"], "uuid": e["uuid"],
           "rows": [(x, num(v), num(t), c) for x, v, t, c in e["rows"]]} for e in b["v"]]
    sel = eff_sel(case["cfg"], "register")
    if len(io) != len(mo):
        return "register with selectors %r: %d entries printed, model has %d" % (sel, len(io), len(mo))
    for k, (x, y) in enumerate(zip(io, mo)):
        if x != y:
            return "register with selectors %r: entry %d differs: impl=%s model=%s" % (sel, k, str(x)[:400], str(y)[:400])
    return None


def cmp_equity(case, impl, model):
    a, b = out_of(impl["sel"], "equity"), out_of(model, "equity")
    st = status_pair("equity", a, b)
    if st is not None:
        return None if st == "same" else st
    got = parse_equity_txns(a["v"])
    if got is None:
        return "equity export has an unexpected line shape: %r" % a["v"][:300]
    want = b["v"]["txns"]
    sel = eff_sel(case["cfg"], "equity")
    if len(got) != len(want):
        return "equity with selectors %r: %d transactions written, model has %d" % (sel, len(got), len(want))
    for (hdr, comments, posts), w in zip(got, want):
        if [list(p) for p in posts] != w["posts"]:
            return "equity with selectors %r: postings of %r differ: impl=%s model=%s" % (sel, hdr, posts, w["posts"])
        if not hdr.endswith(" '" + w["desc"]) or comments != w["comments"]:
            return "equity with selectors %r: header/comments differ: impl=%r %s model=%r %s" % (sel, hdr, comments, w["desc"], w["comments"])
    if b["v"].get("text") is not None and b["v"]["text"] != a["v"]:
        return "equity with selectors %r: text differs: impl=%r model=%r" % (sel, a["v"][:500], b["v"]["text"][:500])
    return None


class Pats:
    """pattern texts of one case with their python translations"""

    def __init__(self, rng):
        self.rng, self.py, self.perl = rng, {}, {}

    def add(self, ast, plain=False):
        p = r_rust(ast, None if plain else self.rng)
        self.py[p] = r_py(ast)
        self.perl[p] = uses_perl(ast)
        return p


def lit_items(s):
    return [("lit", c) for c in s]


def seq1(items):
    return ("alt", [("seq", items)])


DOTSTAR = ("star", ("dot",), False)


class SelRun:
    fam = "selrun"
    # row checks of the oracle / the tie beyond "which rows are listed": figures, deltas, balancing postings
    extra_oracles = [oracle_deltas, oracle_equity_balancing, oracle_rows_from_postings]
    extra_compares = [cmp_balance, cmp_register, cmp_equity]

    def sel_pattern(self, rng, accounts):
        """(kind, ast) of a selector derived from the journal's accounts"""
        name = rng.choice(accounts)
        parts = name.split(":")
        r = rng.random()
        if r < 0.14:
            return "exact", lits(name)
        if r < 0.34:
            i = rng.randrange(0, len(name))
            j = rng.randrange(i, len(name) + 1)
            return "name-part", lits(rng.choice([name[:j] or name, name[i:], name[i:j] or name]))
        if r < 0.46:
            pre = ":".join(parts[:rng.randrange(1, len(parts) + 1)])
            return "prefix-dotstar", ("alt", [("seq", [("lit", c) for c in pre] + [("star", ("dot",), False)])])
        if r < 0.54:
            return "dotstar-leaf", ("alt", [("seq", [("star", ("dot",), False), ("lit", ":")] + [("lit", c) for c in parts[-1]])])
        if r < 0.66:
            other = rng.choice(accounts)
            return "top-alt", ("alt", [("seq", [("lit", c) for c in name]), ("seq", [("lit", c) for c in other[:rng.randrange(1, len(other) + 1)]])])
        if r < 0.74:
            return "own-anchors", ("alt", [("seq", [("bol",)] + [("lit", c) for c in name] + [("eol",)])])
        if r < 0.79:
            return "dotstar", ("alt", [("seq", [("star", ("dot",), False)])])
        if r < 0.82:
            return "empty", ("alt", [("seq", [])])
        if r < 0.90:
            w = ("alt", [("seq", [("bol",), ("grp", lits(name), False), ("eol",)])])
            return "wrapper-text", w
        return "random", g_regex(rng, 1)

    # ---- journals with a known account tree (boundary classes of the row-filter half)

    def tree_txn(self, rng, cfg, legs, comm, closer):
        h = common.gen_header(rng, cfg, {"p_code": 0.2, "p_desc": 0.3, "p_uuid": 0.0, "p_loc": 0.0, "p_tags": 0.0,
                                         "p_comments": 0.0})
        unit = {"comm": comm, "opening": None, "closing": None} if comm else None
        posts, tot = [], common.D(0)
        for a, amt in legs:
            posts.append({"acct": a, "amount": amt, "unit": unit, "comment": None})
            tot += common.D(amt)
        if tot == 0:                # the amount-less last posting must not be zero
            posts[0]["amount"] = common.fmt_dec(common.D(posts[0]["amount"]) + 1)
        t = dict(h)
        t["posts"] = posts
        t["last"] = {"acct": closer, "comment": None}
        return t

    def tree_journal(self, rng, cfg, by_comm, cancel=()):
        """by_comm: [(commodity, [accounts], closer)]: every account is posted to at least once in that commodity;
        cancel: (commodity, account) pairs whose postings must add to zero"""
        txns = []
        for comm, accts, closer in by_comm:
            todo = list(accts)
            rng.shuffle(todo)
            while todo:
                k = rng.choice([1, 2, 3])
                legs, todo = todo[:k], todo[k:]
                txns.append(self.tree_txn(rng, cfg, [(a, common.gen_amount_text(rng)) for a in legs], comm, closer))
            for _ in range(rng.choice([0, 1, 2])):
                legs = rng.sample(accts, min(len(accts), rng.choice([1, 2])))
                txns.append(self.tree_txn(rng, cfg, [(a, common.gen_amount_text(rng)) for a in legs], comm, closer))
        for comm, acct in cancel:
            tot = sum((common.D(p["amount"]) for t in txns for p in t["posts"]
                       if p["acct"] == acct and ((p["unit"] or {}).get("comm", "") == comm)), common.D(0))
            closer = [c for cm, _, c in by_comm if cm == comm][0]
            if tot != 0:
                txns.append(self.tree_txn(rng, cfg, [(acct, common.fmt_dec(-tot))], comm, closer))
        rng.shuffle(txns)
        return txns

    def tree(self, rng):
        """a small account tree: parent P with children, a sibling sharing P as a string prefix, another root"""
        root = rng.choice(common.ROOT_PARTS)
        par = root + ":" + rng.choice(common.ACCT_PARTS)
        kids = [par + ":" + x for x in rng.sample(common.ACCT_PARTS, 2)]
        sib = par + rng.choice(["c", "x", "2"])
        other = rng.choice([r for r in common.ROOT_PARTS if r != root])
        okid = other + ":" + rng.choice(common.ACCT_PARTS)
        return {"root": root, "par": par, "kids": kids, "sib": sib, "other": other, "okid": okid,
                "all": [par] + kids + [sib, other, okid] + ([root] if rng.random() < 0.5 else [])}

    def boundary(self, rng, kind):
        """-> (txns, {sel key: [pattern asts]}) of one boundary class"""
        cfg = {}
        tr = self.tree(rng)
        comms = rng.sample(common.COMMS, 2)
        c0 = rng.choice(["", comms[0]])
        by_comm = [(c0, tr["all"], "z:closer")]
        if rng.random() < 0.5:
            by_comm.append((comms[1], rng.sample(tr["all"], 3), "z:closer"))
        cancel = []
        name = rng.choice([a for a in tr["all"] if len(a) > 1])
        if kind == "prefix":
            asts = [lits(name[:rng.randrange(1, len(name))])]
        elif kind == "suffix":
            asts = [lits(name[rng.randrange(1, len(name)):])]
        elif kind == "infix":
            if len(name) < 3:
                name = tr["kids"][0]
            i = rng.randrange(1, len(name) - 1)
            asts = [lits(name[i:rng.randrange(i + 1, len(name))])]
        elif kind == "own-anchors":
            it = lit_items(name)
            asts = [rng.choice([seq1([("bol",)] + it + [("eol",)]), seq1([("bol",)] + it), seq1(it + [("eol",)]),
                                seq1([("bol",), ("grp", lits(name), False), ("eol",)]),
                                seq1([("bol",)] + lit_items(name[:-1]) + [("eol",)])])]
        elif kind == "top-alt":
            other = rng.choice(tr["all"])
            asts = [("alt", [("seq", lit_items(rng.choice([name, name[:max(1, len(name) // 2)]]))), ("seq", lit_items(other))])]
        elif kind == "dotstar":
            asts = [rng.choice([seq1([DOTSTAR]), seq1(lit_items(tr["par"]) + [DOTSTAR]),
                                seq1([DOTSTAR, ("lit", ":")] + lit_items(name.split(":")[-1])),
                                seq1(lit_items(tr["root"]) + [DOTSTAR])])]
        elif kind == "empty-pattern":
            asts = [seq1([])] + ([lits(name)] if rng.random() < 0.5 else [])
        elif kind == "parent-only":         # a parent is listed, its children are not: its tree sum stays the full one
            asts = [lits(rng.choice([tr["par"], tr["par"], tr["other"]]))]
        elif kind == "children-only":       # children are listed, the parent is not
            asts = [rng.choice([seq1(lit_items(tr["par"] + ":") + [DOTSTAR]), lits(tr["kids"][0]),
                                ("alt", [("seq", lit_items(k)) for k in tr["kids"]])])]
        elif kind == "hide-commodity":      # every listed row is in one commodity: the other's delta line / transaction goes
            only = [a + ":h" for a in tr["kids"]] + [tr["sib"]]
            by_comm = [(c0, [a for a in tr["all"] if a not in only], "z:closer"), (comms[1], only, "y:closer")]
            pick = rng.choice([only, [a for a in tr["all"] if a not in only]])
            asts = [lits(a) for a in pick] if rng.random() < 0.5 else [("alt", [("seq", lit_items(a)) for a in pick])]
        elif kind == "cancel":              # selected rows whose own sums are zero / cancel each other
            cancel = [(c0, name)]
            asts = [rng.choice([lits(name), seq1([DOTSTAR]), seq1(lit_items(tr["par"]) + [DOTSTAR])])]
        else:
            raise ValueError(kind)
        txns = self.tree_journal(rng, cfg, by_comm, cancel)
        return txns, asts

    def assign(self, rng, asts, pats):
        """put one pattern list into the configuration: report-wide, per report, or both"""
        lst = [pats.add(a) for a in asts]
        mode = rng.choice(["global", "each", "mixed"])
        if mode == "global":
            return {"sel_global": lst}
        if mode == "each":
            return {"sel_balance": lst, "sel_balgrp": list(lst), "sel_register": list(lst), "sel_equity": list(lst)}
        out = {"sel_global": lst}
        rep = rng.choice(ALL_REPORTS)
        out["sel_" + rep] = list(lst)
        return out

    BOUNDARY = ["prefix", "suffix", "infix", "own-anchors", "top-alt", "dotstar", "empty-pattern", "parent-only",
                "children-only", "hide-commodity", "cancel"]

    def mk(self, rng, kind, txns, sels, pats, kinds=None):
        cfg = {"equity_account": EQUITY_ACCOUNT}
        cfg.update(sels)
        accounts = sorted({p["acct"] for t in txns for p in t["posts"]} | {t["last"]["acct"] for t in txns if t.get("last")})
        if accounts and rng.random() < 0.15:
            # the configured equity account is itself an account of the journal (e.g. it carries last period's opening
            # balances): when selected and non-zero it is a listed row like any other, next to the balancing posting
            cfg["equity_account"] = rng.choice(accounts)
            kind = kind + "+eqa-posted"
        names = set()
        for a in accounts:
            ps = a.split(":")
            for k in range(1, len(ps) + 1):
                names.add(":".join(ps[:k]))
        layout = common.gen_layout(rng)
        # how the implementation is told: everything in the file; or the same meaning with command-line overlaps —
        # `--group-by` repeating the file's value (must not disturb any selector), `--accounts` carrying the list when
        # every report resolves to the same non-empty list (it replaces every selector of the file)
        effs = [eff_sel(cfg, r) for r in ALL_REPORTS]
        routes = ["file", "file", "cli-group-by"]
        if effs[0] and all(e == effs[0] for e in effs):
            routes += ["cli-accounts", "cli-accounts"]
        if not any(effs):
            # no selector in force: also as the documented empty `--accounts` override over a file full of selectors
            routes += ["cli-empty", "cli-empty"]
        cfg["route"] = rng.choice(routes)
        return {"fam": "selrun", "op": "run", "kind": "sel:" + kind, "sel_kinds": sorted(set(kinds or [kind])), "cfg": cfg,
                "txns": txns, "layout": layout, "text": common.render_journal(txns, layout),
                "names": sorted(names), "py": pats.py, "perl": pats.perl}

    def gen(self, rng, tier):
        out = []
        per = 12 if tier == "quick" else 400
        for kind in self.BOUNDARY:
            for _ in range(per):
                pats = Pats(rng)
                txns, asts = self.boundary(rng, kind)
                out.append(self.mk(rng, kind, txns, self.assign(rng, asts, pats), pats))
        for _ in range(per * 2):            # per-report list vs report-wide list: absent / empty / own
            pats = Pats(rng)
            txns, _ = self.boundary(rng, "parent-only")
            accts = sorted({p["acct"] for t in txns for p in t["posts"]})
            sels = {"sel_global": [pats.add(lits(rng.choice(accts)))]}
            shapes = ["absent", "empty", "own"]
            rng.shuffle(shapes)
            for rep, shape in zip(REPORTS, shapes):
                if shape == "empty":
                    sels["sel_" + rep] = []
                elif shape == "own":
                    sels["sel_" + rep] = [pats.add(lits(rng.choice(accts)))]
            if rng.random() < 0.2:
                del sels["sel_global"]
            out.append(self.mk(rng, "report-vs-global", txns, sels, pats))
        # inline flags: every selector is compiled on its own, so a flag such as `(?i)` in one pattern must not leak into
        # another one (outside the modelled regex subset: the model answers UNDEF, the python oracle judges these cases)
        for _ in range(per):
            pats = Pats(rng)
            base = rng.choice(["Assets", "Exp", "cash"])
            other = rng.choice(["Food", "Rent", "bank"])
            accts = [base + ":x", base.upper() + ":x", base.lower() + ":x", other, other.upper(), other.lower(), "e"]
            txns = []
            for i, a in enumerate(accts[:-1]):
                t = common.gen_header(rng, {}, {"p_uuid": 0.0, "p_loc": 0.0, "p_tags": 0.0, "p_comments": 0.0, "p_code": 0.0, "p_desc": 0.0})
                t["posts"] = [{"acct": a, "amount": str(i + 1), "unit": None, "comment": None},
                              {"acct": "e", "amount": str(-(i + 1)), "unit": None, "comment": None}]
                t["last"] = None
                txns.append(t)
            p1 = "(?i)" + base.lower() + "(:.*)?"
            p2 = other
            for q in (p1, p2):
                pats.py[q] = q
                pats.perl[q] = False
            lst = [p1, p2] if rng.random() < 0.7 else [p2, p1]
            key = rng.choice(["sel_global", "sel_register", "sel_balance", "sel_equity"])
            out.append(self.mk(rng, "inline-flag", txns, {key: lst}, pats))
        n = 200 if tier == "quick" else 8000
        for _ in range(n):
            cfg = {}
            opts = {"p_invalid": 0.0, "p_uuid": 0.0, "p_loc": 0.0, "p_tags": 0.0, "p_comments": 0.0,
                    "p_price": rng.choice([0.0, 0.0, 0.2]), "p_opening": 0.0, "comms": common.COMMS[:rng.randrange(1, 4)],
                    "n_txns": rng.choice([1, 2, 3, 4, 6])}
            txns = common.gen_journal(rng, cfg, opts)
            accounts = sorted({p["acct"] for t in txns for p in t["posts"]} | {t["last"]["acct"] for t in txns if t.get("last")})
            names = set()
            for a in accounts:
                ps = a.split(":")
                for k in range(1, len(ps) + 1):
                    names.add(":".join(ps[:k]))
            pats, kinds, sels = Pats(rng), [], {}
            for key in SEL_KEYS:
                r = rng.random()
                if r < (0.45 if key == "sel_global" else 0.25):
                    continue                      # key absent
                lst = []
                for _ in range(rng.choice([0, 1, 1, 1, 2, 3]) if r > 0.32 else 0):
                    kind, ast = self.sel_pattern(rng, sorted(names))
                    kinds.append(kind)
                    lst.append(pats.add(ast))
                sels[key] = lst
            if not kinds:
                kinds = ["no-pattern"]
            prio = ["name-part", "top-alt", "own-anchors", "wrapper-text", "empty", "dotstar", "dotstar-leaf", "prefix-dotstar",
                    "exact", "random", "no-pattern"]
            kind = [k for k in prio if k in kinds][0]      # one boundary class per case (the most specific one used)
            out.append(self.mk(rng, "rnd-" + kind, txns, sels, pats, kinds))
        return out

    def impl_cases(self, case):
        base = {k: v for k, v in case["cfg"].items() if not k.startswith("sel_") and k != "route"}
        cfg = {k: v for k, v in case["cfg"].items() if k != "route"}
        route = case["cfg"].get("route", "file")
        if route == "cli-group-by":
            cfg["ov_group_by"] = cfg.get("group_by", "month")
        elif route == "cli-empty":
            cfg = dict(base, sel_global=["zzz:never:posted"], sel_equity=["zzz:other"], sel_balance=["zzz:b"], sel_register=["zzz:r"],
                       sel_balgrp=["zzz:g"], ov_accounts=[])
        elif route == "cli-accounts":
            lst = eff_sel(case["cfg"], "balance")
            cfg = dict(base, sel_global=["zzz:never:posted"], sel_equity=["zzz:other"], ov_accounts=lst)
        return [{"op": "run", "cfg": cfg, "text": case["text"], "want": ALL_REPORTS},
                {"op": "run", "cfg": base, "text": case["text"], "want": ALL_REPORTS}]

    def join(self, case, answers):
        a, b = answers
        return {"r": a.get("r") if a.get("r") == b.get("r") else "MIXED:%s/%s" % (a.get("r"), b.get("r")),
                "sel": a, "all": b}

    def model_case(self, case):
        cfg = case["cfg"]
        c = {"op": "run", "cfg": model_cfg(cfg), "txns": case["txns"], "want": REPORTS + ["selects"],
             "names": case["names"], "equity_account": cfg.get("equity_account", EQUITY_ACCOUNT)}
        for k in SEL_KEYS:
            if cfg.get(k) is not None:
                c[k] = cfg[k]
        return c

    def check_rows(self, case, impl, pred_of, who):
        """pred_of(report) -> predicate or None (= undefined for this report).  Returns (message|None, compared)"""
        if impl.get("r") != "OK":
            return None, 0
        compared = 0
        for rep in ALL_REPORTS:
            pred = pred_of(rep)
            if pred is None:
                continue
            eqa = case["cfg"].get("equity_account", EQUITY_ACCOUNT)
            base = rows_of(rep, impl["all"]["out"], eqa)
            if base is None:
                return "%s output of the unselected run is not OK" % rep, compared
            got = rows_of(rep, impl["sel"]["out"], eqa)
            if got is None:
                return "%s report fails with selectors %r that %s accepts" % (rep, eff_sel(case["cfg"], rep), who), compared
            exp = filter_rows(rep, base, pred)
            compared += 1
            if got != exp:
                ga, ea = row_accounts(rep, got), row_accounts(rep, exp)
                if ga != ea:
                    extra = [a for a in ga if a not in ea]
                    missing = [a for a in ea if a not in ga]
                    return ("%s with selectors %r lists accounts %s; whole-name selection of the unselected rows gives %s "
                            "(unexpected %s, missing %s)" % (rep, eff_sel(case["cfg"], rep), ga, ea, extra, missing)), compared
                return "%s with selectors %r: figures of the listed rows differ from the unselected run: %s vs %s" % (
                    rep, eff_sel(case["cfg"], rep), got, exp), compared
        return None, compared

    def compare(self, case, impl, model):
        d = cmp_status(impl, model)
        if d:
            return d
        if impl.get("r") != "OK":
            return None
        selects = out_of(model, "selects")
        if selects.get("r") != "OK":
            return "driver problem: model output selects = %s" % selects
        idx = {n: i for i, n in enumerate(case["names"])}

        def pred_of(rep):
            m = selects["v"].get(rep)
            if m == "UNDEF" or m is None:
                return None
            return lambda acct: (m[idx[acct]] if acct in idx else None)
        msg, n = self.check_rows(case, impl, pred_of, "the model")
        if msg:
            return msg
        for f in self.extra_compares:
            msg = f(case, impl, model)
            if msg == "skip":
                continue
            if msg:
                return msg
            n += 1
        return None if n else "skip"

    def oracle(self, case, impl):
        if impl.get("r") != "OK":
            if str(impl.get("r")).startswith("MIXED"):
                return {"sig": "load-depends-on-selectors", "what": "load status %s" % impl.get("r")}
            return None

        def pred_of(rep):
            pats = eff_sel(case["cfg"], rep)
            if not pats:
                return lambda acct: True
            cres = [re.compile(case["py"][p]) for p in pats]
            anyperl = any(case["perl"][p] for p in pats)
            if anyperl and not all(n.isascii() for n in case["names"]):
                return None
            return lambda acct: any(c.fullmatch(acct) is not None for c in cres)
        msg, _ = self.check_rows(case, impl, pred_of, "python re")
        if msg:
            sig = "not-row-filter"
            if "lists accounts" in msg:
                sig = "selector-not-whole-name"
            elif "report fails" in msg:
                sig = "valid-selector-rejected"
            return {"sig": sig, "what": msg}
        for f in self.extra_oracles:
            r = f(case, impl)
            if r:
                return r
        return None

    def nontrivial(self, case, impl):
        if impl.get("r") != "OK":
            return False
        for rep in REPORTS:
            eqa = case["cfg"].get("equity_account", EQUITY_ACCOUNT)
            a, b = rows_of(rep, impl["sel"]["out"], eqa), rows_of(rep, impl["all"]["out"], eqa)
            if a and b and 0 < len(row_accounts(rep, a)) < len(row_accounts(rep, b)):
                return True
        return False


# ---------------------------------------------------------------------------------------------

FAMILIES = {"rematch": Rematch(), "peel": Peel(), "selrun": SelRun()}


class C11(PropBase):
    id = "C11"

    def fam(self, case):
        f = case.get("fam")
        if f is None:        # corpus files may omit it
            f = {"rematch": "rematch", "peel": "peel", "run": "selrun"}.get(case.get("op"))
        return FAMILIES[f]

    def gen(self, rng, tier, focus=None):
        out = []
        for name in sorted(FAMILIES):
            out.extend(FAMILIES[name].gen(rng, tier))
        # "selecting accounts never changes the figures of the rows that remain" also when the figures are converted at a
        # price: journal-level price-conversion cases with per-report selectors are C07's (exact converted sums per row,
        # metadata = rates applied), borrowed here and run / judged by C07's plug-in
        if not focus:
            import c07
            for _ in range(25 if tier == "quick" else 500):
                pc = c07.PROP.gen_case(rng, rng.choice(["two-targets", "random", "at-instant"]))
                out.append(dict(c07.PROP.to_run_case(rng, pc, "selector"), delegate="c07", kind="priced:selector"))
        return out

    def impl_case(self, case):
        f = self.fam(case)
        return {"fam": f.fam, "cases": f.impl_cases(case)}

    def model_case(self, case):
        return self.fam(case).model_case(case)

    def run_impl(self, impl_cases):
        flat, spans = [], []
        for ic in impl_cases:
            spans.append((len(flat), len(ic["cases"])))
            flat.extend(ic["cases"])
        ans = common.run_driver([common.TK_IMPL], flat, jobs=JOBS)
        return [FAMILIES[ic["fam"]].join(None, ans[i:i + n]) for ic, (i, n) in zip(impl_cases, spans)]

    def compare(self, case, impl, model):
        return self.fam(case).compare(case, impl, model)

    def oracle(self, case, impl):
        r = self.fam(case).oracle(case, impl)
        if r is None and case.get("kind") in ("top-alt", "literal-part", "sel:parent-only", "sel:hide-commodity"):
            self.remember(case)
        return r

    def nontrivial(self, case, impl):
        return self.fam(case).nontrivial(case, impl)

    def sample(self, case):
        c = {k: v for k, v in case.items() if k not in ("py", "perl", "names", "txns", "layout")}
        return c

    def rule(self):
        return ("rematch: structured random regex ASTs of the modelled subset (literals incl. escaped metacharacters, '.', "
                "bracketed classes with ranges/negation/\\d\\w\\s, groups, alternation, * + ? incl. lazy and stacked, ^ $), "
                "rendered to the crate's syntax, with haystacks derived from each pattern (a sampled match, one char "
                "deleted/replaced/inserted, the match as prefix/suffix/infix, with a leading or trailing newline, "
                "account-shaped names); boundary classes literal-part (pattern = proper prefix/suffix/infix of an account), "
                "own-anchors, top-alt, wrapper-text, dotstar, empty, outside-subset, invalid, unbalanced, text-mutation. "
                "peel: wrapped/half-wrapped/double-wrapped strings. selrun: journals (AST for the model, rendered text for the "
                "implementation) with selector lists for balance / register / equity and the report-wide list (keys "
                "present/absent/empty). Boundary classes on a generated account tree (parent with children, a sibling that "
                "has the parent as a string prefix, a second root, one or two commodities): pattern = proper prefix / suffix / "
                "infix of an account name; own anchors; top-level alternation; '.*' forms; the empty pattern; parent listed "
                "without its children and children without the parent (tree sums must stay those of the full tree); "
                "selectors hiding every row of a commodity (its delta line and equity transaction disappear); selected own "
                "sums cancelling; per-report list vs report-wide list (absent / empty / own). Plus journals of gen/common.py "
                "with selectors derived from their account names (rnd-* kinds). "
                "non-trivial = some haystack is found by plain search but not matched as a whole while another is "
                "(rematch) / a report lists a non-empty proper subset of the unselected rows (selrun); "
                "distinct = sha256 of the implementation case")

    def trusted_base(self):
        return super().trusted_base() + [
            "modelled, not verified: the regex crate outside the modelled subset (model answers UNDEF; F16 lives there); "
            "Unicode meaning of \\d \\w \\s (model is ASCII, UNDEF on non-ASCII haystacks); the crate's nest/size limits; "
            "TOML decoding of selector lists",
            "the python oracle trusts python's `re` on the translated subset (explicit ASCII classes, \\A/\\Z anchors)",
            "selrun: decimal arithmetic outside the exact domain is UNDEF in the model (C02/C03/C10's domain; the generated "
            "amounts stay inside it); register entries are compared by value, balance and equity figures text-exact; "
            "no price conversion, no audit metadata in this family"]

    def assumptions(self):
        return ["selector patterns are valid regular expressions on their own (the property's quantifier); a pattern that only "
                "becomes valid when wrapped, e.g. 'a)|(?:b', is accepted by the code and escapes the anchors",
                "ParseWrap holds as a theorem inside the subset (C11.parse_wrap); outside it it is false for the crate (F16)"]


PROP = C11()

"""C14 — outputs are complete or the run fails; existing files are never overwritten.

The property lives at the CLI/OS boundary, so the implementation side of op `out` is the real `tackler` binary
(`.build/cargo/debug/tackler`, rebuilt from $TK_REPO by bin/check) run on a generated probe journal under a
file-size limit (`RLIMIT_FSIZE` = k, `SIGXFSZ` ignored — `write(2)` then accepts bytes up to offset k and fails
with EFBIG afterwards), with pre-created destination files, for file / fs-directory / git input.  The model side is
`Output.run` of lean/TacklerModel/Model/Output.lean (driver op `out`).

Other ops: `bufw` (std::io::BufWriter itself against the model's transliteration, through tk_impl) and `wfail`
(every reporter/exporter driven by a `Write` failing after n bytes, every n; oracle only).

Run as a script (`python3 gen/c14.py --worker`) this module is the line-protocol worker that executes CLI cases:
one single-threaded process per shard, so that `preexec_fn` is safe.
"""
import hashlib
import json
import os
import random
import shutil
import subprocess
import sys

sys.path.insert(0, os.path.dirname(os.path.abspath(__file__)))
import common  # noqa: E402
from propbase import PropBase  # noqa: E402

# target -> (file name suffix after the prefix, CLI name, is_report)
TARGETS = {
    "balance": (".bal.txt", "balance", True),
    "balgrp": (".balgrp.txt", "balance-group", True),
    "register": (".reg.txt", "register", True),
    "equity": (".equity.txn", "equity", False),
    "identity": (".identity.txn", "identity", False),
}
REPORTS = ["balance", "balgrp", "register"]
EXPORTS = ["equity", "identity"]
ALL = REPORTS + EXPORTS
PREFIX = "p"
JOURNALS = {"small": 4, "large": 60}
INPUTS = ["file", "fs", "git"]
CAP = 8192


def fname(t):
    return PREFIX + TARGETS[t][0]


# ---------------------------------------------------------------------------------------------
# probe workspace: journal (one file / a directory tree / a git repository) and configuration

def journal_text(n):
    out = []
    for i in range(n):
        out.append("2024-%02d-%02dT10:00:00Z (#%d) 'txn %d\n # uuid: 00000000-0000-4000-8000-%012x\n"
                   " Expenses:Food:Item%d  %d.50\n Assets:Cash\n" % (1 + i % 12, 1 + i % 28, i, i, i, i % 7, i + 1))
    return "\n".join(out)


def config_text(probe, storage, reports, exports):
    return """[kernel]
strict = false
audit = { mode = false, hash = "SHA-256" }
timestamp = { default-time = 00:00:00, timezone = { name = "UTC" } }
[kernel.input]
storage = "%s"
fs = { path = "%s", dir = "txns", suffix = "txn" }
git = { repo = "%s", ref = "main", dir = "txns", suffix = "txn" }
[transaction]
accounts = { path = "none" }
commodities = { path = "none" }
tags = { path = "none" }
[report]
report-timezone = "UTC"
scale = { min = 2, max = 2 }
accounts = [ ]
targets = [ %s ]
balance = { title = "BALANCE" }
balance-group = { title = "BALANCE GROUP", group-by = "month" }
register = { title = "REGISTER" }
[export]
targets = [ %s ]
equity = { accounts = [ ], equity-account = "Equity:Balance" }
""" % (storage, os.path.join(probe, "data"), os.path.join(probe, "data", ".git"),
       ", ".join('"%s"' % TARGETS[r][1] for r in reports), ", ".join('"%s"' % TARGETS[e][1] for e in exports))


def make_probe(ws, jname):
    """<ws>/probe-<jname>/{single.txn, data/txns/a.txn, data/txns/sub/b.txn, data/.git}"""
    probe = os.path.join(ws, "probe-" + jname)
    if os.path.isdir(probe):
        return probe
    tmp = probe + ".tmp%d" % os.getpid()
    os.makedirs(os.path.join(tmp, "data", "txns", "sub"))
    text = journal_text(JOURNALS[jname])
    parts = text.split("\n\n")
    h = len(parts) // 2
    with open(os.path.join(tmp, "single.txn"), "w") as f:
        f.write(text)
    with open(os.path.join(tmp, "data", "txns", "a.txn"), "w") as f:
        f.write("\n\n".join(parts[:h]) + "\n")
    with open(os.path.join(tmp, "data", "txns", "sub", "b.txn"), "w") as f:
        f.write("\n\n".join(parts[h:]) + "\n")
    env = dict(os.environ, GIT_AUTHOR_NAME="verif", GIT_AUTHOR_EMAIL="verif@example.com", GIT_COMMITTER_NAME="verif",
               GIT_COMMITTER_EMAIL="verif@example.com", GIT_AUTHOR_DATE="2024-01-01T00:00:00Z",
               GIT_COMMITTER_DATE="2024-01-01T00:00:00Z", GIT_CONFIG_NOSYSTEM="1", HOME=tmp)
    d = os.path.join(tmp, "data")
    subprocess.run(["git", "init", "-q", "-b", "main", d], check=True, env=env, stdout=subprocess.DEVNULL)
    subprocess.run(["git", "-C", d, "add", "."], check=True, env=env, stdout=subprocess.DEVNULL)
    subprocess.run(["git", "-C", d, "commit", "-q", "-m", "txns"], check=True, env=env, stdout=subprocess.DEVNULL)
    try:
        os.rename(tmp, probe)
    except OSError:
        shutil.rmtree(tmp, ignore_errors=True)      # somebody else built it meanwhile
    return probe


def snapshot(paths):
    """(size, mtime_ns, sha256) of every file below the given files/directories"""
    snap = {}
    for root in paths:
        if os.path.isfile(root):
            files = [root]
        else:
            files = []
            for dp, dn, fn in os.walk(root):
                dn.sort()
                for f in sorted(fn):
                    files.append(os.path.join(dp, f))
                for dd in dn:
                    st = os.lstat(os.path.join(dp, dd))
                    snap[os.path.join(dp, dd) + "/"] = ("dir", st.st_mtime_ns, "")
        for p in files:
            st = os.lstat(p)
            if os.path.islink(p):
                snap[p] = ("link", st.st_mtime_ns, os.readlink(p))
                continue
            with open(p, "rb") as f:
                snap[p] = (st.st_size, st.st_mtime_ns, hashlib.sha256(f.read()).hexdigest())
    return snap


def marker(n):
    return b"\xff" * n


# ---------------------------------------------------------------------------------------------
# one CLI run

class Runner:
    def __init__(self, ws):
        self.ws = ws
        self.n = 0
        self._base = {}

    def cli(self, case, out_dir, cfg_path, probe, stdout_target):
        args = [common.TK_CLI, "--config", cfg_path]
        mode = case.get("mode", "files")
        if mode != "console":
            args += ["--output.dir", out_dir, "--output.prefix", PREFIX]
        if case["input"] == "file":
            args += ["--input.file", os.path.join(probe, "single.txn")]
        if mode == "badsel":
            args += ["--accounts", "("]
        limit = case.get("limit")

        def pre():
            import resource
            import signal
            signal.signal(signal.SIGXFSZ, signal.SIG_IGN)
            if limit is not None:
                resource.setrlimit(resource.RLIMIT_FSIZE, (limit, limit))

        return subprocess.run(args, preexec_fn=pre, stdout=stdout_target, stderr=subprocess.PIPE, timeout=120,
                              cwd=os.path.dirname(cfg_path))

    def baseline(self, jname, inp):
        """fault-free contents of all five destinations (and the console text) for a journal/input pair"""
        key = (jname, inp)
        if key in self._base:
            return self._base[key]
        bdir = os.path.join(self.ws, "baseline", "%s-%s" % (jname, inp))
        if not os.path.isdir(bdir):
            probe = make_probe(self.ws, jname)
            tmp = bdir + ".tmp%d" % os.getpid()
            os.makedirs(os.path.join(tmp, "out"))
            cfg = os.path.join(tmp, "t.toml")
            with open(cfg, "w") as f:
                f.write(config_text(probe, "git" if inp == "git" else "fs", REPORTS, EXPORTS))
            case = {"input": inp, "limit": None, "mode": "files"}
            p = self.cli(case, os.path.join(tmp, "out"), cfg, probe, subprocess.PIPE)
            if p.returncode != 0:
                raise RuntimeError("baseline run failed: %s" % p.stderr.decode("utf-8", "replace")[-400:])
            with open(os.path.join(tmp, "console.txt"), "wb") as so:
                pc = self.cli({"input": inp, "limit": None, "mode": "console"}, None, cfg, probe, so)
            if pc.returncode != 0:
                raise RuntimeError("baseline console run failed")
            try:
                os.rename(tmp, bdir)
            except OSError:
                shutil.rmtree(tmp, ignore_errors=True)
        res = {}
        for t in ALL:
            with open(os.path.join(bdir, "out", fname(t)), "rb") as f:
                res[t] = f.read()
        with open(os.path.join(bdir, "console.txt"), "rb") as f:
            res["console"] = f.read()
        self._base[key] = res
        return res

    def run_sub(self, case):
        """`tackler init` / `tackler new <name>` with a subset of their destinations already present: the sub-commands
        write files too (a configuration and journal files), so 'an existing file is never overwritten' covers them"""
        self.n += 1
        cdir = os.path.join(self.ws, "runs", "sub-%d-%d" % (os.getpid(), self.n))
        os.makedirs(cdir)
        try:
            root = os.path.join(cdir, "books") if case["cmd"] == "new" else cdir
            pre = case.get("existing", [])
            if case["cmd"] == "new" and pre:
                os.makedirs(root)
            for d in pre:
                if d in ("conf", "txns"):
                    os.makedirs(os.path.join(root, d), exist_ok=True)
                    names = {"conf": ["tackler.toml", "accounts.toml"], "txns": ["journal.txn", "welcome.txn", "price.db", "mine.txn"]}[d]
                    for nme in names:
                        with open(os.path.join(root, d, nme), "wb") as f:
                            f.write(b"; mine, keep\n" + marker(17))
            before = snapshot([cdir])
            args = [common.TK_CLI] + (["new", "books"] if case["cmd"] == "new" else ["init"])
            p = subprocess.run(args, stdout=subprocess.PIPE, stderr=subprocess.PIPE, timeout=60, cwd=cdir)
            after = snapshot([cdir])
            changed = sorted(os.path.relpath(k, cdir) for k in before if not k.endswith("/") and after.get(k) != before[k])
            created = sorted(os.path.relpath(k, cdir) for k in after if k not in before and not k.endswith("/"))
            return {"r": "OK", "rc": p.returncode, "changed": changed, "created": created,
                    "stdout": p.stdout.decode("utf-8", "replace")[-300:], "stderr": p.stderr.decode("utf-8", "replace")[-300:]}
        finally:
            shutil.rmtree(cdir, ignore_errors=True)

    def run_probe(self, case):
        """oracle-only runs of the real binary that need no reference content:
        * what = closed-pipe: the reports go to stdout, stdout is a pipe whose reading end is already closed (every write
          fails with EPIPE at byte 0; Rust ignores SIGPIPE) - a write failure at any byte must end the run with an error;
        * what = empty-export / empty-all: file output where the account selector matches nothing, so an export (and the
          reports' bodies) may be empty - every announced path must exist as a regular file, nothing else may appear."""
        self.n += 1
        jname, inp = case["journal"], case["input"]
        probe = make_probe(self.ws, jname) if case["what"] != "outdir-prefix" else os.path.join(self.ws, "no-probe")
        cdir = os.path.join(self.ws, "runs", "probe-%d-%d" % (os.getpid(), self.n))
        out_dir = os.path.join(cdir, "out")
        os.makedirs(out_dir)
        try:
            cfg = os.path.join(cdir, "t.toml")
            if case["what"] != "outdir-prefix":
                with open(cfg, "w") as f:
                    f.write(config_text(probe, "git" if inp == "git" else "fs", case["reports"], case["exports"]))
            if case["what"] == "outdir-prefix":
                # filesystem storage whose journal directory is a *sibling* of the output directory with a name that starts
                # like it (books/out vs books/outgoing): every journal file is input; a fault in one of them fails the run
                # journal directory <cdir>/books/txns with good files; the faulty one in its sub-directory `outgoing`;
                # the output directory is the sibling `out` of that sub-directory
                jdir = os.path.join(cdir, "books", "txns")
                odir = os.path.join(jdir, "out")
                os.makedirs(os.path.join(jdir, "outgoing"))
                os.makedirs(os.path.join(jdir, "2024"))
                os.makedirs(odir)
                with open(os.path.join(jdir, "good.txn"), "w") as f:
                    f.write("2024-01-01 'ok\n e:x  1\n a:cash\n")
                with open(os.path.join(jdir, "2024", "more.txn"), "w") as f:
                    f.write("2024-02-01 'ok too\n e:y  2\n a:cash\n")
                with open(os.path.join(jdir, "outgoing", "bad.txn"), "w") as f:
                    f.write(case["bad"])
                with open(cfg, "w") as f:
                    f.write(config_text(probe, "fs", case["reports"], case["exports"]).replace(
                        'fs = { path = "%s"' % os.path.join(probe, "data"), 'fs = { path = "%s"' % os.path.join(cdir, "books")))
                p = subprocess.run([common.TK_CLI, "--config", cfg, "--output.dir", odir, "--output.prefix", PREFIX],
                                   stdout=subprocess.PIPE, stderr=subprocess.PIPE, timeout=120, cwd=cdir)
                return {"r": "OK", "exit": p.returncode, "present": {n: 0 for n in sorted(os.listdir(odir))},
                        "announced": [], "stderr": p.stderr.decode("utf-8", "replace")[-200:]}
            args = [common.TK_CLI, "--config", cfg]
            if inp == "file":
                args += ["--input.file", os.path.join(probe, "single.txn")]
            if case["what"] == "closed-pipe":
                r, w = os.pipe()
                os.close(r)
                try:
                    p = subprocess.run(args, stdout=w, stderr=subprocess.PIPE, timeout=120, cwd=cdir)
                finally:
                    os.close(w)
                return {"r": "OK", "exit": p.returncode, "stderr": p.stderr.decode("utf-8", "replace")[-200:],
                        "extra": sorted(os.listdir(out_dir))}
            args += ["--output.dir", out_dir, "--output.prefix", PREFIX, "--accounts", case["accounts"]]
            p = subprocess.run(args, stdout=subprocess.PIPE, stderr=subprocess.PIPE, timeout=120, cwd=cdir)
            announced = []
            for ln in p.stdout.decode("utf-8", "replace").split("\n"):
                if " : " in ln:
                    announced.append(os.path.basename(ln.split(" : ", 1)[1]))
            present = {}
            for nme in sorted(os.listdir(out_dir)):
                pth = os.path.join(out_dir, nme)
                present[nme] = os.path.getsize(pth) if os.path.isfile(pth) and not os.path.islink(pth) else -1
            return {"r": "OK", "exit": p.returncode, "announced": announced, "present": present,
                    "stderr": p.stderr.decode("utf-8", "replace")[-200:]}
        finally:
            shutil.rmtree(cdir, ignore_errors=True)

    def run_case(self, case):
        if case.get("op") == "sub":
            return self.run_sub(case)
        if case.get("op") == "probe":
            return self.run_probe(case)
        self.n += 1
        jname, inp, mode = case["journal"], case["input"], case.get("mode", "files")
        probe = make_probe(self.ws, jname)
        base = self.baseline(jname, inp)
        cdir = os.path.join(self.ws, "runs", "%d-%d" % (os.getpid(), self.n))
        out_dir = os.path.join(cdir, "out")
        os.makedirs(cdir)
        try:
            if mode != "nodir":
                os.makedirs(out_dir)
            cfg = os.path.join(cdir, "t.toml")
            with open(cfg, "w") as f:
                f.write(config_text(probe, "git" if inp == "git" else "fs", case["reports"], case["exports"]))
            existing = {}
            dangling = {}
            for e in case.get("existing", []):
                existing[fname(e["t"])] = marker(e["len"])
                if e.get("kind") == "dangling":
                    # a destination that exists as a symbolic link to a file that does not exist (yet)
                    tgt = os.path.join(cdir, "elsewhere", "target-" + fname(e["t"]))
                    os.makedirs(os.path.dirname(tgt), exist_ok=True)
                    os.symlink(tgt, os.path.join(out_dir, fname(e["t"])))
                    dangling[fname(e["t"])] = tgt
                    continue
                with open(os.path.join(out_dir, fname(e["t"])), "wb") as f:
                    f.write(existing[fname(e["t"])])
            watched = [probe, cfg]
            before = snapshot(watched)
            if mode == "console":
                so_path = os.path.join(cdir, "stdout.bin")
                with open(so_path, "wb") as so:
                    p = self.cli(case, out_dir, cfg, probe, so)
                with open(so_path, "rb") as f:
                    stdout = f.read()
            else:
                p = self.cli(case, out_dir, cfg, probe, subprocess.PIPE)
                stdout = p.stdout
            after = snapshot(watched)
            changed = sorted(k for k in set(before) | set(after) if before.get(k) != after.get(k))
            ans = {"r": "OK", "exit": p.returncode, "inputs_changed": [os.path.relpath(c, self.ws) for c in changed]}
            if p.returncode not in (0, 1):
                ans["stderr"] = p.stderr.decode("utf-8", "replace")[-300:]
            if mode == "console":
                b = base["console"]
                ans["console"] = {"len": len(stdout),
                                  "state": "complete" if stdout == b else "prefix" if b.startswith(stdout) else "other"}
                ans["extra"] = sorted(os.listdir(out_dir))
                return ans
            announced = []
            other_lines = []
            for ln in stdout.decode("utf-8", "replace").split("\n"):
                if " : " in ln:
                    announced.append(os.path.basename(ln.split(" : ", 1)[1]))
                elif ln.strip():
                    other_lines.append(ln[:100])
            ans["announced"] = announced
            if other_lines:
                ans["stdout_other"] = other_lines[:3]
            files = []
            extra = []
            present = sorted(os.listdir(out_dir)) if os.path.isdir(out_dir) else []
            if mode == "nodir" and os.path.exists(out_dir):
                extra.append("out/")
            planned = {fname(t): t for t in case["reports"] + case["exports"]}
            names = list(dict.fromkeys([fname(t) for t in case["reports"] + case["exports"]] + list(existing)))
            for nme in names:
                if nme not in present:
                    files.append({"name": nme, "state": "absent"})
                    continue
                if nme in dangling:
                    pth = os.path.join(out_dir, nme)
                    intact = os.path.islink(pth) and os.readlink(pth) == dangling[nme] and not os.path.exists(dangling[nme])
                    files.append({"name": nme, "state": "existing" if intact else "other", "len": 0})
                    if os.path.exists(dangling[nme]):
                        extra.append("elsewhere/" + os.path.basename(dangling[nme]))
                    continue
                with open(os.path.join(out_dir, nme), "rb") as f:
                    data = f.read()
                t = planned.get(nme)
                if nme in existing and data == existing[nme]:
                    st = "existing"
                elif t is not None and data == base[t]:
                    st = "complete"
                elif t is not None and base[t].startswith(data):
                    st = "prefix"
                else:
                    st = "other"
                files.append({"name": nme, "state": st, "len": len(data)})
            for nme in present:
                if nme not in names:
                    extra.append(nme)
            ans["files"] = files
            ans["extra"] = extra
            return ans
        finally:
            shutil.rmtree(cdir, ignore_errors=True)


def worker():
    ws = os.environ["C14_WS"]
    r = Runner(ws)
    for line in sys.stdin:
        line = line.strip()
        if not line:
            continue
        try:
            ans = r.run_case(json.loads(line))
        except Exception as e:  # noqa: BLE001
            ans = {"r": "RUNNERERR", "msg": "%s: %s" % (type(e).__name__, str(e)[:300])}
        sys.stdout.write(json.dumps(ans) + "\n")
        sys.stdout.flush()


# ---------------------------------------------------------------------------------------------
# chunkings (the model is told *some* way of cutting the real content into write calls; theorem
# `chunking_irrelevant` says the patched protocol cannot tell them apart)

def chunking(total, seed, style=None):
    rng = random.Random(seed)
    style = style or rng.choice(["single", "small", "lines", "mixed", "capmult", "pieces"])
    if total == 0:
        return rng.choice([[], [0], [0, 0]])
    out = []
    left = total
    if style == "single":
        return [total]
    while left > 0:
        if style == "small":
            n = rng.randrange(1, 64)
        elif style == "lines":
            n = rng.randrange(20, 120)
        elif style == "mixed":
            n = rng.choice([1, 1, 7, 40, 100, 1000, CAP - 1, CAP, CAP + 1, 3 * CAP])
        elif style == "capmult":
            n = rng.choice([CAP, CAP, 2 * CAP, CAP // 2, 0])
        else:  # what the reporters really do: padding pieces of 1 byte between short fields
            n = rng.choice([1, 1, 1, 1, 1, 1, 2, 4, 9, 21])
        n = min(n, left)
        out.append(n)
        left -= n
    if style == "pieces" and len(out) > 6000:
        # keep the model run cheap: merge the tail
        out = out[:6000] + [sum(out[6000:])]
    return out


# ---------------------------------------------------------------------------------------------

class C14(PropBase):
    id = "C14"
    needs_cli = True

    def __init__(self):
        super().__init__()
        self._ws = None
        self._runner = None
        self._pieces = None

    # -- workspace
    def ws(self):
        if self._ws is None:
            self._ws = os.path.join(common.BUILD, "tmp", "c14-%d" % os.getpid())
            os.makedirs(self._ws, exist_ok=True)
            import atexit
            atexit.register(lambda: shutil.rmtree(self._ws, ignore_errors=True))
            self._runner = Runner(self._ws)
        return self._ws

    def runner(self):
        self.ws()
        return self._runner

    def sizes(self, jname, inp):
        b = self.runner().baseline(jname, inp)
        return {t: len(b[t]) for t in ALL}, len(b["console"])

    def real_pieces(self):
        """the sizes of the write_all pieces the five reporters/exporters issue on the probe journals (asked from the
        harness), used as 'real chunkings' of the bufw cases"""
        if self._pieces is None:
            cases = []
            keys = []
            for jname in JOURNALS:
                for t in ALL:
                    cases.append({"op": "wfail", "cfg": {}, "text": journal_text(JOURNALS[jname]), "target": t,
                                  "stride": 10 ** 9})
                    keys.append((jname, t))
            ans = common.run_driver([common.TK_IMPL], cases, jobs=2)
            self._pieces = {}
            for k, a in zip(keys, ans):
                if a.get("r") == "OK":
                    self._pieces[k] = a["pieces"]
        return self._pieces

    # -- generation
    def offsets(self, rng, size, tier, every=False):
        if every:
            return list(range(0, size + 2))
        pts = {0, 1, 2, 10, size // 3, size // 2, size - 1, size, size + 1, CAP - 1, CAP, CAP + 1, 2 * CAP - 1, 2 * CAP,
               2 * CAP + 1}
        for _ in range(6 if tier == "quick" else 40):
            pts.add(rng.randrange(0, size + 2))
        # just below / above each flush point of a full buffer
        return sorted(p for p in pts if 0 <= p <= size + 1)

    def mk(self, rng, kind, jname, inp, reports, exports, limit=None, existing=None, mode="files"):
        return {"op": "out", "kind": kind, "journal": jname, "input": inp, "reports": list(reports),
                "exports": list(exports), "existing": existing or [], "limit": limit, "mode": mode,
                "chunk_seed": rng.randrange(1 << 30)}

    def gen_sub(self):
        out = []
        for cmd in ("init", "new"):
            for pre in ([], ["conf"], ["txns"], ["conf", "txns"]) + ((["dir"],) if cmd == "new" else ()):
                out.append({"op": "sub", "kind": "sub:%s:%s" % (cmd, "+".join(pre) or "fresh"), "cmd": cmd, "existing": list(pre)})
        return out

    def outdir_prefix_cases(self):
        bads = ["2024-01-02 'unbalanced\n e:x  1\n a:cash  -2\n", "2024-01-02 'garbage\n e:x  1\n a:cash\nthis is not a transaction\n",
                "2024-13-45 'bad date\n e:x  1\n a:cash\n"]
        return [{"op": "probe", "kind": "probe:outdir-prefix", "what": "outdir-prefix", "journal": "small", "input": "fs",
                 "reports": ["balance", "register"], "exports": ["identity"], "bad": b} for b in bads]

    def gen_probe(self):
        out = []
        for inp in INPUTS:
            for reps in (["balance"], ["register"], REPORTS):
                out.append({"op": "probe", "kind": "probe:closed-pipe", "what": "closed-pipe", "journal": "small", "input": inp,
                            "reports": list(reps), "exports": []})
            out.append({"op": "probe", "kind": "probe:closed-pipe", "what": "closed-pipe", "journal": "large", "input": inp,
                        "reports": ["register"], "exports": []})
            # a selector that matches no account: the equity export is empty (zero bytes), the reports have no rows
            out.append({"op": "probe", "kind": "probe:empty-export", "what": "empty-export", "journal": "small", "input": inp,
                        "reports": [], "exports": ["equity"], "accounts": "zzz:never:posted"})
            out.append({"op": "probe", "kind": "probe:empty-export", "what": "empty-export", "journal": "small", "input": inp,
                        "reports": ["balance"], "exports": ["equity", "identity"], "accounts": "zzz:never:posted"})
            out.append({"op": "probe", "kind": "probe:empty-export", "what": "empty-export", "journal": "small", "input": inp,
                        "reports": REPORTS, "exports": EXPORTS, "accounts": "zzz:never:posted"})
        return out

    def gen(self, rng, tier, focus=None):
        quick = tier != "thorough"
        out = self.gen_sub() + self.gen_probe()
        sz = {(j, i): self.sizes(j, i) for j in JOURNALS for i in INPUTS}

        # 1. one destination at a time (the limit is aimed at it): offset sweep
        for jname in ["large", "small"]:
            for inp in INPUTS:
                sizes, _ = sz[(jname, inp)]
                for t in ALL:
                    every = (not quick) and (jname == "small" or inp == "file")
                    offs = self.offsets(rng, sizes[t], tier, every)
                    if quick and jname == "small":
                        offs = [o for o in offs if o in (0, 1, 10, sizes[t] // 2, sizes[t] - 1, sizes[t], sizes[t] + 1)]
                    if (not quick) and not every:
                        offs = sorted(set(offs) | set(range(0, sizes[t] + 2, 7)))
                    for k in offs:
                        rep = [t] if TARGETS[t][2] else []
                        exp = [] if TARGETS[t][2] else [t]
                        out.append(self.mk(rng, "single:%s:%s" % (jname, t), jname, inp, rep, exp, limit=k))

        # 2. all five destinations together; the limit lands in whichever comes first with a larger content
        plans = [(REPORTS, EXPORTS), (["register", "balgrp", "balance"], ["identity", "equity"]),
                 (["balance"], ["equity", "identity"]), (["balgrp"], ["identity"])]
        for jname in ["large", "small"]:
            for inp in INPUTS:
                sizes, _ = sz[(jname, inp)]
                for (reps, exps) in (plans if jname == "large" else plans[:2]):
                    pts = {None, 0}
                    for t in reps + exps:
                        pts |= {sizes[t] - 1, sizes[t], sizes[t] + 1}
                    if jname == "large":
                        pts |= {CAP - 1, CAP, CAP + 1}
                    if not quick:
                        pts |= set(rng.randrange(0, max(sizes.values()) + 2) for _ in range(60))
                    for k in sorted(pts, key=lambda x: -1 if x is None else x):
                        out.append(self.mk(rng, "all:%s" % jname, jname, inp, reps, exps, limit=k))

        # 3. every subset of pre-existing destinations (marker content, also empty files)
        subsets = [[t for i, t in enumerate(ALL) if m >> i & 1] for m in range(32)]
        n = 0
        for jname in (["small"] if quick else ["small", "large"]):
            for sub in subsets:
                for inp in ([INPUTS[n % 3]] if quick else INPUTS):
                    n += 1
                    ex = [{"t": t, "len": rng.choice([0, 1, 7, 50, 9000])} for t in sub]
                    out.append(self.mk(rng, "existing", jname, inp, REPORTS, EXPORTS, existing=ex))
                    sizes, _ = sz[(jname, inp)]
                    for k in ([rng.choice([0, 5, sizes["balance"], sizes["register"] - 1])] if quick else
                              [0, 5, sizes["balance"], sizes["balgrp"] + 1, sizes["register"] - 1]):
                        if sub:
                            out.append(self.mk(rng, "existing+fault", jname, inp, REPORTS, EXPORTS, limit=k, existing=ex))
        # a destination that exists as a dangling symbolic link: exclusive creation must refuse it and must not
        # create the link's target elsewhere
        for jname in ("small",):
            for t in REPORTS + EXPORTS:
                out.append(self.mk(rng, "existing-dangling-symlink", jname, "file", REPORTS, EXPORTS,
                                   existing=[{"t": t, "len": 0, "kind": "dangling"}]))
        # an existing file that is not a destination of this run stays as it is
        for inp in INPUTS:
            out.append(self.mk(rng, "existing-unplanned", "small", inp, ["balance"], ["identity"],
                               existing=[{"t": "register", "len": 12}, {"t": "equity", "len": 0}]))

        # 4. random plans: subsets, orders, the same target twice (the second create_new meets the first's file)
        for _ in range(30 if quick else 600):
            jname = rng.choice(["small", "large"])
            inp = rng.choice(INPUTS)
            reps = [rng.choice(REPORTS) for _ in range(rng.randrange(0, 4))]
            exps = [rng.choice(EXPORTS) for _ in range(rng.randrange(0, 3))]
            if not reps and not exps:
                reps = ["balance"]
            sizes, _ = sz[(jname, inp)]
            k = rng.choice([None, None, rng.randrange(0, max(sizes.values()) + 2)])
            ex = [{"t": t, "len": rng.choice([0, 3])} for t in ALL if rng.random() < 0.1]
            out.append(self.mk(rng, "random-plan", jname, inp, reps, exps, limit=k, existing=ex))
        for inp in INPUTS:
            out.append(self.mk(rng, "dup-target", "small", inp, ["balance", "register", "balance"], ["identity"]))
            out.append(self.mk(rng, "dup-target", "small", inp, ["balance"], ["identity", "identity"]))

        # 5. a reporter that fails after its file was created (invalid account selector); missing output directory
        for inp in INPUTS:
            for t in ALL:
                rep = [t] if TARGETS[t][2] else []
                exp = [] if TARGETS[t][2] else [t]
                out.append(self.mk(rng, "reporter-error", "small", inp, rep, exp, mode="badsel"))
            out.append(self.mk(rng, "reporter-error", "small", inp, ["register", "balance"], ["identity"], mode="badsel"))
            out.append(self.mk(rng, "no-output-dir", "small", inp, REPORTS, EXPORTS, mode="nodir"))

        # 6. console output redirected to a file under the limit (no destination files at all)
        for jname in ["small"] if quick else ["small", "large"]:
            for inp in INPUTS:
                _, csize = sz[(jname, inp)]
                offs = self.offsets(rng, csize, tier, every=(not quick and jname == "small"))
                if quick:
                    offs = [o for o in offs if o in (0, 1, csize // 2, csize - 1, csize, csize + 1)] + [rng.randrange(0, csize)]
                for k in offs:
                    out.append(self.mk(rng, "console", jname, inp, REPORTS, [], limit=k, mode="console"))

        # 7. std::io::BufWriter against the model's BufWriter: small capacities, every limit; real piece sizes, cap 8192
        nb = 400 if quick else 20000
        for _ in range(nb):
            cap = rng.choice([0, 1, 2, 3, 4, 5, 8, 16])
            chunks = [rng.choice([0, 1, 1, 2, 3, cap, cap + 1, max(cap - 1, 0), 2 * cap + 1, rng.randrange(0, 12)])
                      for _ in range(rng.randrange(0, 7))]
            total = sum(chunks)
            lim = rng.choice([None, total, total + 1] + list(range(0, total + 1)))
            out.append({"op": "bufw", "kind": "bufw:small-cap", "cap": cap, "limit": lim, "chunks": chunks,
                        "flush_checked": rng.random() < 0.6})
        for (jname, t), pieces in sorted(self.real_pieces().items()):
            total = sum(pieces)
            pts = [p for p in self.offsets(rng, total, tier) if quick is False or p in (
                0, 10, total // 2, CAP - 1, CAP, CAP + 1, 2 * CAP, total - 1, total, total + 1)]
            for k in pts:
                for fc in (True, False):
                    out.append({"op": "bufw", "kind": "bufw:real-pieces", "cap": CAP, "limit": k, "chunks": pieces,
                                "flush_checked": fc, "what": "%s/%s" % (jname, t)})

        # 8. every reporter/exporter over a Write that fails after n bytes, every n (library level)
        for jname in JOURNALS:
            for t in ALL:
                stride = 1 if (jname == "small" or not quick) else 97
                out.append({"op": "wfail", "kind": "wfail:%s" % jname, "cfg": {}, "text": journal_text(JOURNALS[jname]),
                            "target": t, "stride": stride})
        return out

    # -- the two sides
    def impl_case(self, case):
        return case

    def model_case(self, case):
        op = case.get("op")
        if op == "bufw":
            return {k: v for k, v in case.items() if k not in ("kind", "what")}
        if op == "sub":
            return {"op": "sub", "cmd": case["cmd"], "existing": list(case.get("existing", []))}
        if op != "out":
            return None
        mode = case.get("mode", "files")
        if mode in ("console", "nodir"):
            return None
        if mode == "badsel" and case["input"] == "git":
            return None   # the reports then hold the git metadata header; its length is not derived here
        sizes, _ = self.sizes(case["journal"], case["input"])
        seed = case.get("chunk_seed", 1)

        def dest(i, t):
            d = {"name": fname(t), "chunks": chunking(sizes[t], seed * 31 + i)}
            if mode == "badsel" and t != "identity":
                # the account selector is compiled inside write_txt_report / write_export, before the first write
                d["chunks"] = []
                d["body_ok"] = False
            return d

        reps = [dest(i, t) for i, t in enumerate(case["reports"])]
        exps = [dest(10 + i, t) for i, t in enumerate(case["exports"])]
        m = {"op": "out", "cap": CAP, "reports": reps, "exports": exps,
             "existing": [{"name": fname(e["t"]), "len": e["len"]} for e in case.get("existing", [])]}
        if case.get("limit") is not None:
            m["limits"] = [{"name": fname(t), "k": case["limit"]} for t in dict.fromkeys(case["reports"] + case["exports"])]
        return m

    def run_impl(self, impl_cases):
        res = [None] * len(impl_cases)
        cli_idx = [i for i, c in enumerate(impl_cases) if c.get("op") in ("out", "sub", "probe")]
        lib_idx = [i for i, c in enumerate(impl_cases) if c.get("op") not in ("out", "sub", "probe")]
        if cli_idx:
            ws = self.ws()
            # baselines first (single process), then the sweep in single-threaded worker processes
            for c in (impl_cases[i] for i in cli_idx):
                if c.get("op") == "out":
                    self.runner().baseline(c["journal"], c["input"])
            jobs = int(os.environ.get("VERIF_JOBS", "0")) or min(8, common.NCPU)
            # interleave so that the shards have similar cost
            order = sorted(cli_idx, key=lambda i: (i % jobs, i))
            ans = common.run_driver([sys.executable, os.path.abspath(__file__), "--worker"], [impl_cases[i] for i in order],
                                    jobs=jobs, env={"C14_WS": ws}, timeout=3000)
            for i, a in zip(order, ans):
                res[i] = a
        if lib_idx:
            ans = common.run_driver([common.TK_IMPL], [impl_cases[i] for i in lib_idx],
                                    jobs=int(os.environ.get("VERIF_JOBS", "0")) or min(8, common.NCPU))
            for i, a in zip(lib_idx, ans):
                res[i] = a
        return res

    # -- judgement
    def compare(self, case, impl, model):
        if model.get("r") != "OK" or impl.get("r") != "OK":
            return "driver problem: impl=%s model=%s %s %s" % (impl.get("r"), model.get("r"), impl.get("msg", ""), model.get("msg", ""))
        if case["op"] == "sub":
            # Model/SubCmd.lean: success flag, the files created, the pre-existing files changed
            a = (impl["rc"] == 0, sorted(impl["created"]), sorted(impl["changed"]))
            b = (bool(model["ok"]), sorted(model["created"]), sorted(model["changed"]))
            if a != b:
                return "sub-command %s: impl (ok, created, changed)=%s model=%s" % (case["cmd"], a, b)
            return None
        if case["op"] == "bufw":
            a = (impl["ok"], impl["len"], impl["prefix"])
            b = (model["ok"], model["len"], model["prefix"])
            if a != b:
                return "BufWriter: std says (ok, file length, prefix)=%s, model says %s" % (a, b)
            return None
        if impl["exit"] != model["exit"]:
            return "exit status: impl=%s model=%s" % (impl["exit"], model["exit"])
        if impl["announced"] != model["announced"]:
            return "announced: impl=%s model=%s" % (impl["announced"], model["announced"])
        def norm(f):
            # an empty file that is not the untouched marker: "prefix of the content" and "the (empty) content" coincide
            if f.get("len") == 0 and f["state"] in ("prefix", "complete"):
                return ("empty", 0)
            return (f["state"], f.get("len"))
        fi = {f["name"]: norm(f) for f in impl["files"]}
        fm = {f["name"]: norm(f) for f in model["files"]}
        for nme in sorted(set(fi) | set(fm)):
            x, y = fi.get(nme), fm.get(nme)
            if x != y:
                return "file %s: impl=%s model=%s" % (nme, x, y)
        return None

    def oracle(self, case, impl):
        op = case.get("op")
        if impl.get("r") != "OK":
            return {"sig": "runner:%s" % impl.get("r"), "what": "case could not be run: %s" % str(impl)[:300]}
        if op == "sub":
            pre = case.get("existing", [])
            if impl["changed"]:
                return {"sig": "sub-overwrites:%s" % case["cmd"], "what": "`tackler %s` with %s already present changed existing files %s (exit %s)" % (
                    case["cmd"], pre or "nothing", impl["changed"], impl["rc"])}
            if pre and impl["rc"] == 0:
                return {"sig": "sub-success-over-existing:%s" % case["cmd"], "what": "`tackler %s` succeeded although %s existed; created %s" % (
                    case["cmd"], pre, impl["created"])}
            if pre and impl["created"]:
                return {"sig": "sub-partial:%s" % case["cmd"], "what": "`tackler %s` failed over existing %s but created %s" % (case["cmd"], pre, impl["created"])}
            if not pre and (impl["rc"] != 0 or len(impl["created"]) < 7):
                return {"sig": "sub-fresh-fails:%s" % case["cmd"], "what": "`tackler %s` in a fresh directory: exit %s, created %s: %s" % (
                    case["cmd"], impl["rc"], impl["created"], impl["stderr"])}
            return None
        if op == "probe":
            ex = impl["exit"]
            if ex not in (0, 1):
                return {"sig": "crash", "what": "exit status %s: %s" % (ex, impl.get("stderr", ""))}
            if case["what"] == "closed-pipe":
                if ex == 0:
                    return {"sig": "write-failure-success:closed-pipe",
                            "what": "stdout is a pipe without reader (every write fails), reports %s: exit 0" % case["reports"]}
                if impl.get("extra"):
                    return {"sig": "stray-file", "what": "files created although no output directory was given: %s" % impl["extra"][:5]}
                return None
            if case["what"] == "outdir-prefix":
                if ex == 0 or impl["present"]:
                    return {"sig": "faulty-file-ignored:outdir-prefix",
                            "what": "journal sub-directory txns/outgoing holds a faulty file, output directory txns/out: exit %s, files written %s" % (
                                ex, sorted(impl["present"]))}
                return None
            planned = [fname(t) for t in case["reports"] + case["exports"]]
            present = impl["present"]
            for nme, size in present.items():
                if size < 0:
                    return {"sig": "announced-not-a-file", "what": "%s is not a regular file" % nme}
                if nme not in planned:
                    return {"sig": "stray-file", "what": "files created outside the destinations: %s" % nme}
            if ex == 0:
                if impl["announced"] != planned:
                    return {"sig": "success-announcements", "what": "exit 0, announced %s, planned %s" % (impl["announced"], planned)}
                missing = [n for n in impl["announced"] if n not in present]
                if missing:
                    return {"sig": "announced-missing", "what": "exit 0 and %s announced, but no such file exists (selector %r matches nothing)" % (
                        missing, case["accounts"])}
            return None
        if op == "wfail":
            self.remember({k: v for k, v in case.items() if k != "text"})
            if impl["bad"]:
                b = impl["bad"][0]
                return {"sig": "write-error-swallowed:%s:%s" % (case["target"], b["mode"]),
                        "what": "%s over a writer failing after %d bytes (%s): returned ok=%s, %d bytes accepted, content has %d" % (
                            case["target"], b["n"], b["mode"], b["ok"], b["len"], impl["total"])}
            return None
        if op == "bufw":
            total = sum(case["chunks"])
            if not impl["prefix"]:
                return {"sig": "bufw-garbage", "what": "BufWriter wrote bytes that are not a prefix of the content"}
            if case.get("flush_checked", True):
                if impl["ok"] and impl["len"] != total:
                    return {"sig": "bufw-success-incomplete", "what": "write+flush succeeded with %d of %d bytes" % (impl["len"], total)}
                if case["limit"] is not None and case["limit"] < total and impl["ok"]:
                    return {"sig": "bufw-fault-unreported", "what": "limit %d < %d bytes but write+flush succeeded" % (case["limit"], total)}
            return None
        # ---- op out: the property statement on the real binary
        mode = case.get("mode", "files")
        if len(self._samples) < 3 and case.get("limit") is not None and mode == "files":
            self.remember(case)
        ex = impl["exit"]
        if ex not in (0, 1):
            return {"sig": "crash", "what": "exit status %s: %s" % (ex, impl.get("stderr", ""))}
        if impl.get("inputs_changed"):
            return {"sig": "input-modified", "what": "journal / repository / configuration changed: %s" % impl["inputs_changed"][:5]}
        if impl.get("extra"):
            return {"sig": "stray-file", "what": "files created outside the destinations: %s" % impl["extra"][:5]}
        if mode == "console":
            c = impl["console"]
            if ex == 0 and c["state"] != "complete":
                return {"sig": "F4:console-truncated", "what": "exit 0 but stdout holds %d bytes (%s)" % (c["len"], c["state"])}
            if c["state"] == "other":
                return {"sig": "console-garbage", "what": "stdout is not a prefix of the fault-free output"}
            return None
        files = {f["name"]: f for f in impl["files"]}
        planned = [fname(t) for t in case["reports"] + case["exports"]]
        existing = {fname(e["t"]): e["len"] for e in case.get("existing", [])}
        # existing files: byte-identical, and the run fails if one of them is a destination
        for nme in existing:
            if files[nme]["state"] != "existing":
                return {"sig": "existing-overwritten", "what": "pre-existing %s is now %s" % (nme, files[nme])}
            if nme in planned and ex == 0:
                return {"sig": "existing-ignored", "what": "destination %s existed, yet exit 0" % nme}
        # nothing but prefixes of the right content at the destinations
        for nme, f in files.items():
            if f["state"] == "other":
                return {"sig": "garbage", "what": "%s holds bytes that are neither its content nor what was there" % nme}
        if ex == 0:
            # success: every planned destination announced and complete
            if impl["announced"] != planned:
                return {"sig": "success-announcements", "what": "exit 0, announced %s, planned %s" % (impl["announced"], planned)}
            for nme in impl["announced"]:
                if files[nme]["state"] != "complete":
                    return {"sig": "F4:success-truncated", "what": "exit 0 and %s announced, but it holds %s of its content" % (
                        nme, files[nme])}
            if mode == "nodir" or (mode == "badsel" and any(t != "identity" for t in case["reports"] + case["exports"])):
                return {"sig": "error-ignored", "what": "exit 0 in mode %s" % mode}
        # fail-stop: a limit below the size of a planned destination cannot end in success
        if case.get("limit") is not None and mode == "files":
            sizes, _ = self.sizes(case["journal"], case["input"])
            for t in case["reports"] + case["exports"]:
                if sizes[t] > case["limit"] and ex == 0:
                    return {"sig": "F4:fault-unreported", "what": "limit %d < size %d of %s, exit 0" % (case["limit"], sizes[t], t)}
        if mode == "nodir" and any(f["state"] != "absent" for f in files.values()):
            return {"sig": "stray-file", "what": "output directory did not exist, files appeared"}
        return None

    def nontrivial(self, case, impl):
        op = case.get("op")
        if op == "out":
            return bool(case.get("limit") is not None or case.get("existing") or case.get("mode", "files") != "files"
                        or len(case["reports"]) + len(case["exports"]) > 1)
        if op == "bufw":
            return case.get("limit") is not None and len(case["chunks"]) > 0
        return True

    def sample(self, case):
        c = {k: v for k, v in case.items() if k not in ("text",)}
        if "chunks" in c and len(c["chunks"]) > 40:
            c["chunks"] = c["chunks"][:40] + ["… %d pieces" % len(case["chunks"])]
        return c

    def rule(self):
        return ("op out: real tackler binary on generated probe journals (4 and 60 transactions; the larger gives a "
                "19.9 kB register, 8.5 kB identity export, 6 kB balance-group) with RLIMIT_FSIZE=k / SIGXFSZ ignored; "
                "k swept over 0,1,2,10,8191,8192,8193,16383..16385,size-1,size,size+1,+random (thorough: every offset) per "
                "single destination, over the size boundaries of all destinations for four multi-destination plans, every "
                "subset of the five destinations pre-created (lengths 0..9000) with and without a fault, random plans incl. "
                "repeated targets, a failing reporter, a missing output directory, console output into a limited file; "
                "file / fs-directory / git input; op bufw: std BufWriter vs model for capacities 0..16 x every limit and "
                "for the reporters' real piece sizes at 8192; op wfail: every reporter/exporter over a Write failing after "
                "n bytes for every n.  non-trivial = has a limit, an existing file, several destinations or a special mode; "
                "distinct = sha256 of the case line")

    def trusted_base(self):
        return super().trusted_base() + [
            "OS interface, not modelled (DESIGN.md section 9, C14 is partial in this respect): File::create_new fails on an "
            "existing path and creates nothing; write(2) under a size limit accepts bytes up to the limit and then fails; "
            "close(2) errors are invisible to the program; stdout is writable.  Exercised, not proved: the RLIMIT_FSIZE "
            "sweep on the real binary",
            "std::io::BufWriter is transliterated from the Rust 1.95 sources and compared with the real one on every run (op bufw)",
            "python CLI runner gen/c14.py (announcement parsing, snapshots, file classification against the fault-free run)"]

    def assumptions(self):
        return ["a fault is a per-file byte limit (what RLIMIT_FSIZE, a full disk or a quota look like to write(2)); "
                "transient faults are not in the model (the patched code `?`-propagates every write and flush error, op wfail)",
                "the announcement lines themselves can be written (stdout is a pipe or terminal)"]


PROP = C14()

if __name__ == "__main__":
    if "--worker" in sys.argv:
        worker()

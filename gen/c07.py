"""C07 — price conversion applies the documented rate, and only that rate.

Case: journal AST (+ rendered text), price entries in *file order* (+ rendered price file), lookup type,
reference instant, report commodity.  The implementation parses both texts, builds the lookup context as
the reporters do (verif hook `price_conversion`) and also prints the balance and register reports; the
Lean model gets the AST and the entries (instants in ns).  The oracle recomputes `rateAt` with Fractions
from the entries of the case and checks every converted figure, the metadata and the report texts.

Journal-level cases (kinds `jr:*`, C07 x C02 / C03 / C13): the same generated journal + price file go through op
`run` with `want: [txns, balance, register, balgrp]`.  The implementation prints the three reports with the price
section of the configuration; the Lean model answers `Priced.balanceReport / registerReport / balgrpReport`
(Model/PricedReports.lean: one price context per report, built from all its transactions) from a `price` block in the
case.  Compared text-exact: balance rows and deltas, group titles / rows / deltas, the "Commodity Prices" block of each
report; register entries (instant, code, description, uuid) and rows (account, amount, source commodity, `@ rate`,
running total, commodity) with the numbers normalised as C03 does.  The oracle converts the implementation's own list
of accepted postings with the python `rate_at` (Fractions) and checks the printed figures of all three reports."""
import datetime
import re
from decimal import Decimal as D
from fractions import Fraction as F

import common
import c02
import c13
from propbase import PropBase, model_cfg, cmp_status

POOL = ["EUR", "USD", "ACME", "kWh", "He·bar", "£", "Ärt"]
RATES = ["2", "0.5", "1.25", "120.306155", "0.00012", "3", "1.10", "7.5", "0.99", "10", "1", "2659.645203"]
ODD_RATES = ["0", "-1", "0.00", "-0.5"]
OFFSETS = [0, 3600, 7200, -18000, 19800, 20700, -34200, 50400, -43200, 86340, -86340]
TS_MAX_NS = 253402207200 * 10 ** 9 + 999999999        # jiff Timestamp::MAX = 9999-12-30T22:00:00.999999999Z
JR_BOUNDARY = ["same-conv-key", "selector"]
BOUNDARY = ["at-instant", "none-before", "inverse-only", "chain-only", "two-targets", "self-rate", "dup-keys",
            "empty-comm", "in-report-comm", "max-instant", "notations", "given-edge", "unused-report-comm", "lookup-none", "config-error",
            "default-time"]


def cfg_offset(cfg):
    tz = cfg.get("tz") or {}
    if "offset" in tz:
        o = tz["offset"]
        sgn = -1 if o.startswith("-") else 1
        hh, mm = o[1:].split(":")
        return sgn * (int(hh) * 3600 + int(mm) * 60)
    return 0


def render_instant(rng, ns, cfg, allow_date=True):
    """an ISO-8601 text of the instant `ns` in one of the three notations of the grammar, and its lexical
    content (token) for the model's own timestamp resolution"""
    coff = cfg_offset(cfg)
    r = rng.random()
    if r < 0.35:
        off, suffix, zone = coff, "", None
    elif r < 0.55:
        off, suffix, zone = 0, "Z", "Z"
    else:
        off = rng.choice(OFFSETS)
        suffix = common.fmt_off(off)
        zone = [off < 0, abs(off) // 3600, (abs(off) % 3600) // 60]
        if off == 0 and rng.random() < 0.5:
            suffix, zone = "-00:00", [True, 0, 0]
    local = ns + off * 10 ** 9
    secs, frac = divmod(local, 10 ** 9)
    dt = common.EPOCH + datetime.timedelta(seconds=secs)
    tok = {"y": dt.year, "m": dt.month, "d": dt.day, "time": None, "zone": zone}
    dh, dm, ds = [int(x) for x in (cfg.get("default_time") or "00:00:00").split(":")]
    if suffix == "" and allow_date and frac == 0 and (dt.hour, dt.minute, dt.second) == (dh, dm, ds) and rng.random() < 0.6:
        return "%04d-%02d-%02d" % (dt.year, dt.month, dt.day), tok
    text = "%04d-%02d-%02dT%02d:%02d:%02d" % (dt.year, dt.month, dt.day, dt.hour, dt.minute, dt.second)
    digits = None
    if frac:
        digits = ("%09d" % frac).rstrip("0")
        digits += "0" * rng.randrange(0, 10 - len(digits)) if rng.random() < 0.3 else ""
    elif rng.random() < 0.15:
        digits = "0" * rng.randrange(1, 10)
    if digits is not None:
        text += "." + digits
    tok["time"] = [dt.hour, dt.minute, dt.second, digits]
    return text + suffix, tok


def fmt_full_utc(ns):
    """tackler_api::txn_ts::as_tz_full in UTC: `%Y-%m-%d %H:%M:%S%.f`"""
    secs, frac = divmod(ns, 10 ** 9)
    dt = common.EPOCH + datetime.timedelta(seconds=secs)
    t = "%04d-%02d-%02d %02d:%02d:%02d" % (dt.year, dt.month, dt.day, dt.hour, dt.minute, dt.second)
    if frac:
        t += "." + ("%09d" % frac).rstrip("0")
    return t


def render_pricedb(rng, prices):
    out = []
    if rng.random() < 0.2:
        out.append(rng.choice(["", " \t", "  "]))
    for e in prices:
        sp = lambda: rng.choice([" ", " ", "  ", "\t", "   "])
        ln = "P" + sp() + e["text"] + sp() + e["base"] + sp() + e["rate"] + sp() + e["target"]
        r = rng.random()
        if r < 0.1:
            ln += " ; " + rng.choice(["c", "rate", "P 2020-01-01 X 1 Y"])
        elif r < 0.15:
            ln += "; no space"
        elif r < 0.25:
            ln += rng.choice([" ", "\t", "  "])
        out.append(ln)
        if rng.random() < 0.1:
            out.append(rng.choice(["", " ", "\t "]))
    return "\n".join(out) + "\n"


# ---------------------------------------------------------------------------------------------
# independent specification

def p_of(lookup, before_ns, txn_ns):
    if lookup == "txn-time":
        return lambda n: n <= txn_ns
    if lookup == "given-time":
        return lambda n: n < before_ns
    return lambda n: True


def rate_at(entries, src, tgt, pred):
    """entries: list of (ns, base, rate_text, target) in file order.  Returns (best_ns, [rate texts of the
    entries with that key in file order]) or None: the entry src->tgt with the greatest instant satisfying pred"""
    cands = [e for e in entries if e[1] == src and e[3] == tgt and pred(e[0])]
    if not cands:
        return None
    best = max(e[0] for e in cands)
    return best, [e[2] for e in cands if e[0] == best]


class C07(PropBase):
    id = "C07"

    # -- generation
    def gen(self, rng, tier, focus=None):
        n = 900 if tier == "quick" else 40000
        per = 25 if tier == "quick" else 500
        out = []
        for kind in BOUNDARY:
            for _ in range(per):
                out.append(self.gen_case(rng, kind))
        for _ in range(n):
            out.append(self.gen_case(rng, "random"))
        # journal-level cases: the three reports with conversion on
        jper = 10 if tier == "quick" else 200
        jn = 350 if tier == "quick" else 15000
        for kind in BOUNDARY:
            for _ in range(jper):
                out.append(self.to_run_case(rng, self.gen_case(rng, kind)))
        for kind in JR_BOUNDARY:
            for _ in range(jper * 2):
                out.append(self.to_run_case(rng, self.gen_case(rng, "random"), kind))
        for _ in range(jn):
            out.append(self.to_run_case(rng, self.gen_case(rng, "random")))
        for _ in range(8 if tier == "quick" else 120):
            out.append(self.gen_fallback_groups(rng))
        return out

    def gen_fallback_groups(self, rng):
        """txn-time conversion inside the balance-group report of a zone whose clock is set back over midnight: the groups
        are handled in period order, which is then *not* instant order, while every transaction still takes the rate
        valid at its own instant.  Judged without the model (named zone): per (account, commodity) the converted sums of
        the groups add up to the converted balance report of the same run, and every figure is amount x the rate at or
        before the transaction."""
        t = 1289098860            # 2010-11-07T03:01:00Z: America/Goose_Bay goes from 00:01 back to 23:01
        instants = [(t - 30), (t + 1740), (t + 5340)]
        if rng.random() < 0.5:
            instants.append(t + rng.choice([600, 2400, 4000, 7000]))
        rates = [rng.choice(["2", "3", "1.5"]), rng.choice(["5", "7", "0.25"]), rng.choice(["11", "13"])]
        pts = [t - 100, t + rng.choice([100, 900, 1700]), t + rng.choice([1800, 3000, 5000])]
        prices = "".join("P %s XAG %s EUR\n" % (
            (common.EPOCH + datetime.timedelta(seconds=p)).strftime("%Y-%m-%dT%H:%M:%SZ"), r) for p, r in zip(pts, rates))
        txns = []
        for i, sec in enumerate(instants):
            h = common.gen_header(rng, {}, {"p_uuid": 0.0, "p_loc": 0.0, "p_tags": 0.0, "p_comments": 0.0, "p_code": 0.0, "p_desc": 0.0})
            h["ts"] = {"ns": str(sec * 10 ** 9), "off": 0,
                       "text": (common.EPOCH + datetime.timedelta(seconds=sec)).strftime("%Y-%m-%dT%H:%M:%SZ")}
            unit = {"comm": "XAG", "opening": None, "closing": None}
            amt = str(rng.choice([1, 2, 10, 100]))
            h["posts"] = [{"acct": "a:" + "pq"[i % 2], "amount": amt, "unit": unit, "comment": None},
                          {"acct": "e:x", "amount": "-" + amt, "unit": unit, "comment": None}]
            h["last"] = None
            txns.append(h)
        rng.shuffle(txns)
        cfg = {"price": {"db": prices, "lookup": "txn-time"}, "report_commodity": "EUR",
               "report_tz": "America/Goose_Bay", "group_by": rng.choice(["date", "iso-week-date", "date"])}
        return {"op": "run", "kind": "jr:fallback-groups", "cfg": cfg, "txns": txns, "oracle_only": True,
                "text": common.render_journal(txns, common.gen_layout(rng)), "want": ["txns", "balance", "balgrp"],
                "fb_prices": [[p, r] for p, r in zip(pts, rates)]}

    def to_run_case(self, rng, pc, jr_kind=None):
        """a price-op case as an op `run` case: balance, register and balance-group reports of the same settings"""
        txns = pc["txns"]
        lookup = pc["lookup"]
        rc = pc["report_commodity"]
        kind = "jr:" + (jr_kind or pc["kind"])
        if jr_kind == "same-conv-key" and rc is not None and txns:
            # one transaction posts to the same account in a source commodity (valued in the report commodity through a
            # closing price, so the transaction balances in the report commodity) *and* in the report commodity itself:
            # different original keys, same converted key -- NOTE-1 of register_engine; written in either order
            src = sorted({e["base"] for e in pc["prices"] if e["target"] == rc and e["base"] not in (rc, "")}) or \
                [c for c in POOL if c != rc][:1]
            acct = rng.choice(txns)["posts"][0]["acct"]
            legs = [{"acct": acct, "amount": rng.choice(["1", "2.5", "3", "-10", "0.75"]), "comment": None,
                     "unit": {"comm": rng.choice(src), "opening": None,
                              "closing": {"k": "@", "v": rng.choice(["2", "0.5", "1.25"]), "c": rc}}},
                    {"acct": acct, "amount": rng.choice(["5", "-1.5", "7.25", "100"]), "comment": None,
                     "unit": {"comm": rc, "opening": None, "closing": None}}]
            rng.shuffle(legs)
            t2 = c02.hdr(rng, pc["cfg"], rng.randrange(12))
            if rng.random() < 0.8:
                t2["ts"] = dict(rng.choice(txns)["ts"])          # at the instant of another transaction
            t2["posts"] = legs
            t2["last"] = {"acct": rng.choice(["e", "x:y", acct + ":z"]), "comment": None}
            txns = txns + [t2]
        zone = rng.choice(list(c13.FIXED)) if rng.random() < 0.4 else "UTC"
        gb = rng.choice(c13.GROUP_BYS)
        cfg = dict(pc["cfg"])
        cfg["report_tz"] = zone
        cfg["group_by"] = gb
        case = {"op": "run", "kind": kind, "cfg": cfg, "txns": txns,
                "text": common.render_journal(txns, common.gen_layout(rng)) if txns is not pc["txns"] else pc["text"],
                "prices": pc["prices"], "lookup": lookup, "before_ns": pc["before_ns"], "before": pc["before"],
                "report_commodity": rc, "want": ["txns", "balance", "register", "balgrp"],
                "mgroup_by": gb, "zone": zone, "mreport_tz": {"off": c13.FIXED[zone]}}
        if pc.get("oracle_only"):
            case["oracle_only"] = True
        if jr_kind == "selector" or (jr_kind is None and rng.random() < 0.2):
            names = c02.all_row_names(txns)
            for rep in ("balance", "register", "balgrp"):
                if rng.random() < 0.75 and names:
                    sel = rng.sample(names, min(len(names), rng.randrange(1, max(2, len(names)))))
                    if rng.random() < 0.2:
                        sel.append(rng.choice(["zz", "a:nope", sel[0] + "x"]))
                    sel = sorted(set(sel))
                    cfg["sel_" + rep] = ["^" + c02.rx_escape(x) + "$" for x in sel]
                    case["msel_" + rep] = sel
        return case

    def gen_case(self, rng, kind):
        cfg = {}
        if rng.random() < 0.3 or kind == "notations":
            cfg["tz"] = {"offset": rng.choice(["+02:00", "-05:00", "+05:45", "+00:00", "-09:30"])}
        if kind == "default-time" or (kind == "random" and rng.random() < 0.05):
            # a configured default time other than midnight: a price entry (or a given time) written as a plain date is at
            # that time of day in the journal zone, exactly like a date-only transaction
            cfg["default_time"] = rng.choice(["12:00:00", "06:30:00", "23:59:59", "18:00:01"])
            cfg.setdefault("tz", {"offset": rng.choice(["+02:00", "-05:00", "+00:00"])})
        comms = rng.sample(POOL, rng.randrange(2, 5))
        rc = rng.choice(comms)
        lookup = rng.choice(["txn-time", "txn-time", "last-price", "given-time", "given-time"])
        opts = {"p_invalid": 0.0, "comms": comms, "p_comm": 0.85, "p_price": rng.choice([0.0, 0.2]),
                "p_opening": 0.05, "p_loc": 0.05, "p_tags": 0.1, "p_comments": 0.1,
                "n_txns": rng.choice([1, 2, 3, 3, 4, 6])}
        if kind == "empty-comm":
            opts["p_comm"] = 0.4
        if kind == "in-report-comm":
            opts["comms"] = [rc] if rng.random() < 0.5 else [rc, comms[0]]
        if kind == "lookup-none":
            lookup = "none"
        if kind == "max-instant":
            lookup = rng.choice(["last-price", "last-price", "txn-time", "given-time"])
        if kind == "given-edge":
            lookup = "given-time"
        txns = common.gen_journal(rng, cfg, opts)
        tns = [int(t["ts"]["ns"]) for t in txns]
        used = set()
        for t in txns:
            for p in t["posts"]:
                if p.get("unit"):
                    used.add(p["unit"]["comm"])
        if kind == "unused-report-comm":
            rc = rng.choice([c for c in POOL if c not in used] or [rc])
        srcs = sorted(c for c in (used | set(comms)) if c != rc)
        # reference instant
        before_ns = None
        if lookup == "given-time":
            before_ns = rng.choice(tns) + rng.choice([-1, 0, 0, 1, 10 ** 9, -86400 * 10 ** 9, 86400 * 10 ** 9 * 30])
        # instants for price entries
        def near():
            r = rng.random()
            if cfg.get("default_time") and r < 0.6:
                # at the default time of the civil day (journal zone) of a transaction, or of the day before / after
                off = cfg_offset(cfg)
                h, m, sec = [int(x) for x in cfg["default_time"].split(":")]
                loc = rng.choice(tns) // 10 ** 9 + off
                day = loc - loc % 86400 + rng.choice([-86400, 0, 0, 86400])
                return (day + h * 3600 + m * 60 + sec - off) * 10 ** 9
            if r < 0.5 or kind in ("at-instant", "notations"):
                return rng.choice(tns) + rng.choice([-1, 0, 0, 1])
            if before_ns is not None and (r < 0.7 or kind == "given-edge"):
                return before_ns + rng.choice([-1, 0, 0, 1])
            if r < 0.8:
                return rng.choice(tns) + rng.randrange(-40, 40) * 86400 * 10 ** 9 + rng.randrange(0, 86400) * 10 ** 9
            y = rng.choice([1999, 2022, 2023, 2024, 2025, 2031])
            return common.civil_to_ns(y, rng.randrange(1, 13), rng.randrange(1, 29), rng.randrange(24), rng.randrange(60),
                                      rng.randrange(60), rng.choice([0, 0, 1, 999999999, 500000000]))
        if kind == "none-before" and lookup != "last-price":
            lo = before_ns if lookup == "given-time" else max(tns) + 1
            near = lambda: lo + rng.choice([0, 0, 1, 5, 10 ** 9, 86400 * 10 ** 9])
        entries = []       # (ns, base, rate, target)

        def add(src, tgt, k=None, rate=None):
            for _ in range(k if k is not None else rng.choice([1, 1, 2, 3, 4, 6])):
                entries.append([near(), src, rate or (rng.choice(ODD_RATES) if rng.random() < 0.04 else rng.choice(RATES)), tgt])

        others = [c for c in POOL if c != rc]
        if kind == "inverse-only":
            for s in srcs:
                add(rc, s)
        elif kind == "chain-only":
            for s in srcs:
                mid = rng.choice([c for c in others if c != s] or ["XAU"])
                add(s, mid)
                add(mid, rc)
            # keep the chain genuinely indirect: no direct entry for the sources
            entries = [e for e in entries if not (e[1] in srcs and e[3] == rc and e[1] in used)]
        else:
            for s in srcs:
                if rng.random() < 0.8:
                    add(s, rc)
                if rng.random() < 0.25:
                    add(rc, s)                       # inverse pair
                if rng.random() < 0.25 or kind == "two-targets":
                    add(s, rng.choice([c for c in others if c != s] or ["XAU"]))     # another target
            if rng.random() < 0.15 or kind == "self-rate":
                add(rc, rc, rate=rng.choice(["2", "0.5", "1", "3"]))
            if rng.random() < 0.1 or kind == "self-rate":
                if srcs:
                    s = rng.choice(srcs)
                    add(s, s, k=1)
        if kind == "max-instant":
            s = rng.choice(srcs) if srcs else "XAU"
            entries.append([TS_MAX_NS, s, rng.choice(RATES), rc])
            if rng.random() < 0.5:
                entries.append([TS_MAX_NS - 1, s, rng.choice(RATES), rc])
        if not entries:
            entries.append([near(), "XAU", "2", "XAG"])
        # distinct keys unless the class is about duplicates
        seen, uniq = set(), []
        for e in entries:
            k = (e[0], e[1], e[3])
            if k in seen:
                continue
            seen.add(k)
            uniq.append(e)
        entries = uniq
        if kind == "dup-keys" or (kind == "random" and rng.random() < 0.05):
            for e in rng.sample(entries, min(len(entries), rng.randrange(1, 4))):
                entries.append([e[0], e[1], rng.choice(RATES), e[3]])
        if kind == "config-error" and rng.random() < 0.5:
            entries = []                             # a price file without entries is rejected
        rng.shuffle(entries)                         # the price file is in arbitrary order
        prices = []
        for ns, b, r, t in entries:
            if ns == TS_MAX_NS or ns == TS_MAX_NS - 1:
                text = "9999-12-30T22:00:00.%09dZ" % (ns % 10 ** 9)
                tok = {"y": 9999, "m": 12, "d": 30, "time": [22, 0, 0, "%09d" % (ns % 10 ** 9)], "zone": "Z"}
            else:
                text, tok = render_instant(rng, ns, cfg)
            prices.append({"ns": str(ns), "base": b, "rate": r, "target": t, "text": text, "tok": tok})
        pcfg = {"db": render_pricedb(rng, prices), "lookup": lookup}
        before = None
        if before_ns is not None:
            pcfg["before"], btok = render_instant(rng, before_ns, cfg)
            before = {"ns": str(before_ns), "tok": btok}
        cfg["price"] = pcfg
        if kind == "config-error" and entries:
            rc = None                                # conversion without a report commodity is rejected
        else:
            cfg["report_commodity"] = rc
        text = common.render_journal(txns, common.gen_layout(rng))
        case = {"op": "price", "kind": kind, "cfg": cfg, "txns": txns, "text": text, "prices": prices,
                "lookup": lookup, "before_ns": (str(before_ns) if before_ns is not None else None), "before": before,
                "report_commodity": rc}
        if cfg.get("default_time"):
            case["oracle_only"] = True       # the model's price op resolves date-only tokens at midnight; the oracle works on instants
        return case

    def impl_case(self, case):
        if case.get("op") == "run":
            return {k: case[k] for k in ("op", "cfg", "text", "want") if k in case}
        return {k: case[k] for k in ("op", "cfg", "text") if k in case}

    def price_block(self, case):
        """the `price` object of a journal-level model case: what op `price` takes, as one object"""
        b = {"lookup": case.get("lookup"), "report_commodity": case.get("report_commodity"),
             "prices": [{k: e[k] for k in ("ns", "base", "rate", "target", "tok") if k in e} for e in case["prices"]],
             "tz_offset_s": cfg_offset(case.get("cfg", {}))}
        if case.get("before") is not None:
            b["before"] = case["before"]
        elif case.get("before_ns") is not None:
            b["before"] = {"ns": case["before_ns"]}
        return b

    def model_case(self, case):
        if case.get("oracle_only"):
            return None
        if case.get("op") == "run":
            c = {"op": "run", "cfg": model_cfg(case.get("cfg", {})), "txns": case["txns"],
                 "want": ["balance", "register", "balgrp"], "price": self.price_block(case),
                 "mgroup_by": case["mgroup_by"], "mreport_tz": case["mreport_tz"]}
            for k in ("msel_balance", "msel_register", "msel_balgrp"):
                if case.get(k):
                    c[k] = case[k]
            return c
        c = {k: case.get(k) for k in ("op", "txns", "lookup", "report_commodity")}
        # the model resolves the timestamp tokens itself (Model/Time.lean); corpus cases may carry instants only
        c["prices"] = [{k: e[k] for k in ("ns", "base", "rate", "target", "tok") if k in e} for e in case["prices"]]
        if case.get("before") is not None:
            c["before"] = case["before"]
        elif case.get("before_ns") is not None:
            c["before"] = {"ns": case["before_ns"]}
        c["tz_offset_s"] = cfg_offset(case.get("cfg", {}))
        mc = dict(case.get("cfg", {}))
        c["cfg"] = model_cfg(mc)
        return c

    # -- correspondence
    def compare(self, case, impl, model):
        if case.get("op") == "run":
            return self.compare_run(case, impl, model)
        mi, ii = model.get("r"), impl.get("r")
        if mi == "UNDEF":
            return "skip"
        if mi == "BADCASE" or ii in ("BADCASE", "GARBLED", "ABORT", "TIMEOUT"):
            return "driver problem: impl=%s model=%s %s %s" % (ii, mi, impl.get("msg", ""), model.get("msg", ""))
        if ii != mi:
            return "status differs: impl=%s model=%s (%s)" % (ii, mi, (impl.get("msg") or "")[:200])
        if ii != "OK":
            return None
        if impl["db"] != model["db"]:
            return "loaded price db differs: impl=%s model=%s" % (str(impl["db"])[:500], str(model["db"])[:500])
        ci, cm = impl["conv"], model["conv"]
        if cm.get("r") == "UNDEF":
            return "skip"
        if ci.get("r") != cm.get("r"):
            return "conversion status differs: impl=%s model=%s" % (ci.get("r"), cm.get("r"))
        if ci.get("r") != "OK":
            return None
        a, b = ci["v"], cm["v"]
        if len(a["txns"]) != len(b["txns"]):
            return "number of transactions differs"
        for x, y in zip(a["txns"], b["txns"]):
            xs = {"ns": x["ns"], "uuid": x["uuid"], "posts": x["posts"]}
            if xs != y:
                return "converted postings differ: impl=%s model=%s" % (str(xs)[:600], str(y)[:600])
        if a["meta"] != b["meta"]:
            return "price metadata differs: impl=%s model=%s" % (str(a["meta"])[:500], str(b["meta"])[:500])
        return None

    # -- the property on the implementation alone
    def oracle_fallback_groups(self, case, impl):
        if impl.get("r") != "OK":
            return {"sig": "unexpected-status", "what": "valid journal + price file not processed: %s" % impl.get("r")}
        bal, grp = impl["out"].get("balance", {}), impl["out"].get("balgrp", {})
        if bal.get("r") != "OK" or grp.get("r") != "OK":
            return {"sig": "conv-report-failed", "what": "balance %s / balance-group %s under txn-time conversion" % (bal.get("r"), grp.get("r"))}
        pb = common.parse_balance_report(bal["v"])
        pg = common.parse_balgrp_report(grp["v"])
        if pb is None or pg is None:
            return {"sig": "conv-report-unreadable", "what": "balance / balance-group text cannot be read"}
        # exact expectation: every posting valued at the latest rate at or before its transaction
        want = {}
        for t in case["txns"]:
            sec = int(t["ts"]["ns"]) // 10 ** 9
            rate = None
            for p, r in sorted(case["fb_prices"]):
                if p <= sec:
                    rate = F(r)
            for po in t["posts"]:
                k = ("EUR" if rate is not None else "XAG", po["acct"])
                want[k] = want.get(k, F(0)) + F(po["amount"]) * (rate if rate is not None else 1)
        got_bal = {(r[0], r[1]): F(r[2]) for r in pb[0] if F(r[2]) != 0 or (r[0], r[1]) in want}
        got_grp = {}
        for g in pg:
            for r in g["rows"]:
                got_grp[(r[0], r[1])] = got_grp.get((r[0], r[1]), F(0)) + F(r[2])
        for k, v in want.items():
            if got_bal.get(k, F(0)) != v:
                return {"sig": "conv-balance-figures", "what": "balance report: %s is %s, amount x rate at the transactions' instants gives %s" % (k, got_bal.get(k), v)}
            if got_grp.get(k, F(0)) != v:
                return {"sig": "conv-balgrp-figures", "what": "balance-group report (zone %s, %s): the groups' sums of %s add up to %s, amount x rate at the "
                        "transactions' own instants gives %s" % (case["cfg"]["report_tz"], case["cfg"]["group_by"], k, got_grp.get(k), v)}
        return None

    def oracle(self, case, impl):
        if case.get("kind") == "jr:fallback-groups":
            return self.oracle_fallback_groups(case, impl)
        if case.get("op") == "run":
            return self.oracle_run(case, impl)
        r = impl.get("r")
        if r in ("PANIC", "ABORT", "TIMEOUT"):
            return None      # C15's business
        if r == "ERR":
            return None      # the journal itself is rejected (C01's business; the tie compares the status)
        if r == "CFGERR" and case["lookup"] != "none" and (not case["prices"] or case["report_commodity"] is None):
            return None      # documented configuration errors: empty price file, no report commodity
        if r != "OK":
            return {"sig": "unexpected-status", "what": "valid journal + price file not processed: %s %s" % (r, (impl.get("msg") or "")[:200])}
        conv = impl["conv"]
        if conv.get("r") != "OK":
            return None      # arithmetic overflow panic: outside the exact domain
        self.remember(case)
        lookup = case["lookup"]
        rc = case["report_commodity"]
        if lookup != "none" and (not case["prices"] or rc is None):
            return {"sig": "config-accepted", "what": "price conversion without %s was accepted" % ("price entries" if rc is not None else "a report commodity")}
        before_ns = int(case["before_ns"]) if case.get("before_ns") is not None else None
        entries = [(int(e["ns"]), e["base"], e["rate"], e["target"]) for e in case["prices"]]
        keys = [(e[0], e[1], e[3]) for e in entries]
        distinct = len(set(keys)) == len(keys)
        # 1. the loaded db: a function of the *set* of entries (sorted by instant, base, target; one per key)
        if lookup != "none":
            exp = {}
            for e in entries:
                exp.setdefault((e[0], e[1], e[3]), []).append(e[2])
            got = [(int(e["ns"]), e["base"], e["target"]) for e in impl["db"]]
            if got != sorted(exp.keys()):
                return {"sig": "db-order", "what": "loaded price db is not the entries sorted by (instant, base, target), one per key: %s" % str(got)[:300]}
            for e in impl["db"]:
                k = (int(e["ns"]), e["base"], e["target"])
                if F(e["rate"]) not in [F(x) for x in exp[k]]:
                    return {"sig": "db-rate", "what": "db entry %s carries a rate that is not in the price file" % str(k)}
                if distinct and e["rate"] != exp[k][0]:
                    return {"sig": "db-rate", "what": "db entry %s rate text %s, file says %s" % (str(k), e["rate"], exp[k][0])}
        # 2. every converted posting
        applied = {}       # src -> set of (ns, rate) used
        used = set()
        has_any = {}
        for t in conv["v"]["txns"]:
            tns = int(t["ns"])
            if len(t["orig"]) != len(t["posts"]):
                return {"sig": "posting-count", "what": "conversion changed the number of postings"}
            for o, c in zip(t["orig"], t["posts"]):
                src = o["comm"]
                used.add(src)
                ra = None
                if lookup != "none" and src != "" and src != rc:
                    ra = rate_at(entries, src, rc, p_of(lookup, before_ns, tns))
                if c["acct"] != o["acct"]:
                    return {"sig": "account-changed", "what": "conversion changed the account %s -> %s" % (o["acct"], c["acct"])}
                if ra is None:
                    if (c["comm"], F(c["amount"]), c["rate"]) != (src, F(o["amount"]), None):
                        why = "empty commodity" if src == "" else ("already in the report commodity" if src == rc else "no applicable rate %s->%s" % (src, rc))
                        sig = "self-rate" if src == rc else ("invented-rate" if src != "" else "empty-commodity-converted")
                        return {"sig": sig, "what": "posting %s %s %s (%s) must stay unchanged, got %s %s rate %s" % (
                            o["acct"], o["amount"], src, why, c["amount"], c["comm"], c["rate"])}
                    continue
                best_ns, rates = ra
                ok_rates = [F(x) for x in rates] if not distinct else [F(rates[0])]
                if c["comm"] != rc:
                    return {"sig": "not-converted", "what": "posting %s %s %s has the rate %s (at %d) into %s but was not converted" % (
                        o["acct"], o["amount"], src, rates[0], best_ns, rc)}
                val = F(c["amount"])
                hit = [q for q in ok_rates if F(o["amount"]) * q == val]
                if not hit:
                    exact = D(o["amount"]) * D(rates[0])
                    if not common.dec_fits(exact) and abs(val - F(o["amount"]) * ok_rates[0]) <= abs(val) * F(1, 10 ** 18):
                        return {"sig": "F17:inexact-arithmetic", "what": "converted value %s is the rounded product of %s x %s (exact %s is not representable, rust_decimal rounded silently)" % (
                            c["amount"], o["amount"], rates[0], exact)}
                    return {"sig": "wrong-rate", "what": "posting %s %s %s at %d valued %s %s; documented rate %s (entry at %d) gives %s" % (
                        o["acct"], o["amount"], src, tns, c["amount"], rc, rates[0], best_ns, F(o["amount"]) * ok_rates[0])}
                if lookup == "txn-time":
                    if c["rate"] is None or F(c["rate"]) not in ok_rates or F(o["amount"]) * F(c["rate"]) != val:
                        return {"sig": "reported-rate", "what": "rate shown for the posting (%s) is not the rate applied (%s)" % (c["rate"], rates[0])}
                elif c["rate"] is not None:
                    return {"sig": "reported-rate", "what": "fixed lookup reports a per-posting rate %s" % c["rate"]}
                applied.setdefault(src, set()).add((best_ns, hit[0]))
        # 3. metadata = exactly the rates applied
        meta = conv["v"]["meta"]
        if lookup == "none":
            if meta:
                return {"sig": "metadata", "what": "price metadata without conversion"}
        elif lookup == "txn-time":
            exp_src = sorted(s for s in used if s not in ("", rc) and any(e[1] == s and e[3] == rc for e in entries))
            got = [(m["ns"], m["source"], m["rate"], m["target"]) for m in meta]
            if got != [(None, s, None, rc) for s in exp_src]:
                return {"sig": "metadata", "what": "txn-time metadata lists %s, expected sources %s" % (str(got)[:300], exp_src)}
        else:
            if sorted(m["source"] for m in meta) != sorted(applied.keys()) or [m["source"] for m in meta] != sorted(m["source"] for m in meta):
                return {"sig": "metadata", "what": "metadata lists %s, rates applied for %s" % ([m["source"] for m in meta], sorted(applied))}
            for m in meta:
                ap = sorted(applied[m["source"]])
                if len(ap) != 1 or int(m["ns"]) != ap[0][0] or F(m["rate"]) != ap[0][1] or m["target"] != rc:
                    return {"sig": "metadata", "what": "metadata record %s differs from the rate applied %s" % (str(m), str(ap))}
        # 4. the reports really show these figures
        return self.report_oracle(case, impl, conv["v"], lookup, rc)

    def report_oracle(self, case, impl, cv, lookup, rc):
        bal = impl.get("balance", {})
        reg = impl.get("register", {})
        if bal.get("r") != "OK" or reg.get("r") != "OK":
            if bal.get("r") == "PANIC" or reg.get("r") == "PANIC":
                return None
            return {"sig": "report-status", "what": "report failed: balance=%s register=%s %s" % (bal.get("r"), reg.get("r"), (bal.get("msg") or reg.get("msg") or "")[:200])}
        # balance: own sums per (commodity, account) of the converted postings
        sums = {}
        for t in cv["txns"]:
            for c in t["posts"]:
                k = (c["comm"], c["acct"])
                sums[k] = sums.get(k, F(0)) + F(c["amount"])
        pb = common.parse_balance_report(bal["v"])
        if pb is None:
            return {"sig": "balance-text", "what": "balance report has no BALANCE block"}
        rows, _ = pb
        shown = {(c, a): own for (c, a, own, _tree) in rows}
        for k, v in sums.items():
            if k not in shown:
                if v == 0:
                    continue
                return {"sig": "balance-figures", "what": "balance report has no row for %s %s (converted sum %s)" % (k[1], k[0], v)}
            try:
                sv = F(shown[k])
            except (ValueError, ZeroDivisionError):
                return {"sig": "balance-text", "what": "unreadable balance row %s" % str(k)}
            if sv != v:
                if abs(sv - v) <= abs(v) * F(1, 10 ** 18) and len(str(v.numerator)) > 25:
                    return {"sig": "F17:inexact-arithmetic", "what": "balance sum %s for %s %s is a rounded sum (exact %s)" % (shown[k], k[1], k[0], v)}
                return {"sig": "balance-figures", "what": "balance report shows %s for %s %s, converted postings sum to %s" % (shown[k], k[1], k[0], v)}
        for (c, a), own in shown.items():
            if (c, a) not in sums and F(own) != 0:
                return {"sig": "balance-figures", "what": "balance report row %s %s = %s without postings" % (a, c, own)}
        # metadata block of both reports
        for name, text in (("balance", bal["v"]), ("register", reg["v"])):
            got = parse_price_metadata(text)
            exp = []
            for m in cv["meta"]:
                exp.append((fmt_full_utc(int(m["ns"])) if m["ns"] is not None else "At txn time", m["source"],
                            (m["rate"] if m["rate"] is not None else "-") + " " + m["target"]))
            if got != exp:
                return {"sig": "metadata-text", "what": "%s report prints price metadata %s, context has %s" % (name, str(got)[:300], str(exp)[:300])}
        # register: rows per entry in (commodity, account) order of the original postings; running totals
        ents = parse_register(reg["v"])
        if len(ents) != len(cv["txns"]):
            return {"sig": "register-text", "what": "register prints %d entries for %d transactions" % (len(ents), len(cv["txns"]))}
        totals = {}
        for t, rows in zip(cv["txns"], ents):
            pairs = sorted(zip(t["orig"], t["posts"]), key=lambda oc: (oc[0]["comm"].encode("utf-8"), oc[0]["acct"].encode("utf-8")))
            if len(rows) != len(pairs):
                return {"sig": "register-text", "what": "register entry has %d rows for %d postings" % (len(rows), len(pairs))}
            for (o, c), row in zip(pairs, rows):
                k = (c["comm"], c["acct"])
                totals[k] = totals.get(k, F(0)) + F(c["amount"])
                exp_base = o["comm"] if c["comm"] != o["comm"] else None
                exp_rate = c["rate"] if c["comm"] != o["comm"] else None
                try:
                    okrow = (row["acct"] == o["acct"] and F(row["amount"]) == F(o["amount"]) and row["base"] == exp_base
                             and (row["rate"] is None) == (exp_rate is None)
                             and (exp_rate is None or F(row["rate"]) == F(exp_rate))
                             and F(row["total"]) == totals[k] and row["comm"] == c["comm"])
                except (ValueError, ZeroDivisionError, TypeError):
                    okrow = False
                if not okrow:
                    return {"sig": "register-figures", "what": "register row %s, expected %s %s base=%s rate=%s total=%s %s" % (
                        str(row), o["acct"], o["amount"], exp_base, exp_rate, totals[k], c["comm"])}
        return None

    # ---------------------------------------------------------------------------------------------
    # journal-level cases (op `run`): tie
    def compare_run(self, case, impl, model):
        mi, ii = model.get("r"), impl.get("r")
        if mi == "UNDEF":
            return "skip"
        if mi == "BADCASE" or ii in ("BADCASE", "GARBLED", "ABORT", "TIMEOUT"):
            return "driver problem: impl=%s model=%s %s %s" % (ii, mi, impl.get("msg", ""), model.get("msg", ""))
        outs = model.get("out", {}) if mi == "OK" else {}
        if ii == "CFGERR":
            # `Settings::try_from` rejects the price configuration before anything is loaded
            st = {k: (outs.get(k) or {}).get("r") for k in ("balance", "register", "balgrp")}
            if mi == "OK" and all(v in ("CFGERR", "UNDEF") for v in st.values()):
                return "skip" if "UNDEF" in st.values() else None
            return "price configuration rejected by the implementation only: model=%s %s (%s)" % (mi, st, (impl.get("msg") or "")[:200])
        if ii != mi:
            return "load status differs: impl=%s model=%s (%s)" % (ii, mi, (impl.get("msg") or "")[:200])
        if ii != "OK":
            return None
        off = c13.FIXED[case.get("zone", "UTC")]
        skipped = 0
        for kind in ("balance", "register", "balgrp"):
            a, b = impl["out"][kind], outs[kind]
            if b.get("r") == "UNDEF":
                skipped += 1
                continue
            ar = a.get("r")
            if kind == "balgrp" and ar == "PANIC":
                ar = "ERR"          # `expect` inside balance_groups: the model says ERR
            if ar != b.get("r"):
                return "%s status differs: impl=%s model=%s (%s)" % (kind, a.get("r"), b.get("r"), str(a.get("msg"))[:200])
            if ar != "OK":
                continue
            # metadata block of the report = records of the context the figures were converted with
            got = parse_price_metadata(a["v"])
            exp = [(fmt_full_utc(int(m["ns"]) + off * 10 ** 9) if m["ns"] is not None else "At txn time", m["source"],
                    (m["rate"] if m["rate"] is not None else "-") + " " + m["target"]) for m in b.get("meta", [])]
            if got != exp:
                return "%s: price metadata block differs: impl=%s model=%s" % (kind, str(got)[:400], str(exp)[:400])
            d = getattr(self, "cmp_" + kind)(a["v"], b["v"], off)
            if d:
                return d
        return "skip" if skipped == 3 else None

    def cmp_balance(self, text, mv, off):
        parsed = common.parse_balance_report(text)
        if parsed is None:
            return "balance report without title: %r" % text[:300]
        return cmp_rows("balance", parsed[0], parsed[1], mv)

    def cmp_balgrp(self, text, mv, off):
        groups = common.parse_balgrp_report(text)
        if groups is None:
            return "balance-group report without title: %r" % text[:300]
        if [g["title"] for g in groups] != [g["title"] for g in mv]:
            return "group titles differ: impl=%s model=%s" % ([g["title"] for g in groups], [g["title"] for g in mv])
        for g, m in zip(groups, mv):
            d = cmp_rows("group " + str(g["title"]), g["rows"], g["deltas"], m)
            if d:
                return d
        return None

    def cmp_register(self, text, mv, off):
        ents = parse_register_priced(text)
        if ents is None:
            return "register report without title: %r" % text[:300]
        if len(ents) != len(mv):
            return "register: %d entries printed, model has %d" % (len(ents), len(mv))
        for k, (e, m) in enumerate(zip(ents, mv)):
            if e.get("garbled") is not None or e["ts"] is None:
                return "register entry %d garbled: %s" % (k, str(e.get("garbled"))[:120])
            x = (common.register_ts_ns(e["ts"]) - off * 10 ** 9, e["code"], e["desc"], e["uuid"])
            y = (int(m["ns"]), m["code"], m["desc"], m["uuid"])
            if x != y:
                return "register entry %d header differs: impl=%s model=%s" % (k, x, y)
            rows = [canon_reg_row(r) for r in e["rows"]]
            # model row: [account, amount, posting commodity, rate|null, running total, shown commodity]
            mrows = [(a, common.dec_norm(v), (pcm if pcm != cm else None), (rt if pcm != cm else None), common.dec_norm(t), cm)
                     for a, v, pcm, rt, t, cm in m["rows"]]
            if rows != mrows:
                return "register entry %d rows differ: impl=%s model=%s" % (k, str(rows)[:500], str(mrows)[:500])
        return None

    # ---------------------------------------------------------------------------------------------
    # journal-level cases: the property on the implementation's reports alone
    def spec_convert(self, case, txns):
        """convert the accepted postings with the documented rate (python `rate_at`).  Returns
        {"txns": [{ns, hdr, orig: [...], posts: [{acct, comm, amount(Fraction), rate}]}], "meta": [(time ns|None, src, value)]},
        or a string: "ambiguous" (duplicate key with different rates is the one selected), "inexact" (a product outside
        the exact path of rust_decimal: outside the property's numeric domain)"""
        lookup, rc = case["lookup"], case["report_commodity"]
        before_ns = int(case["before_ns"]) if case.get("before_ns") is not None else None
        entries = [(int(e["ns"]), e["base"], e["rate"], e["target"]) for e in case["prices"]]
        applied, used = {}, set()
        out = []
        for t in txns:
            tns = int(t["ts"]["ns"])
            posts = []
            for p in t["posts"]:
                src = p["comm"]
                used.add(src)
                ra = None
                if lookup != "none" and rc is not None and src != "" and src != rc:
                    ra = rate_at(entries, src, rc, p_of(lookup, before_ns, tns))
                if ra is None:
                    posts.append({"acct": p["acct"], "comm": src, "amount": F(p["amount"]), "text": p["amount"], "rate": None})
                    continue
                best_ns, rates = ra
                if len({F(x) for x in rates}) > 1 or len(set(rates)) > 1:
                    return "ambiguous"
                ca, sa = c02.dnum(p["amount"])
                cb, sb = c02.dnum(rates[0])
                if ca != 0 and cb != 0 and (sa + sb > 28 or abs(ca * cb) > common.MAX96):
                    return "inexact"
                coeff, sc = (ca * cb, sa + sb) if ca != 0 and cb != 0 else (0, 0)
                posts.append({"acct": p["acct"], "comm": rc, "amount": F(p["amount"]) * F(rates[0]),
                              "text": dec_text(coeff, sc), "rate": rates[0] if lookup == "txn-time" else None})
                applied.setdefault(src, set()).add((best_ns, rates[0]))
            out.append({"ns": tns, "t": t, "orig": t["posts"], "posts": posts})
        if lookup == "none" or rc is None:
            meta = []
        elif lookup == "txn-time":
            meta = [("At txn time", s, "- " + rc) for s in sorted(x for x in used if x not in ("", rc) and
                                                                   any(e[1] == x and e[3] == rc for e in entries))]
        else:
            for s, ap in applied.items():
                if len(ap) != 1:
                    return "ambiguous"
            meta = [(sorted(applied[s])[0][0], s, sorted(applied[s])[0][1] + " " + rc) for s in sorted(applied)]
        return {"txns": out, "meta": meta}

    def oracle_run(self, case, impl):
        r = impl.get("r")
        if r in ("PANIC", "ABORT", "TIMEOUT", "ERR"):
            return None      # C15's / C01's business
        lookup, rc = case["lookup"], case["report_commodity"]
        if r == "CFGERR":
            if lookup != "none" and (not case["prices"] or rc is None):
                return None  # documented configuration errors: empty price file, no report commodity
            return {"sig": "unexpected-status", "what": "valid journal + price file not processed: %s %s" % (r, (impl.get("msg") or "")[:200])}
        if r != "OK":
            return {"sig": "unexpected-status", "what": "valid journal + price file not processed: %s" % r}
        if lookup != "none" and (not case["prices"] or rc is None):
            return {"sig": "config-accepted", "what": "price conversion without %s was accepted" % ("price entries" if rc is not None else "a report commodity")}
        out = impl["out"]
        if out["txns"].get("r") != "OK":
            return {"sig": "txns-output", "what": "accepted set cannot be listed: %s" % out["txns"].get("r")}
        sc = self.spec_convert(case, out["txns"]["v"])
        if not isinstance(sc, dict):
            return None      # duplicate keys (outside the property's quantifier) / inexact product (F17 domain)
        self.remember(case)
        off = c13.FIXED[case.get("zone", "UTC")]
        exp_meta = [((fmt_full_utc(m[0] + off * 10 ** 9) if not isinstance(m[0], str) else m[0]), m[1], m[2]) for m in sc["meta"]]
        for kind in ("balance", "register", "balgrp"):
            o = out[kind]
            if o.get("r") == "PANIC":
                continue     # overflowing sums: outside the numeric domain
            if o.get("r") != "OK":
                return {"sig": "report-status", "what": "%s report failed: %s %s" % (kind, o.get("r"), str(o.get("msg"))[:200])}
            got = parse_price_metadata(o["v"])
            if got != exp_meta:
                return {"sig": "metadata-text", "what": "%s report prints price metadata %s, the rates applied are %s" % (
                    kind, str(got)[:300], str(exp_meta)[:300])}
            f = getattr(self, "chk_" + kind)(case, sc, o["v"], off)
            if f:
                return f
        return None

    def classify(self, f, posts, sel, prefix):
        if f is None:
            return None
        if not c02.report_exact(posts, sel):
            return {"sig": "F17:inexact-arithmetic", "what": "%s (a sum on the way is not representable: rust_decimal rounded silently)" % f["what"]}
        return {"sig": prefix + f["sig"], "what": f["what"]}

    def chk_balance(self, case, sc, text, off):
        posts = [(c["comm"], c["acct"], c["text"]) for t in sc["txns"] for c in t["posts"]]
        sel = set(case["msel_balance"]) if case.get("msel_balance") else None
        return self.classify(c02.PROP.check_report(posts, sel, text, {"no_price": False}), posts, sel, "conv-balance-")

    def chk_balgrp(self, case, sc, text, off):
        sel = set(case["msel_balgrp"]) if case.get("msel_balgrp") else None
        groups = common.parse_balgrp_report(text)
        if groups is None:
            return {"sig": "no-report", "what": "balance-group report text without title"}
        exp = {}
        for t in sc["txns"]:
            exp.setdefault(c13.period_key(t["ns"], off, case["mgroup_by"]), []).extend(
                (c["comm"], c["acct"], c["text"]) for c in t["posts"])
        listed = {}
        for k, posts in exp.items():
            keys = {(c, a) for c, a, _ in posts}
            for (c, a) in list(keys):
                keys.update((c, x) for x in c02.ancestors(a))
            if any(sel is None or a in sel for _, a in keys):
                listed[k] = posts
        titles = [g["title"] for g in groups]
        if titles != sorted(listed):
            return {"sig": "conv-group-set", "what": "printed periods %s, periods with a listed converted row: %s" % (titles, sorted(listed))}
        for g in groups:
            f = self.classify(c02.PROP.check_report(listed[g["title"]], sel, c13.group_body_as_balance(g), {"no_price": False}),
                              listed[g["title"]], sel, "conv-group-")
            if f:
                f["what"] = "group %s: %s" % (g["title"], f["what"])
                return f
        return None

    def chk_register(self, case, sc, text, off):
        sel = set(case["msel_register"]) if case.get("msel_register") else None
        ents = parse_register_priced(text)
        if ents is None:
            return {"sig": "no-report", "what": "register report text without title"}
        totals, exp, inexact = {}, [], False
        for t in sc["txns"]:
            # NOTE-1: accumulate in the order of the *original* (commodity, account), under the *converted* key
            pairs = sorted(zip(t["orig"], t["posts"]), key=lambda oc: (oc[0]["comm"].encode("utf-8"), oc[0]["acct"].encode("utf-8")))
            rows = []
            for o, c in pairs:
                k = (c["comm"], c["acct"])
                prev = totals.get(k)
                totals[k] = (prev[0] + c["amount"], c02.dadd(prev[1], c02.dnum(c["text"]))) if prev else (c["amount"], c02.dnum(c["text"]))
                if totals[k][1] is None:
                    inexact = True
                if sel is None or o["acct"] in sel:
                    conv = c["comm"] != o["comm"]
                    rows.append((o["acct"], F(o["amount"]), o["comm"] if conv else None, c["rate"] if conv else None,
                                 totals[k][0], c["comm"]))
            if rows:
                exp.append((t["ns"], rows))
        def bad(what, sig="conv-register-figures"):
            if inexact:
                return {"sig": "F17:inexact-arithmetic", "what": what + " (a running total is not representable)"}
            return {"sig": sig, "what": what}
        if len(ents) != len(exp):
            return bad("register prints %d entries, %d transactions have a listed posting" % (len(ents), len(exp)), "conv-register-entries")
        for e, (ns, rows) in zip(ents, exp):
            if e.get("garbled") is not None or e["ts"] is None:
                return {"sig": "register-text", "what": "garbled register entry: %s" % str(e.get("garbled"))[:120]}
            if common.register_ts_ns(e["ts"]) - off * 10 ** 9 != ns:
                return bad("register entry at %s, transaction instant %d" % (e["ts"], ns), "conv-register-entries")
            if len(e["rows"]) != len(rows):
                return bad("register entry %s has %d rows for %d listed postings" % (e["ts"], len(e["rows"]), len(rows)))
            for row, x in zip(e["rows"], rows):
                try:
                    ok = (row["acct"] == x[0] and F(row["amount"]) == x[1] and row["base"] == x[2] and row["rate"] == x[3]
                          and F(row["total"]) == x[4] and row["comm"] == x[5])
                except (ValueError, ZeroDivisionError, TypeError):
                    ok = False
                if not ok:
                    return bad("register row %s, expected account %s amount %s source %s rate %s running total %s %s" % (
                        str(row), x[0], x[1], x[2], x[3], x[4], x[5]))
        return None

    # -- shrinking of an oracle failure: drop transactions and price entries while the same failure remains
    def rebuild(self, case, txns, prices):
        c = dict(case)
        c["txns"] = txns
        c["prices"] = prices
        c["text"] = common.render_journal(txns)
        cfg = dict(case["cfg"])
        pc = dict(cfg["price"])
        pc["db"] = "".join("P %s %s %s %s\n" % (e["text"], e["base"], e["rate"], e["target"]) for e in prices)
        cfg["price"] = pc
        c["cfg"] = cfg
        return c

    def shrink(self, failure):
        case, sig = failure["case"], failure["oracle"].get("sig")
        best = dict(failure)
        budget = 60
        changed = True
        while changed and budget > 0:
            changed = False
            txns, prices = best["case"]["txns"], best["case"]["prices"]
            cands = [(txns[:i] + txns[i + 1:], prices) for i in range(len(txns)) if len(txns) > 1]
            cands += [(txns, prices[:i] + prices[i + 1:]) for i in range(len(prices)) if len(prices) > 1]
            for tx, pr in cands:
                if budget <= 0:
                    break
                budget -= 1
                c = self.rebuild(best["case"], tx, pr)
                impl = common.run_driver([common.TK_IMPL], [self.impl_case(c)], jobs=1)[0]
                of = self.oracle(c, impl)
                if of and of.get("sig") == sig:
                    best = dict(case=c, impl=impl, model=None, oracle=of)
                    changed = True
                    break
        return best

    def nontrivial(self, case, impl):
        if case.get("oracle_only"):
            return impl.get("r") == "OK"
        if case.get("op") == "run":
            if impl.get("r") != "OK" or impl["out"].get("txns", {}).get("r") != "OK":
                return False
            sc = self.spec_convert(case, impl["out"]["txns"]["v"])
            if isinstance(sc, dict):
                return any(c["comm"] != o["comm"] for t in sc["txns"] for o, c in zip(t["orig"], t["posts"])) or \
                    case.get("kind", "")[3:] in BOUNDARY
            return False
        if impl.get("r") != "OK" or impl["conv"].get("r") != "OK":
            return False
        for t in impl["conv"]["v"]["txns"]:
            for o, c in zip(t["orig"], t["posts"]):
                if o["comm"] != c["comm"]:
                    return True
        return case.get("kind") in BOUNDARY

    def rule(self):
        return ("journal ASTs from gen/common.py (2-4 commodities incl. non-ASCII names and the empty one, closing prices) "
                "with a price file of 1-30 entries whose instants cluster at the transaction instants and the reference "
                "instant (exactly, +-1 ns) and are written in the three timestamp notations with offsets -23:59..+23:59; "
                "pairs: source->report commodity, inverse, chains, other targets, self rates; shuffled file order; "
                "lookup in {txn-time, last-price, given-time, none}; 14 boundary classes; non-trivial = at least one posting "
                "is converted or the case is a boundary class; distinct = sha256 of the implementation case line.  "
                "Journal-level cases (jr:*, op run, about 30% of the cases): the same journals + price files through the "
                "balance, register and balance-group reports (all lookup kinds, all 15 boundary classes, plus same-conv-key "
                "= one transaction posting to one account in a source commodity and in the report commodity, and selector = "
                "exact-name account selectors per report); report zone UTC or Etc/GMT+-N, all five group-by settings; "
                "corpus: the journal of the Lean example (Props/C07b.lean Ex) under the three lookup kinds")

    def trusted_base(self):
        return super().trusted_base() + [
            "the model reads price entries as (timestamp token, base, rate, target) and resolves the token itself "
            "(Model/Time.lean resolveTs, fixed-offset journal zones); the price-file grammar (text -> token) is exercised on the "
            "implementation side only; the oracle uses the instant computed independently by the python renderer",
            "rust_decimal multiplication outside the exact domain (model answers UNDEF, case skipped)",
            "journal-level cases: the model's settings get the report commodity and the price-file commodities registered "
            "(Priced.reportSettings = the commodity side of Settings::try_from / parse_price_entry, lax mode in the generated "
            "cases); account selectors are exact-name (regex semantics are C11's); report zones are fixed offsets; the "
            "register text is compared number-normalised as in C03, balance / group rows and the metadata block text-exact"]

    def assumptions(self):
        return ["price db entries have a non-empty base commodity (guaranteed by p_identifier; hypothesis of metadata_true)",
                "order independence is claimed for price files with distinct (instant, base, target) keys; with duplicate keys "
                "the first entry in file order wins (modelled and tied, outside the property's quantifier)",
                "model describes the tree with fixes/F10-never-convert-report-commodity.diff and fixes/F19-last-price-unbounded.diff applied"]


def parse_price_metadata(text):
    """the 'Commodity Prices' block -> [(time, commodity, value)]"""
    lines = text.split("\n")
    try:
        i = lines.index("Commodity Prices")
    except ValueError:
        return []
    out, cur = [], {}
    for ln in lines[i + 1:]:
        s = ln.strip()
        if s == "-":
            continue
        if " : " not in ln:
            break
        k, v = ln.split(" : ", 1)
        k = k.strip()
        cur[k] = v
        if k == "Value":
            out.append((cur.get("Time"), cur.get("Commodity"), cur.get("Value")))
            cur = {}
    return out


def is_num(s):
    try:
        F(s)
        return True
    except (ValueError, ZeroDivisionError):
        return False


def parse_register(text):
    """-> list of entries, each a list of rows {acct, amount, base, rate, total, comm}"""
    lines = text.split("\n")
    try:
        i = lines.index("REGISTER")
    except ValueError:
        return []
    ents, cur = [], None
    for ln in lines[i + 2:]:
        if ln == "":
            continue
        if ln.startswith("-") and set(ln) == {"-"}:
            if cur is not None:
                ents.append(cur)
            cur = None
            continue
        if not ln.startswith(" "):
            cur = []
            continue
        s = ln.strip()
        if s.startswith("#") or s.startswith(";") or cur is None:
            continue
        tok = s.split()
        row = {"acct": tok[0], "amount": tok[1] if len(tok) > 1 else None, "base": None, "rate": None, "total": None, "comm": ""}
        rest = tok[2:]
        if rest and not is_num(rest[0]):
            row["base"] = rest[0]
            rest = rest[1:]
            if rest and rest[0] == "@":
                row["rate"] = rest[1] if len(rest) > 1 else None
                rest = rest[2:]
        if rest:
            row["total"] = rest[0]
            if len(rest) > 1:
                row["comm"] = rest[1]
        cur.append(row)
    return ents


def dec_text(coeff, scale):
    """decimal text of coeff x 10^-scale as rust_decimal stores it"""
    neg = coeff < 0
    digits = str(abs(coeff)).rjust(scale + 1, "0")
    t = (digits[:-scale] + "." + digits[-scale:]) if scale else digits
    return ("-" if neg and coeff != 0 else "") + t


def cmp_rows(what, rows, deltas, mv):
    """balance rows (commodity, account, own, tree) and deltas, in order and text-exact"""
    rows = [tuple(r) for r in rows]
    mrows = [tuple(r) for r in mv["rows"]]
    if rows != mrows:
        for i, (x, y) in enumerate(zip(rows, mrows)):
            if x != y:
                return "%s row %d differs: impl=%s model=%s" % (what, i, x, y)
        return "%s: number of rows differs: impl=%d model=%d" % (what, len(rows), len(mrows))
    if [tuple(x) for x in deltas] != [tuple(x) for x in mv["deltas"]]:
        return "%s deltas differ: impl=%s model=%s" % (what, deltas, mv["deltas"])
    return None


def canon_reg_row(r):
    try:
        return (r["acct"], common.dec_norm(r["amount"]), r["base"], r["rate"], common.dec_norm(r["total"]), r["comm"])
    except Exception:
        return ("?", str(r))


_REG_HDR = re.compile(r"^(\d{4,}-\d{2}-\d{2}(?: \d{2}:\d{2}:\d{2}(?:\.\d+)?)?)(?: \(([^)]*)\))?(?: '(.*))?$")


def parse_register_priced(text, title="REGISTER"):
    """-> entries {ts, code, desc, uuid, rows [{acct, amount, base, rate, total, comm}]} of a register report with the
    price conversion columns (`account amount [source-commodity [@ rate]] running-total [commodity]`), or None"""
    lines = text.split("\n")
    try:
        i = lines.index(title)
    except ValueError:
        return None
    entries, cur = [], None
    indent = " " * 12
    for ln in lines[i + 2:]:
        if cur is None:
            if ln == "":
                continue
            m = _REG_HDR.match(ln)
            if not m:
                entries.append({"ts": None, "code": None, "desc": None, "uuid": None, "rows": [], "garbled": ln})
                continue
            cur = {"ts": m.group(1), "code": m.group(2), "desc": m.group(3), "uuid": None, "rows": []}
            continue
        if ln.startswith(indent + "# uuid: "):
            cur["uuid"] = ln[len(indent) + 8:]
        elif ln.startswith(indent + "# ") or ln.startswith(indent + "; ") or ln == indent + ";":
            pass
        elif ln.startswith(indent):
            tok = ln.split()
            row = {"acct": tok[0], "amount": tok[1] if len(tok) > 1 else None, "base": None, "rate": None, "total": None, "comm": ""}
            rest = tok[2:]
            if rest and not is_num(rest[0]):
                row["base"] = rest[0]
                rest = rest[1:]
                if rest and rest[0] == "@":
                    row["rate"] = rest[1] if len(rest) > 1 else None
                    rest = rest[2:]
            if rest:
                row["total"] = rest[0]
                if len(rest) > 1:
                    row["comm"] = rest[1]
                if len(rest) > 2:
                    row["garbled"] = ln
            cur["rows"].append(row)
        elif (ln and set(ln) == {"-"}) or (ln == "" and not cur["rows"]):
            entries.append(cur)
            cur = None
        else:
            cur["garbled"] = ln
    if cur is not None:
        cur["garbled"] = "unterminated entry"
        entries.append(cur)
    return entries


PROP = C07()

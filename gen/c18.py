"""C18 — filter definitions mean the same in every encoding and survive re-serialisation."""
import base64
import json
import os
import re
from decimal import Decimal as D

import common
import c05
from propbase import PropBase, model_cfg

ARMOR = "base64:"


# ---------------------------------------------------------------------------------------------
# JSON text with full control over spelling: objects are lists of pairs, numbers raw tokens

class Raw(str):
    """a token emitted verbatim (number spellings)"""


class Obj(list):
    """JSON object as a list of (key, value) pairs (order and duplicates kept)"""


def emit(v, rng=None, ws=0.0):
    def sp():
        if rng is not None and ws and rng.random() < ws:
            return rng.choice([" ", "  ", "\n", "\t", "\r\n "])
        return ""
    if isinstance(v, Raw):
        return str(v)
    if isinstance(v, Obj):
        return "{" + sp() + ",".join(sp() + json.dumps(k, ensure_ascii=False) + sp() + ":" + sp() + emit(x, rng, ws) + sp()
                                     for k, x in v) + "}"
    if isinstance(v, list):
        return "[" + sp() + ",".join(sp() + emit(x, rng, ws) + sp() for x in v) + "]"
    if isinstance(v, str):
        if rng is not None and ws and rng.random() < 0.3:
            return json.dumps(v, ensure_ascii=True)      # \uXXXX escapes (surrogate pairs for astral characters)
        return json.dumps(v, ensure_ascii=False)
    return json.dumps(v)


# ---------------------------------------------------------------------------------------------
# instants <-> texts (python's datetime does not reach years below 1)

def days_to_civil(z):
    z += 719468
    era = z // 146097
    doe = z - era * 146097
    yoe = (doe - doe // 1460 + doe // 36524 - doe // 146096) // 365
    y = yoe + era * 400
    doy = doe - (365 * yoe + yoe // 4 - yoe // 100)
    mp = (5 * doy + 2) // 153
    d = doy - (153 * mp + 2) // 5 + 1
    m = mp + 3 if mp < 10 else mp - 9
    return (y + 1 if m <= 2 else y, m, d)


def civil_to_days(y, m, d):
    y -= 1 if m <= 2 else 0
    era = y // 400
    yoe = y - era * 400
    mp = m - 3 if m > 2 else m + 9
    doy = (153 * mp + 2) // 5 + d - 1
    doe = yoe * 365 + yoe // 4 - yoe // 100 + doy
    return era * 146097 + doe - 719468


TS_MIN = -377705023201 * 10 ** 9
TS_MAX = 253402207200 * 10 ** 9 + 999999999


def year_text(y):
    return "-%06d" % (-y) if y < 0 else "%04d" % y


def ts_text(ns, off=0, frac="trim", sep="T", zulu="Z", offstyle="colon", yplus=False):
    loc = ns + off * 10 ** 9
    secs, sub = divmod(loc, 10 ** 9)
    days, sod = divmod(secs, 86400)
    y, m, d = days_to_civil(days)
    yt = year_text(y)
    if yplus and y >= 0:
        yt = "+%06d" % y
    t = "%s-%02d-%02d%s%02d:%02d:%02d" % (yt, m, d, sep, sod // 3600, sod % 3600 // 60, sod % 60)
    f9 = "%09d" % sub
    if frac == "trim":
        t += ("." + f9.rstrip("0")) if sub else ""
    elif frac == "nine":
        t += "." + f9
    elif frac == "comma":
        t += ("," + f9.rstrip("0")) if sub else ""
    elif frac == "pad":
        k = len(f9.rstrip("0"))
        t += "." + f9[:min(9, k + 2)] if sub else ".0"
    if off == 0 and zulu:
        return t + zulu
    a = abs(off)
    sg = "+" if off >= 0 else "-"
    if offstyle == "colon":
        return t + "%s%02d:%02d" % (sg, a // 3600, a % 3600 // 60)
    if offstyle == "basic":
        return t + "%s%02d%02d" % (sg, a // 3600, a % 3600 // 60)
    if offstyle == "hours" and a % 3600 == 0:
        return t + "%s%02d" % (sg, a // 3600)
    if offstyle == "seconds":
        return t + "%s%02d:%02d:%02d" % (sg, a // 3600, a % 3600 // 60, a % 60)
    return t + "%s%02d:%02d" % (sg, a // 3600, a % 3600 // 60)


TS_RE = re.compile(r"^([+-]\d{6}|\d{4})-(\d\d)-(\d\d)T(\d\d):(\d\d):(\d\d)(?:\.(\d{1,9}))?Z$")


def utc_text_to_ns(t):
    """inverse of the serialised form (`...Z`)"""
    m = TS_RE.match(t)
    if not m:
        return None
    y, mo, d, h, mi, s = int(m.group(1)), int(m.group(2)), int(m.group(3)), int(m.group(4)), int(m.group(5)), int(m.group(6))
    sub = int((m.group(7) or "0").ljust(9, "0"))
    return ((civil_to_days(y, mo, d) * 86400 + h * 3600 + mi * 60 + s) * 10 ** 9) + sub


# ---------------------------------------------------------------------------------------------
# spellings of the leaf values (value preserving unless stated)

def spell_dec(rng, x, kind):
    """x: canonical decimal text. returns (json value, modelled?)"""
    d = D(x)
    if kind.startswith("num") and (x.lstrip("-").startswith("0") and not x.lstrip("-").startswith("0.") and x.lstrip("-") != "0"):
        x = format(d, "f")          # a JSON number has no leading zeros (a decimal string may)
    if kind == "num":
        return Raw(x)
    if kind == "str":
        return x
    if kind in ("num-exp", "str-exp"):
        e = rng.choice([-6, -3, -2, -1, 1, 2, 3, 5])
        base = d.scaleb(-e)
        bt = format(base, "f")
        if d == 0:
            bt = x
        sc = common.dec_scale(bt)
        if (e < 0 and sc - e > 28) or sc > 28 or not common.dec_fits(D(bt)):
            return Raw(x) if kind == "num-exp" else x
        t = bt + rng.choice(["e", "E"]) + (rng.choice(["", "+"]) if e > 0 else "") + str(e)
        return Raw(t) if kind == "num-exp" else t
    if kind in ("num-mul", "str-mul"):
        # base with fewer decimals than the exponent: the multiplication branch of from_scientific
        if d == d.to_integral_value() and d != 0:
            it = format(d.quantize(D(1)), "f")
            k = len(it) - len(it.rstrip("0"))
            k = max(k, 0)
            e = k + rng.choice([0, 1, 2]) if k else rng.choice([1, 2])
            base = d.scaleb(-e)
            bt = format(base, "f")
            if "." in bt:
                bt = bt.rstrip("0").rstrip(".") or "0"
            if common.dec_scale(bt) < e:
                t = bt + "e" + str(e)
                return Raw(t) if kind == "num-mul" else t
        return Raw(x) if kind == "num-mul" else x
    if kind == "str-plus":
        return x if x.startswith("-") else "+" + x
    if kind == "str-underscore":
        i = next((k for k, ch in enumerate(x) if ch.isdigit()), 0)
        return x[:i + 1] + "_" + x[i + 1:]
    if kind == "str-dot":
        if "." not in x:
            return x + "."
        ip, fp = x.split(".")
        if ip in ("0", "-0"):
            return ip[:-1] + "." + fp
        return x
    if kind in ("num-28", "str-28"):
        sc = common.dec_scale(x)
        t = x + ("" if "." in x else ".") + "0" * (28 - sc)
        if sc <= 28 and common.dec_fits(D(t)) and int(abs(D(t)).scaleb(28)) <= common.MAX96:
            return Raw(t) if kind == "num-28" else t
        return Raw(x) if kind == "num-28" else x
    if kind in ("num-over", "str-over"):
        # more than 28 decimals, all of them zero beyond the value: rounding is exact (outside the model)
        sc = common.dec_scale(x)
        t = x + ("" if "." in x else ".") + "0" * (rng.choice([29, 30, 35]) - sc)
        if abs(d) < 7:
            return Raw(t) if kind == "num-over" else t
        return Raw(x) if kind == "num-over" else x
    if kind == "token-map":
        return Obj([("$serde_json::private::Number", x)])
    raise ValueError(kind)


DEC_KINDS = ["num", "num", "str", "str", "num-exp", "str-exp", "num-mul", "str-mul", "str-plus", "str-underscore", "str-dot",
             "num-28", "str-28", "num-over", "str-over", "token-map"]

BAD_DECS = ['""', '"abc"', '"1,5"', '" 1"', '"1 "', '"_1"', '"1e"', '"e1"', '"."', '"-"', '"+"', '"1..2"', '"1.2.3"', '"0x10"',
            '"1e-29"', "1e-29", "1e29", '"1e29"', "79228162514264337593543950336", '"79228162514264337593543950336"',
            "123456789012345678901234567890", "null", "true", "[1]", "{}", '{"x":"1"}', '"--1"', '"+-1"', '"1-"', '"１"',
            '"1.5e"', '"1.5e+"', '"1e1.5"', '"1.5ee1"', '"NaN"', '"inf"', '"1.0000000000000000000000000000x"']

# F26: rust_decimal stops reading at its rounding position, so garbage after the 29th decimal is accepted
F26_DECS = ['"1.00000000000000000000000000005abc"', '"0.00000000000000000000000000001 EUR"',
            '"7922816251426433759354395033.55xyz"', '"1.0000000000000000000000000000_abc"']


def spell_ts(rng, ns, kind):
    offs = [0, 0, 3600, 7200, -18000, 19800, 20700, -34200, 50400, -43200, 86340, -86340, 93540, -93540]
    off = rng.choice(offs)
    if not (TS_MIN <= ns <= TS_MAX):
        off = 0
    # the civil time at the offset has to stay inside years -9999..9999
    if ns + off * 10 ** 9 < TS_MIN - 93599 * 10 ** 9 or ns + off * 10 ** 9 > TS_MAX + 93599 * 10 ** 9:
        off = 0
    if kind == "rfc":
        return ts_text(ns, off, frac=rng.choice(["trim", "nine", "pad"]))
    if kind == "zulu":
        return ts_text(ns, 0, frac=rng.choice(["trim", "nine"]))
    if kind == "neg-zero-off":
        return ts_text(ns, 0, zulu=rng.choice(["-00:00", "+00:00"]))
    if kind == "yplus":
        return ts_text(ns, off, yplus=True)
    # spellings jiff accepts but the model does not describe
    if kind == "space":
        return ts_text(ns, off, sep=" ")
    if kind == "lower":
        return ts_text(ns, off, sep="t", zulu="z")
    if kind == "basic-off":
        return ts_text(ns, off, offstyle="basic")
    if kind == "hours-off":
        off = rng.choice([0, 3600, 7200, -18000, 50400])
        return ts_text(ns, off, offstyle="hours")
    if kind == "comma":
        return ts_text(ns, off, frac="comma")
    if kind == "annot":
        return ts_text(ns, 0) + "[UTC]"
    raise ValueError(kind)


TS_KINDS_MODEL = ["rfc", "rfc", "zulu", "neg-zero-off", "yplus"]
TS_KINDS_OTHER = ["space", "lower", "basic-off", "hours-off", "comma", "annot"]

BAD_TS = ["2024-01-01T00:00:00", "2024-01-01", "2024-13-01T00:00:00Z", "2024-02-30T00:00:00Z", "2023-02-29T00:00:00Z",
          "2024-00-10T00:00:00Z", "2024-01-00T00:00:00Z", "2024-01-01T24:00:00Z", "2024-01-01T12:60:00Z", "2024-01-01T12:00:61Z",
          "2024-01-01T00:00:00+26:00", "2024-01-01T00:00:00+02:60", "2024-01-01T00:00:00.1234567891Z", "2024-01-01T00:00:00.Z",
          " 2024-01-01T00:00:00Z", "2024-01-01T00:00:00Z ", "2024-1-1T00:00:00Z", "-0001-01-01T00:00:00Z", "", "now", "1704067200",
          "-009999-01-02T01:59:58Z", "9999-12-30T22:00:01Z", "9999-12-31T23:59:59+25:59", "-009999-01-01T00:00:00+00:01",
          "2024-01-01T00:00:00[Europe/Helsinki]", "2024-01-01T00:00:00 Z", "2024-01-01T00:00:00+2:00", "24-01-01T00:00:00Z"]

EDGE_NS = [TS_MIN, TS_MIN + 1, TS_MAX, TS_MAX - 1, 0, -1, 1, -62167219200 * 10 ** 9, -62167219200 * 10 ** 9 - 1,
           -62135596800 * 10 ** 9, 951782400 * 10 ** 9, 951868799999999999, -10 ** 9, 10 ** 9 - 1,
           -12219292800 * 10 ** 9, 253402300799 * 10 ** 9 - 93599 * 10 ** 9]


def spell_uuid(rng, u, kind):
    if kind == "canon":
        return u
    if kind == "upper":
        return u.upper()
    if kind == "mixed":
        return "".join(ch.upper() if rng.random() < 0.5 else ch for ch in u)
    if kind == "simple":
        return u.replace("-", "")
    if kind == "urn":
        return "urn:uuid:" + u
    if kind == "braced":
        return "{" + u + "}"
    raise ValueError(kind)


UUID_KINDS = ["canon", "canon", "upper", "mixed", "simple", "urn", "braced"]


def bad_uuid(rng, u):
    return rng.choice([u[:-1], u + "0", u[:-1] + "g", u.replace("-", "_", 1), "", "{" + u.replace("-", "") + "}",
                       u + " ", " " + u, "URN:UUID:" + u, "urn:uuid:" + u.replace("-", ""), "{" + u + ")", u[:8] + u[9:13] + "-" + u[13:],
                       u.replace("-", "") + "-", u[:35] + "é", "{" + u, u + "}", u[:18] + u[19:] + "0", "x" * 36])


WRAP_KINDS = ["plain", "plain", "wrapped", "double", "anchored", "noncap", "group", "alt", "prefix-text", "suffix-text", "inner"]


def spell_pattern(rng, p, kind):
    """a pattern with the same whole-string meaning as p (python `re.fullmatch` agrees)"""
    if kind == "plain":
        return p
    if kind == "wrapped":
        return "^(?:" + p + ")$"
    if kind == "double":
        return "^(?:^(?:" + p + ")$)$"
    if kind == "anchored":
        return "^" + p + "$"
    if kind == "noncap":
        return "(?:" + p + ")"
    if kind == "group":
        return "(" + p + ")"
    if kind == "alt":
        return p + "|zz9"
    if kind == "prefix-text":          # the wrapper's opening text inside a class / as literals: stays part of the pattern
        return "(?:\\^\\(\\?:)?" + p
    if kind == "suffix-text":
        return p + "(?:\\)\\$)?"
    if kind == "inner":
        return "(?:^(?:" + p + ")$|zz9)"
    raise ValueError(kind)


BAD_RES = ["(", ")", "a(", "a)", "(a", "a)$", "^(?:a", "*a", "+", "?", "a|*", "(*)", "a||*", "((a)", "(a))", "[a", "a[", "[]", "[z-a]",
           "a{", "a{2", "\\", "a\\", "\\q", "(?P<n", "(?z)a", "a{2,1}", "\\p{Nope}", "(?:", "^(?:^(?:a)$", "a)$)$", "(?"]
# valid, but outside the modelled regex subset (the model answers UNDEF; the oracles still apply)
OUTSIDE_RES = ["(?i)abc", "a{2}", "a{1,3}", "\\bA.*", "[[:alpha:]]+", "\\p{L}+", "(?P<x>a)b", "[a&&b]?x", "\\x41", "(?s:.)*", "\\Aab\\z"]


# ---------------------------------------------------------------------------------------------
# model filter (gen/c05.py dicts) -> definition value with spellings

class Speller:
    def __init__(self, rng, mode):
        self.rng = rng
        self.mode = mode            # "canon" | "model" (spellings inside the model) | "any"
        self.other = False          # some spelling outside the model was used
        self.features = set()

    def dec(self, x):
        if self.mode == "canon":
            return spell_dec(None, x, "num")
        k = self.rng.choice(DEC_KINDS)
        if k.endswith("over"):
            if self.mode != "any":
                k = "num"
            else:
                self.other = True
        self.features.add("dec:" + k)
        return spell_dec(self.rng, x, k)

    def ts(self, ns):
        if self.mode == "canon":
            return ts_text(ns, 0)
        if self.mode == "any" and self.rng.random() < 0.35:
            k = self.rng.choice(TS_KINDS_OTHER)
            self.other = True
        else:
            k = self.rng.choice(TS_KINDS_MODEL)
        self.features.add("ts:" + k)
        return spell_ts(self.rng, ns, k)

    def uuid(self, u):
        if self.mode == "canon":
            return u
        k = self.rng.choice(UUID_KINDS)
        self.features.add("uuid:" + k)
        return spell_uuid(self.rng, u, k)

    def struct(self, pairs):
        """a struct: map (maybe shuffled, maybe with unknown fields) or positional sequence"""
        rng = self.rng
        if self.mode == "canon":
            return Obj(pairs)
        r = rng.random()
        if r < 0.12:
            self.features.add("struct:seq")
            return [v for _, v in pairs]
        ps = list(pairs)
        if r < 0.3:
            rng.shuffle(ps)
            self.features.add("struct:shuffled")
        if r > 0.8:
            junk = rng.choice([("x", 1), ("comment", "note"), ("Regex", "zzz"), ("txnfilter", Obj([])), ("extra", [1, Obj([("a", None)])]),
                               ("", ""), ("amount ", Raw("1e400")), ("NullaryTRUE", Obj([]))])
            ps.insert(rng.randrange(len(ps) + 1), junk)
            self.features.add("struct:extra")
        return Obj(ps)


VARIANT = {"tt": "NullaryTRUE", "ff": "NullaryFALSE", "and": "TxnFilterAND", "or": "TxnFilterOR", "not": "TxnFilterNOT",
           "tsBegin": "TxnFilterTxnTSBegin", "tsEnd": "TxnFilterTxnTSEnd", "code": "TxnFilterTxnCode",
           "desc": "TxnFilterTxnDescription", "uuid": "TxnFilterTxnUUID", "bbox": "TxnFilterBBoxLatLon",
           "bbox3": "TxnFilterBBoxLatLonAlt", "tags": "TxnFilterTxnTags", "comments": "TxnFilterTxnComments",
           "postAccount": "TxnFilterPostingAccount", "postComment": "TxnFilterPostingComment",
           "postAmountEq": "TxnFilterPostingAmountEqual", "postAmountLess": "TxnFilterPostingAmountLess",
           "postAmountGreater": "TxnFilterPostingAmountGreater", "postCommodity": "TxnFilterPostingCommodity"}
RE_KINDS = ("code", "desc", "tags", "comments", "postAccount", "postComment", "postCommodity")
AMOUNT_KINDS = ("postAmountEq", "postAmountLess", "postAmountGreater")


def to_def(f, sp):
    k = f["k"]
    v = VARIANT[k]
    if k in ("tt", "ff"):
        body = sp.struct([])
        if sp.mode != "canon" and isinstance(body, list):
            body = []
    elif k in ("and", "or"):
        body = sp.struct([("txnFilters", [to_def(x, sp) for x in f["fs"]])])
    elif k == "not":
        body = sp.struct([("txnFilter", to_def(f["f"], sp))])
    elif k == "tsBegin":
        body = sp.struct([("begin", sp.ts(int(f["ns"])))])
    elif k == "tsEnd":
        body = sp.struct([("end", sp.ts(int(f["ns"])))])
    elif k in RE_KINDS:
        body = sp.struct([("regex", f["re"])])
    elif k == "uuid":
        body = sp.struct([("uuid", sp.uuid(f["u"]))])
    elif k == "bbox":
        body = sp.struct([("south", sp.dec(f["s"])), ("west", sp.dec(f["w"])), ("north", sp.dec(f["n"])), ("east", sp.dec(f["e"]))])
    elif k == "bbox3":
        body = sp.struct([("south", sp.dec(f["s"])), ("west", sp.dec(f["w"])), ("depth", sp.dec(f["d"])),
                          ("north", sp.dec(f["n"])), ("east", sp.dec(f["e"])), ("height", sp.dec(f["h"]))])
    elif k in AMOUNT_KINDS:
        body = sp.struct([("regex", f["re"]), ("amount", sp.dec(f["x"]))])
    else:
        raise ValueError(k)
    return Obj([(v, body)])


def definition(f, sp):
    return sp.struct([("txnFilter", to_def(f, sp))])


def canon_json(f):
    """what the property expects the re-serialised definition to *mean* (python value, decimals as Decimal)"""
    return definition(f, Speller(None, "canon"))


# ---------------------------------------------------------------------------------------------
# the re-serialised definition must carry the same patterns, numbers, instants, uuids

def same_def(f, j):
    """compare a model filter with a parsed re-serialised TxnFilter value; returns None or a reason"""
    k = f["k"]
    v = VARIANT[k]
    if not isinstance(j, dict) or list(j.keys()) != [v]:
        return "variant: expected %s got %r" % (v, list(j.keys()) if isinstance(j, dict) else j)
    b = j[v]
    if not isinstance(b, dict):
        return "content of %s is not a map" % v

    def keys(*ks):
        return None if list(b.keys()) == list(ks) else "fields of %s: %r" % (v, list(b.keys()))

    def dec(name, x):
        got = b[name]
        try:
            return None if D(str(got)) == D(x) else "number %s changed: %s -> %s" % (name, x, got)
        except Exception:
            return "number %s unreadable: %r" % (name, got)
    if k in ("tt", "ff"):
        return keys()
    if k in ("and", "or"):
        r = keys("txnFilters")
        if r:
            return r
        if not isinstance(b["txnFilters"], list) or len(b["txnFilters"]) != len(f["fs"]):
            return "number of sub-filters changed"
        for x, y in zip(f["fs"], b["txnFilters"]):
            r = same_def(x, y)
            if r:
                return r
        return None
    if k == "not":
        return keys("txnFilter") or same_def(f["f"], b["txnFilter"])
    if k in ("tsBegin", "tsEnd"):
        name = "begin" if k == "tsBegin" else "end"
        r = keys(name)
        if r:
            return r
        ns = utc_text_to_ns(b[name]) if isinstance(b[name], str) else None
        return None if ns == int(f["ns"]) else "instant changed: %s -> %r" % (f["ns"], b[name])
    if k in RE_KINDS:
        return keys("regex") or (None if b["regex"] == f["re"] else "pattern changed: %r -> %r" % (f["re"], b["regex"]))
    if k == "uuid":
        return keys("uuid") or (None if b["uuid"] == f["u"] else "uuid changed: %r -> %r" % (f["u"], b["uuid"]))
    if k == "bbox":
        return keys("south", "west", "north", "east") or dec("south", f["s"]) or dec("west", f["w"]) or dec("north", f["n"]) or dec("east", f["e"])
    if k == "bbox3":
        return (keys("south", "west", "depth", "north", "east", "height") or dec("south", f["s"]) or dec("west", f["w"])
                or dec("depth", f["d"]) or dec("north", f["n"]) or dec("east", f["e"]) or dec("height", f["h"]))
    if k in AMOUNT_KINDS:
        return keys("regex", "amount") or (None if b["regex"] == f["re"] else "pattern changed: %r -> %r" % (f["re"], b["regex"])) \
            or dec("amount", f["x"])
    return "unknown kind " + k


# ---------------------------------------------------------------------------------------------
# filters on a probe journal, with decorated patterns / spelled leaves

def decorate(rng, f, pkinds=WRAP_KINDS):
    """replace patterns by equivalent ones that contain anchors / the wrapper text"""
    k = f["k"]
    if k in ("and", "or"):
        return dict(f, fs=[decorate(rng, x, pkinds) for x in f["fs"]])
    if k == "not":
        return dict(f, f=decorate(rng, f["f"], pkinds))
    if "re" in f:
        return dict(f, re=spell_pattern(rng, f["re"], rng.choice(pkinds)))
    return f


def has_kind(f, ks):
    if f["k"] in ("and", "or"):
        return any(has_kind(x, ks) for x in f["fs"])
    if f["k"] == "not":
        return has_kind(f["f"], ks)
    return f["k"] in ks


def set_leaf(f, path, new):
    if not path:
        return new
    if f["k"] == "not":
        return dict(f, f=set_leaf(f["f"], path[1:], new))
    fs = list(f["fs"])
    fs[path[0]] = set_leaf(fs[path[0]], path[1:], new)
    return dict(f, fs=fs)


def leaves(f, path=()):
    if f["k"] in ("and", "or"):
        for i, x in enumerate(f["fs"]):
            yield from leaves(x, path + (i,))
    elif f["k"] == "not":
        yield from leaves(f["f"], path + (0,))
    else:
        yield path, f


def b64(s):
    return base64.b64encode(s if isinstance(s, bytes) else s.encode("utf-8")).decode("ascii")


def pad_for_padding(text, want):
    """append spaces (valid JSON) until len(utf8) % 3 == want"""
    while len(text.encode("utf-8")) % 3 != want:
        text += " "
    return text


class C18(PropBase):
    id = "C18"

    # -------------------------------------------------------------------------- generation
    def journal(self, rng):
        cfg = {}
        opts = {"p_invalid": 0.0, "n_txns": rng.choice([2, 3, 4, 5, 6]), "p_loc": 0.5, "p_tags": 0.5, "p_comments": 0.5,
                "p_code": 0.6, "p_desc": 0.6, "p_uuid": 1.0, "comms": common.COMMS[:3], "p_price": 0.1}
        txns = common.gen_journal(rng, cfg, opts)
        layout = common.gen_layout(rng)
        return cfg, txns, layout

    def base_case(self, rng, kind, f, deftext, expect, plain=None, cfg=None, txns=None, layout=None, **extra):
        if txns is None:
            cfg, txns, layout = self.journal(rng)
        c = {"op": "fdef", "kind": kind, "def": deftext, "off": rng.choice([0, 0, 7200, -18000, 19800, 86340, -93540]),
             "cfg": cfg, "txns": txns, "layout": layout, "text": common.render_journal(txns, layout),
             "mfilter": f, "expect": expect}
        if plain is not None and plain != deftext:
            c["plain"] = plain
        c.update(extra)
        return c

    def filter_for(self, rng, txns, depth=None, want=None):
        for _ in range(50):
            f = c05.gen_filter(rng, txns, rng.choice([0, 0, 1, 1, 2, 3, 4]) if depth is None else depth)
            if want is None or has_kind(f, want):
                return f
        # force one
        k = want[0]
        for _ in range(200):
            leaf = c05.gen_leaf(rng, txns)
            if leaf["k"] == k:
                return {"k": "and", "fs": [leaf, c05.gen_filter(rng, txns, 1)]} if rng.random() < 0.5 else leaf
        return c05.gen_leaf(rng, txns)

    def gen(self, rng, tier, focus=None):
        scale = 1 if tier == "quick" else 25
        out = []

        def text_of(f, mode, ws=0.25):
            sp = Speller(rng, mode)
            v = definition(f, sp)
            return emit(v, rng, ws), sp

        # ---- 1. valid definitions in every encoding and spelling
        for i in range(700 * scale):
            cfg, txns, layout = self.journal(rng)
            f = decorate(rng, self.filter_for(rng, txns))
            mode = rng.choice(["canon", "model", "model", "any"])
            text, sp = text_of(f, mode)
            enc = rng.choice(["plain", "plain", "armor", "armor"])
            deftext = text if enc == "plain" else ARMOR + b64(text)
            kind = "valid:%s:%s" % (enc, mode if not sp.other else "other-spelling")
            out.append(self.base_case(rng, kind, f, deftext, "ok", plain=text, cfg=cfg, txns=txns, layout=layout,
                                      features=sorted(sp.features)))

        # ---- 2. boundary classes of the leaves
        for i in range(120 * scale):
            cfg, txns, layout = self.journal(rng)
            # decimals: every spelling on an amount / box filter
            f = self.filter_for(rng, txns, depth=rng.choice([0, 1]), want=list(AMOUNT_KINDS) + ["bbox", "bbox3"])
            text, sp = text_of(f, "any", ws=0.1)
            out.append(self.base_case(rng, "dec-spelling" if not sp.other else "dec-spelling:other", f, text, "ok", cfg=cfg, txns=txns, layout=layout,
                                      features=sorted(sp.features)))
        for i in range(60 * scale):
            cfg, txns, layout = self.journal(rng)
            x = rng.choice(["79228162514264337593543950335", "-79228162514264337593543950335", "7.9228162514264337593543950335",
                            "0.0000000000000000000000000001", "-0.0000000000000000000000000001", "0.0000000000000000000000000000",
                            "7922816251426433759354395033.5", "18446744073709551615", "18446744073709551616", "-9223372036854775808",
                            "-9223372036854775809", "0", "-0", "0.00", "-0.00", "1000000", "100", "1.0", "12345678.90123456789"])
            k = rng.choice(AMOUNT_KINDS)
            f = {"k": k, "re": ".*", "x": x}
            sp = Speller(rng, "model")
            val = spell_dec(rng, x, rng.choice(["num", "str", "num-exp", "str-exp", "num-mul", "str-mul", "num-28", "str-28", "str-plus"]))
            v = Obj([("txnFilter", Obj([(VARIANT[k], Obj([("regex", ".*"), ("amount", val)]))]))])
            out.append(self.base_case(rng, "dec-extreme", f, emit(v), "ok", cfg=cfg, txns=txns, layout=layout))
        for i in range(80 * scale):
            cfg, txns, layout = self.journal(rng)
            # instants: edge of the range, era boundaries, all spellings
            ns = rng.choice(EDGE_NS) if rng.random() < 0.6 else int(rng.choice(txns)["ts"]["ns"]) + rng.choice([-1, 0, 1])
            k = rng.choice(["tsBegin", "tsEnd"])
            f = {"k": k, "ns": str(ns), "off": 0}
            tk = rng.choice(TS_KINDS_MODEL + TS_KINDS_OTHER)
            t = spell_ts(rng, ns, tk)
            v = Obj([("txnFilter", Obj([(VARIANT[k], Obj([("begin" if k == "tsBegin" else "end", t)]))]))])
            out.append(self.base_case(rng, "ts-spelling:" + ("model" if tk in TS_KINDS_MODEL else "other"), f, emit(v), "ok",
                                      cfg=cfg, txns=txns, layout=layout, features=["ts:" + tk]))
        for i in range(100 * scale):
            cfg, txns, layout = self.journal(rng)
            # patterns with anchors / wrapper text, nested, on every regex leaf kind
            f = self.filter_for(rng, txns, depth=rng.choice([0, 1, 2]), want=list(RE_KINDS) + list(AMOUNT_KINDS))
            f = decorate(rng, f, [k for k in WRAP_KINDS if k != "plain"])
            text, sp = text_of(f, "canon")
            enc = rng.choice(["plain", "armor"])
            out.append(self.base_case(rng, "pattern-wrapper:" + enc, f, text if enc == "plain" else ARMOR + b64(text), "ok", plain=text,
                                      cfg=cfg, txns=txns, layout=layout))
        for i in range(30 * scale):
            cfg, txns, layout = self.journal(rng)
            p = rng.choice(OUTSIDE_RES)
            f = {"k": rng.choice(RE_KINDS), "re": p}
            text, sp = text_of(f, "canon")
            out.append(self.base_case(rng, "pattern-outside-subset", f, text, "ok", cfg=cfg, txns=txns, layout=layout, nosat=True))
        for i in range(40 * scale):
            cfg, txns, layout = self.journal(rng)
            us = [t["uuid"] for t in txns]
            u = rng.choice(us)
            f = {"k": "uuid", "u": u}
            if rng.random() < 0.5:
                f = {"k": rng.choice(["and", "or"]), "fs": [f, c05.gen_filter(rng, txns, 1)]}
            text, sp = text_of(f, "model")
            out.append(self.base_case(rng, "uuid-spelling", f, text, "ok", cfg=cfg, txns=txns, layout=layout, features=sorted(sp.features)))

        # patterns that need JSON escapes when written out again
        for i in range(30 * scale):
            cfg, txns, layout = self.journal(rng)
            p = rng.choice(['a"b', 'a\tb', 'a\\\\b', '\u0001x', 'x\u007fy', 'a\u2028b', 'q\\"', "it's", 'a/b', '<a&b>', '\u001f', 'a\rb\nc'.replace("\n", "\\n"),
                            '\b'.replace("\b", "\u0008") + "z", '\f'.replace("\f", "\u000c"), "\U0001F600+", "\ufeffx"])
            f = {"k": rng.choice(RE_KINDS), "re": p}
            if rng.random() < 0.5:
                f = {"k": "or", "fs": [f, self.filter_for(rng, txns, depth=1)]}
            text, sp = text_of(f, rng.choice(["canon", "model"]), ws=0.3)
            enc = rng.choice(["plain", "armor"])
            out.append(self.base_case(rng, "pattern-escapes:" + enc, f, text if enc == "plain" else ARMOR + b64(text), "ok", plain=text,
                                      cfg=cfg, txns=txns, layout=layout))
        # nesting up to and beyond serde_json's recursion limit (128 levels of objects / arrays)
        for i in range(16 * scale):
            cfg, txns, layout = self.journal(rng)
            depth = rng.choice([5, 20, 30, 40, 41, 42, 43, 61, 62, 63, 64, 65, 70])
            f = c05.gen_leaf(rng, txns)
            style = rng.choice(["not", "and", "mixed"])
            for d in range(depth):
                k = "not" if style == "not" or (style == "mixed" and d % 2) else "and"
                f = {"k": "not", "f": f} if k == "not" else {"k": "and", "fs": [f]}
            text, sp = text_of(f, "canon", ws=0.0)
            out.append(self.base_case(rng, "deep-nesting:%s" % style, f, text, None, cfg=cfg, txns=txns, layout=layout))

        # ---- 3. malformed leaves: must be rejected
        def with_leaf(make_leaf, kind, n, expect="err"):
            for i in range(n):
                cfg, txns, layout = self.journal(rng)
                f = self.filter_for(rng, txns, depth=rng.choice([0, 1, 2]))
                sp = Speller(rng, "canon")
                paths = list(leaves(f))
                if not paths:
                    f = c05.gen_leaf(rng, txns)
                    paths = list(leaves(f))
                path, leaf = rng.choice(paths)
                newleaf = make_leaf(txns, leaf)     # a definition value (Obj) that replaces the leaf
                marker = {"k": "code", "re": "\u0000MARK"}
                fm = set_leaf(f, path, marker)
                v = definition(fm, sp)

                def subst(x):
                    if isinstance(x, Obj):
                        if len(x) == 1 and x[0][0] == "TxnFilterTxnCode" and isinstance(x[0][1], Obj) and x[0][1][0][1] == "\u0000MARK":
                            return newleaf
                        return Obj([(k, subst(y)) for k, y in x])
                    if isinstance(x, list):
                        return [subst(y) for y in x]
                    return x
                text = emit(subst(v), rng, 0.1)
                enc = rng.choice(["plain", "plain", "armor"])
                out.append(self.base_case(rng, kind, None, text if enc == "plain" else ARMOR + b64(text), expect, cfg=cfg, txns=txns, layout=layout))

        def bad_regex(txns, leaf):
            k = rng.choice(RE_KINDS + AMOUNT_KINDS)
            body = [("regex", rng.choice(BAD_RES))]
            if k in AMOUNT_KINDS:
                body.append(("amount", Raw("1")))
            return Obj([(VARIANT[k], Obj(body))])
        with_leaf(bad_regex, "bad-regex", 70 * scale)

        def bad_uuid_leaf(txns, leaf):
            return Obj([("TxnFilterTxnUUID", Obj([("uuid", bad_uuid(rng, rng.choice(txns)["uuid"]))]))])
        with_leaf(bad_uuid_leaf, "bad-uuid", 40 * scale)

        def bad_dec_leaf(txns, leaf):
            k = rng.choice(AMOUNT_KINDS)
            if rng.random() < 0.3:
                names = ["south", "west", "north", "east"]
                vals = [Raw("0"), Raw("0"), Raw("1"), Raw("1")]
                vals[rng.randrange(4)] = Raw(rng.choice(BAD_DECS))
                return Obj([("TxnFilterBBoxLatLon", Obj(list(zip(names, vals))))])
            return Obj([(VARIANT[k], Obj([("regex", ".*"), ("amount", Raw(rng.choice(BAD_DECS)))]))])
        with_leaf(bad_dec_leaf, "bad-number", 70 * scale)

        def f23_leaf(txns, leaf):
            return Obj([("TxnFilterPostingAmountEqual", Obj([("regex", ".*"), ("amount", Raw(rng.choice(F26_DECS)))]))])
        with_leaf(f23_leaf, "bad-number:tail-after-rounding", 6 * scale)

        def bad_ts_leaf(txns, leaf):
            k = rng.choice(["tsBegin", "tsEnd"])
            t = rng.choice(BAD_TS + [5, None, True, [1]])
            return Obj([(VARIANT[k], Obj([("begin" if k == "tsBegin" else "end", t)]))])
        with_leaf(bad_ts_leaf, "bad-timestamp", 60 * scale)

        # ---- 4. malformed structure
        def struct_fault(txns, leaf):
            sp = Speller(rng, "canon")
            good = to_def(leaf, sp)
            name, body = good[0]
            r = rng.choice(["unknown-variant", "unknown-variant", "missing-field", "missing-field", "wrong-type", "wrong-type", "duplicate-field",
                            "two-variants", "bare-string", "seq-too-long", "seq-too-short", "null-content", "empty-enum", "enum-array"])
            self._fault = r
            if r == "unknown-variant":
                bad = rng.choice([name.lower(), name + "s", "TxnFilter", name[:-1], "txnFilter", "", name + " ", "NullaryTrue", "TxnFilterXOR"])
                if bad == name:
                    bad = name + "_"
                return Obj([(bad, body)])
            if r == "missing-field":
                if len(body) == 0:
                    return Obj([("TxnFilterTxnCode", Obj([]))])
                i = rng.randrange(len(body))
                b2 = Obj([p for j, p in enumerate(body) if j != i])
                if rng.random() < 0.3:
                    b2.append((body[i][0].capitalize() if body[i][0].capitalize() != body[i][0] else body[i][0] + "_", body[i][1]))
                return Obj([(name, b2)])
            if r == "wrong-type":
                if len(body) == 0:
                    return Obj([(name, rng.choice([None, 1, "x", True]))])
                i = rng.randrange(len(body))
                k0, v0 = body[i]
                if isinstance(v0, Raw):
                    v1 = rng.choice([None, [Raw(str(v0))], True, Obj([])])
                elif isinstance(v0, str):
                    v1 = rng.choice([Raw("5"), None, [v0], Obj([("s", v0)]), True])
                elif isinstance(v0, list):
                    v1 = rng.choice([Obj([]), "x", None, Raw("0"), [Raw("1")], ["NullaryTRUE"]])
                else:
                    v1 = rng.choice([[], "NullaryTRUE", None, Raw("1"), Obj([])])
                b2 = Obj(body)
                b2[i] = (k0, v1)
                return Obj([(name, b2)])
            if r == "duplicate-field":
                if len(body) == 0:
                    return Obj([(name, body), (name, body)])
                b2 = Obj(body)
                b2.insert(rng.randrange(len(b2) + 1), rng.choice(body))
                return Obj([(name, b2)])
            if r == "two-variants":
                return Obj([(name, body), ("NullaryTRUE", Obj([]))])
            if r == "bare-string":
                return name
            if r == "seq-too-long":
                return Obj([(name, [v for _, v in body] + [rng.choice([Raw("1"), None, "x"])])])
            if r == "seq-too-short":
                if len(body) == 0:
                    return Obj([(name, Raw("0"))])
                return Obj([(name, [v for _, v in body][:-1])])
            if r == "null-content":
                return Obj([(name, None)])
            if r == "empty-enum":
                return Obj([])
            return [name, body]
        n0 = len(out)
        with_leaf(struct_fault, "bad-structure", 120 * scale)
        # accepted variations of the structure
        for i in range(60 * scale):
            cfg, txns, layout = self.journal(rng)
            f = self.filter_for(rng, txns)
            text, sp = text_of(f, "model", ws=0.5)
            top = rng.choice(["seq", "extra", "dup-unknown"])
            if top == "seq":
                text = "[" + emit(to_def(f, Speller(rng, "model")), rng, 0.2) + "]"
            elif top == "extra":
                text = emit(Obj([("version", Raw("1")), ("txnFilter", to_def(f, Speller(rng, "model"))), ("note", "x")]), rng, 0.2)
            else:
                text = emit(Obj([("x", Raw("1")), ("x", Raw("2")), ("txnFilter", to_def(f, Speller(rng, "model")))]), rng, 0.2)
            out.append(self.base_case(rng, "structure-variant:" + top, f, text, "ok", cfg=cfg, txns=txns, layout=layout))
        # malformed at the top / text level
        for i in range(70 * scale):
            cfg, txns, layout = self.journal(rng)
            f = self.filter_for(rng, txns)
            text, sp = text_of(f, "canon", ws=0.0)
            r = rng.choice(["truncated", "truncated", "trailing", "top-missing", "top-dup", "top-null", "top-wrong", "top-seq-long", "empty",
                            "single-quotes", "trailing-comma", "comment", "bom", "nan", "leading-zero", "ctrl-char", "lone-surrogate"])
            inner = emit(to_def(f, Speller(rng, "canon")))
            if r == "truncated":
                bad = text[:rng.randrange(0, len(text))]
            elif r == "trailing":
                bad = text + rng.choice(["x", "{}", "]", ",", "}", " null"])
            elif r == "top-missing":
                bad = rng.choice(['{"txnfilter":%s}', '{"TxnFilter":%s}', '{"filter":%s}', '{"txnFilter ":%s}']) % inner
            elif r == "top-dup":
                bad = '{"txnFilter":%s,"txnFilter":%s}' % (inner, inner)
            elif r == "top-null":
                bad = rng.choice(["null", "true", "1", '"x"', "[]", "{}", '{"txnFilter":null}'])
            elif r == "top-wrong":
                bad = inner
                if f["k"] in ("tt", "ff"):
                    bad = '{"txnFilter":5}'
            elif r == "top-seq-long":
                bad = "[%s,%s]" % (inner, inner)
            elif r == "empty":
                bad = rng.choice(["", " ", "\n"])
            elif r == "single-quotes":
                bad = text.replace('"', "'")
            elif r == "trailing-comma":
                bad = text[:-1] + ",}"
            elif r == "comment":
                bad = "// filter\n" + text
            elif r == "bom":
                bad = "﻿" + text
            elif r == "nan":
                bad = '{"txnFilter":{"TxnFilterPostingAmountEqual":{"regex":"a","amount":NaN}}}'
            elif r == "leading-zero":
                bad = '{"txnFilter":{"TxnFilterPostingAmountEqual":{"regex":"a","amount":%s}}}' % rng.choice(["01", "-01.5", "+1", ".5", "1.", "1e", "0x1"])
            elif r == "ctrl-char":
                bad = '{"txnFilter":{"TxnFilterTxnCode":{"regex":"a\tb"}}}'
            else:
                bad = '{"txnFilter":{"TxnFilterTxnCode":{"regex":"a\\ud800b"}}}'
            enc = rng.choice(["plain", "plain", "armor"])
            out.append(self.base_case(rng, "bad-json:" + r, None, bad if enc == "plain" else ARMOR + b64(bad), "err", cfg=cfg, txns=txns, layout=layout))

        # ---- 5. malformed armor
        for i in range(240 * scale):
            cfg, txns, layout = self.journal(rng)
            f = decorate(rng, self.filter_for(rng, txns))
            text, sp = text_of(f, "canon", ws=0.0)
            r = rng.choice(["repeated-prefix", "repeated-prefix", "prefix-case", "prefix-ws", "payload-ws", "newline-end", "line-wrapped",
                            "alphabet", "alphabet-urlsafe", "no-padding", "extra-padding", "padding-inside", "truncated", "truncated-quad",
                            "trailing-bits", "non-utf8", "double-armor", "armor-of-garbage", "empty-payload"])
            expect = "err"
            if r in ("no-padding", "extra-padding", "padding-inside", "trailing-bits"):
                text = pad_for_padding(text, rng.choice([1, 2]))
            e = b64(text)
            if r == "repeated-prefix":
                bad = ARMOR * rng.choice([2, 2, 3, 5]) + e
            elif r == "prefix-case":
                bad = rng.choice(["Base64:", "BASE64:", "base64", "base64;", "base32:", "b64:", "base64 :"]) + e
            elif r == "prefix-ws":
                bad = rng.choice([" ", "\n", "\t"]) + ARMOR + e
            elif r == "payload-ws":
                j = rng.randrange(0, len(e) + 1)
                bad = ARMOR + e[:j] + rng.choice([" ", "\t"]) + e[j:]
            elif r == "newline-end":
                bad = ARMOR + e + rng.choice(["\n", "\r\n"])
            elif r == "line-wrapped":
                bad = ARMOR + "\n".join(e[k:k + 76] for k in range(0, len(e), 76)) + ("\n" if len(e) <= 76 else "")
            elif r == "alphabet":
                j = rng.randrange(0, len(e))
                bad = ARMOR + e[:j] + rng.choice(["*", "!", "é", ".", ":", "\u0000", "@"]) + e[j + 1:]
            elif r == "alphabet-urlsafe":
                t2 = text
                for _ in range(30):
                    e2 = b64(t2)
                    if "+" in e2 or "/" in e2:
                        break
                    t2 = t2[:-1] + " " + t2[-1]
                bad = ARMOR + base64.urlsafe_b64encode(t2.encode()).decode()
                if "-" not in bad[7:] and "_" not in bad[7:]:
                    bad = ARMOR + e[:-4] + "-" + e[-3:]
            elif r == "no-padding":
                bad = ARMOR + e.rstrip("=")
            elif r == "extra-padding":
                bad = ARMOR + e + rng.choice(["=", "==", "===="])
            elif r == "padding-inside":
                j = rng.randrange(1, len(e) - 4)
                bad = ARMOR + e[:j] + "=" + e[j:]
            elif r == "truncated":
                bad = ARMOR + e[:len(e) - rng.choice([1, 2, 3, 5])]
            elif r == "truncated-quad":
                q = len(e) // 4
                bad = ARMOR + e[:4 * rng.randrange(0, q)]
            elif r == "trailing-bits":
                stripped = e.rstrip("=")
                pad = e[len(stripped):]
                alphabet = "ABCDEFGHIJKLMNOPQRSTUVWXYZabcdefghijklmnopqrstuvwxyz0123456789+/"
                v = alphabet.index(stripped[-1])
                bad = ARMOR + stripped[:-1] + alphabet[v | (1 if len(pad) == 1 else rng.choice([1, 2, 4, 8]))] + pad
            elif r == "non-utf8":
                raw = text.encode("utf-8")
                junk = rng.choice([b"\xff", b"\xc0\xaf", b"\xed\xa0\x80", b"\xf4\x90\x80\x80", b"\xe0\x9f\xbf", b"\xf0\x8f\xbf\xbf", b"\x80", b"\xc3", b"\xe2\x82"])
                if b'"regex":"' in raw and rng.random() < 0.5:
                    j = raw.index(b'"regex":"') + 9        # inside a pattern
                    bad = ARMOR + b64(raw[:j] + junk + raw[j:])
                else:                                       # inside the value of a field nobody reads
                    bad = ARMOR + b64(b'{"note":"' + junk + b'",' + raw[1:])
            elif r == "double-armor":
                bad = ARMOR + b64(ARMOR + e)
            elif r == "armor-of-garbage":
                bad = ARMOR + b64(rng.choice(["hello", "{}", "null", "[", text[:-1]]))
            else:
                bad = ARMOR + rng.choice(["", "=", "==", "===="])
            out.append(self.base_case(rng, "bad-armor:" + r, None, bad, expect, cfg=cfg, txns=txns, layout=layout))
        # well-formed armor with payloads that need every padding length and non-ASCII text
        for i in range(60 * scale):
            cfg, txns, layout = self.journal(rng)
            f = decorate(rng, self.filter_for(rng, txns))
            if rng.random() < 0.4:
                f = {"k": "or", "fs": [f, {"k": rng.choice(RE_KINDS), "re": rng.choice(["é.*", "ÄÖ", "€+", "\U0001F600?x", "日本.*"])}]}
            text, sp = text_of(f, "canon", ws=0.0)
            text = pad_for_padding(text, i % 3)
            out.append(self.base_case(rng, "armor-padding-%d" % (i % 3), f, ARMOR + b64(text), "ok", plain=text, cfg=cfg, txns=txns, layout=layout))
        # the armor word inside a plain definition: armor is detected by the *prefix* only
        for i in range(15 * scale):
            cfg, txns, layout = self.journal(rng)
            f = {"k": rng.choice(["or", "and"]), "fs": [self.filter_for(rng, txns, depth=1),
                                                        {"k": rng.choice(RE_KINDS), "re": rng.choice(["base64:.*", "base64:", ".*base64:[A-Za-z0-9+/=]*"])}]}
            text, sp = text_of(f, "canon", ws=0.0)
            if rng.random() < 0.3:
                text = " " + text
            enc = rng.choice(["plain", "plain", "armor"])
            out.append(self.base_case(rng, "armor-word-inside:" + enc, f, text if enc == "plain" else ARMOR + b64(text), "ok", plain=text,
                                      cfg=cfg, txns=txns, layout=layout))
        # forcing an entry point: armor given to from_json_str, JSON given to from_armor
        for i in range(20 * scale):
            cfg, txns, layout = self.journal(rng)
            f = self.filter_for(rng, txns)
            text, sp = text_of(f, "canon", ws=0.0)
            if rng.random() < 0.5:
                out.append(self.base_case(rng, "entry:json-to-from_armor", None, text, "err", cfg=cfg, txns=txns, layout=layout, force="armor"))
            else:
                out.append(self.base_case(rng, "entry:armor-to-from_json_str", None, ARMOR + b64(text), "err", cfg=cfg, txns=txns, layout=layout, force="json"))

        # ---- 6. contract test of the base64 functions of the model
        alphabet = "ABCDEFGHIJKLMNOPQRSTUVWXYZabcdefghijklmnopqrstuvwxyz0123456789+/"
        for i in range(40 * scale):
            xs, hs = [], []
            for _ in range(25):
                n = rng.choice([0, 1, 2, 3, 4, 5, 6, 7, 8, 9, 31, 32, 33, 34, 35, 36, 64, 100])
                raw = bytes(rng.randrange(256) for _ in range(n))
                hs.append(raw.hex())
                e = base64.b64encode(raw).decode()
                r = rng.random()
                if r < 0.3:
                    xs.append(e)
                elif r < 0.45 and e:
                    j = rng.randrange(len(e))
                    xs.append(e[:j] + rng.choice(alphabet + "=-_ \n") + e[j + 1:])
                elif r < 0.6:
                    xs.append(e.rstrip("="))
                elif r < 0.7:
                    xs.append(e + "=")
                elif r < 0.8 and e:
                    xs.append(e[:rng.randrange(len(e))])
                else:
                    xs.append("".join(rng.choice(alphabet + "=") for _ in range(rng.choice([1, 2, 3, 4, 5, 8, 12]))))
            # payloads around the edges of UTF-8: every length, shortest-form / surrogate / range violations, truncation
            for raw in ["é€\U0001F600a".encode(), "\u07ff\u0800\ud7ff\ue000\uffff\U00010000\U0010ffff".encode(), b"\x7f\xc2\x80\xdf\xbf",
                        b"\xc0\x80", b"\xc1\xbf", b"\xe0\x9f\xbf", b"\xe0\xa0\x80", b"\xed\x9f\xbf", b"\xed\xa0\x80", b"\xed\xbf\xbf",
                        b"\xee\x80\x80", b"\xf0\x8f\xbf\xbf", b"\xf0\x90\x80\x80", b"\xf4\x8f\xbf\xbf", b"\xf4\x90\x80\x80", b"\xf5\x80\x80\x80",
                        b"\x80", b"\xbf", b"\xc3", b"\xe2\x82", b"\xf0\x9f\x98", b"\xc3\x28", b"\xe2\x28\xa1", b"\xf0\x28\x8c\xbc", b"a\xffb",
                        bytes(rng.randrange(128, 256) for _ in range(rng.choice([1, 2, 3, 4])))]:
                if rng.random() < 0.35:
                    xs.append(base64.b64encode(raw).decode())
            out.append({"op": "b64", "kind": "b64-contract", "xs": xs, "hs": hs})
        # ---- the command-line route (`--api-filter-def <text>`): the option value reaches the definition reader as it
        #      is; a malformed value (the empty string included) ends the run with an error and no report
        good = '{"txnFilter":{"TxnFilterTxnDescription":{"regex":"keep.*"}}}'
        clis = [("valid", good, True), ("valid-armor", ARMOR + b64(good), True),
                ("empty", "", False), ("blank", "  ", False), ("truncated", good[:-1], False),
                ("trailing", good + "}", False), ("two-docs", good + good, False), ("armor-empty", ARMOR, False),
                ("armor-bad", ARMOR + "!!!", False), ("not-json", "keep", False), ("null", "null", False),
                ("empty-object", "{}", False), ("unknown-variant", '{"txnFilter":{"TxnFilterNope":{}}}', False)]
        for name, text, ok in clis:
            out.append({"op": "clidef", "kind": "cli:" + name, "def": text, "valid": ok})
        return out

    # -------------------------------------------------------------------------- running
    needs_cli = True

    def run_cli(self, case):
        import subprocess
        import tempfile
        d = tempfile.mkdtemp(prefix="c18-cli-", dir=os.path.join(common.BUILD, "tmp"))
        try:
            with open(os.path.join(d, "j.txn"), "w") as f:
                f.write("2024-01-01 'keep one\n e:x  1\n a:cash\n\n2024-01-02 'drop two\n e:y  2\n a:cash\n")
            with open(os.path.join(d, "t.toml"), "w") as f:
                f.write('[kernel]\nstrict = false\naudit = { mode = false, hash = "SHA-256" }\n'
                        'timestamp = { default-time = 00:00:00, timezone = { name = "UTC" } }\n'
                        'input = { storage = "fs", fs = { path = ".", dir = ".", suffix = "txn" } }\n'
                        '[transaction]\naccounts = { path = "none" }\ncommodities = { path = "none" }\ntags = { path = "none" }\n'
                        '[report]\nreport-timezone = "UTC"\nscale = { min = 2, max = 2 }\naccounts = [ ]\ntargets = [ "register" ]\n'
                        'balance = { title = "BALANCE" }\nbalance-group = { title = "BALANCE GROUP", group-by = "month" }\n'
                        'register = { title = "REGISTER" }\n[export]\ntargets = [ ]\n'
                        'equity = { accounts = [ ], equity-account = "Equity:Balance" }\n')
            p = subprocess.run([common.TK_CLI, "--config", os.path.join(d, "t.toml"), "--input.file", os.path.join(d, "j.txn"),
                                "--api-filter-def", case["def"]], stdout=subprocess.PIPE, stderr=subprocess.PIPE, timeout=60)
            so = p.stdout.decode("utf-8", "replace")
            return {"r": "OK", "rc": p.returncode, "report": "REGISTER" in so, "keep": "keep one" in so, "drop": "drop two" in so,
                    "stderr": p.stderr.decode("utf-8", "replace")[-300:]}
        except Exception as e:  # noqa: BLE001
            return {"r": "RUNNERERR", "msg": str(e)[:300]}
        finally:
            import shutil
            shutil.rmtree(d, ignore_errors=True)

    def run_impl(self, cases):
        cli_idx = [i for i, c in enumerate(cases) if c.get("op") == "clidef"]
        if cli_idx:
            os.makedirs(os.path.join(common.BUILD, "tmp"), exist_ok=True)
            rest_idx = [i for i, c in enumerate(cases) if c.get("op") != "clidef"]
            rest = self.run_impl([cases[i] for i in rest_idx]) if rest_idx else []
            out = [None] * len(cases)
            for i, a in zip(rest_idx, rest):
                out[i] = a
            for i in cli_idx:
                out[i] = self.run_cli(cases[i])
            return out
        first = common.run_driver([common.TK_IMPL], cases)
        idx = [i for i, c in enumerate(cases) if c.get("plain") is not None]
        second = common.run_driver([common.TK_IMPL], [dict(cases[i], **{"def": cases[i]["plain"], "force": None}) for i in idx])
        for i, a in zip(idx, second):
            first[i] = dict(first[i], plain=a)
        return first

    def impl_case(self, case):
        if case.get("op") in ("b64", "clidef"):
            return case
        return {k: v for k, v in case.items() if k in ("op", "def", "off", "cfg", "text", "force", "plain")}

    def model_case(self, case):
        if case.get("op") == "clidef":
            return None     # command-line glue: implementation and oracle only
        if case.get("op") == "b64":
            return case
        c = {k: v for k, v in case.items() if k in ("op", "def", "off", "txns", "force")}
        c["cfg"] = model_cfg(case.get("cfg") or {})
        return c

    # -------------------------------------------------------------------------- judgement
    @staticmethod
    def g(impl, k):
        v = impl.get(k)
        if isinstance(v, dict) and "r" in v:
            return v.get("v") if v.get("r") == "OK" else {"!": v.get("r")}
        return v

    def compare(self, case, impl, model):
        mr, ir = model.get("r"), impl.get("r")
        if mr == "UNDEF":
            return "skip"
        if mr == "BADCASE" or ir in ("BADCASE", "CFGERR", "GARBLED") or (ir == "LOADERR") != (mr == "LOADERR"):
            return "driver problem: impl=%s model=%s %s %s" % (ir, mr, impl.get("msg", ""), model.get("msg", ""))
        if case.get("op") == "b64":
            if impl.get("dec") != model.get("dec"):
                bad = [x for x, a, b in zip(case["xs"], impl.get("dec", []), model.get("dec", [])) if a != b]
                return "base64 decode differs on %r" % bad[:3]
            if impl.get("enc") != model.get("enc"):
                return "base64 encode differs"
            return None
        if ir == "LOADERR" and mr == "LOADERR":
            return None                 # the generated probe journal was not a valid journal
        if ir != mr:
            return "status differs: impl=%s model=%s (%s)" % (ir, mr, (impl.get("msg") or "")[:160])
        if ir != "OK":
            return None
        for k in ("armored", "json", "desc", "r2", "json2", "desc2", "json3"):
            a, b = self.g(impl, k), model.get(k)
            if a != b:
                return "%s differs: impl=%r model=%r" % (k, a, b)
        for k in ("sel", "sel2"):
            a, b = self.g(impl, k), model.get(k)
            if b == "UNDEF":
                continue
            if a != b:
                return "%s differs: impl selects %r, model %r" % (k, a, b)
        return None

    def oracle(self, case, impl):
        r = impl.get("r")
        if r in ("PANIC", "ABORT", "TIMEOUT"):
            return {"sig": "crash", "what": "reading a filter definition crashed: %s" % r}
        if case.get("op") == "clidef":
            if r != "OK":
                return {"sig": "cli-runner", "what": "binary could not be run: %s" % str(impl)[:200]}
            if case["valid"]:
                if impl["rc"] != 0 or not impl["keep"] or impl["drop"]:
                    return {"sig": "cli-valid-definition", "what": "valid definition on the command line: exit %s, selected keep=%s drop=%s: %s" % (
                        impl["rc"], impl["keep"], impl["drop"], impl["stderr"])}
                return None
            if impl["rc"] == 0 or impl["report"]:
                return {"sig": "cli-malformed-accepted", "what": "malformed --api-filter-def %r: exit %s, report printed: %s (ignored instead of rejected)" % (
                    case["def"], impl["rc"], impl["report"])}
            return None
        if case.get("op") == "b64":
            # x is accepted exactly when it is the canonical encoding of some byte string
            for x, d in zip(case["xs"], impl.get("dec", [])):
                try:
                    raw = base64.b64decode(x.encode("ascii"), validate=True)
                    canon = base64.b64encode(raw).decode() == x
                except Exception:
                    raw, canon = None, False
                if canon != (d is not None) or (canon and d["hex"] != raw.hex()):
                    return {"sig": "b64-decode", "what": "base64 decoding of %r: %r" % (x, d)}
                if canon:
                    try:
                        txt = raw.decode("utf-8")
                    except UnicodeDecodeError:
                        txt = None
                    if d.get("utf8") != txt:
                        return {"sig": "utf8-decode", "what": "UTF-8 decoding of %s: %r" % (raw.hex(), d.get("utf8"))}
            for h, e in zip(case["hs"], impl.get("enc", [])):
                if base64.b64encode(bytes.fromhex(h)).decode() != e:
                    return {"sig": "b64-encode", "what": "base64 encoding of %s: %r" % (h, e)}
            return None
        kind = case.get("kind", "")
        cls = kind.split(":")[0]
        expect = case.get("expect")
        if r == "ERR":
            if expect == "ok":
                return {"sig": "rejected-valid:" + cls, "what": "a valid definition (%s) is rejected: %s" % (kind, (impl.get("msg") or "")[:200])}
            return None
        if r != "OK":
            return None
        if expect == "err":
            sig = "accepted-malformed:" + kind if cls in ("bad-number", "bad-armor") else "accepted-malformed:" + cls
            return {"sig": sig, "what": "a malformed definition (%s) is accepted instead of rejected: %r -> %s"
                    % (kind, case["def"][:160], impl.get("json"))}
        self.remember(case)
        js = impl.get("json")
        # (a) the re-serialised text is read back, and reading + writing it again changes nothing
        if impl.get("r2") != "OK":
            return {"sig": "reserialised-rejected", "what": "the re-serialised definition %s is rejected: %s" % (js, impl.get("msg2"))}
        if self.g(impl, "json2") != js:
            return {"sig": "reserialise-not-idempotent", "what": "serialise(parse(%s)) = %s" % (js, self.g(impl, "json2"))}
        if self.g(impl, "desc2") != self.g(impl, "desc"):
            return {"sig": "description-changed", "what": "description changes across re-serialisation: %r vs %r" % (self.g(impl, "desc"), self.g(impl, "desc2"))}
        if self.g(impl, "json3") != js:
            return {"sig": "armor-differs", "what": "the armored form of %s re-serialises to %s" % (js, self.g(impl, "json3"))}
        if "sel" in impl and self.g(impl, "sel2") != self.g(impl, "sel"):
            return {"sig": "selection-changed", "what": "original selects %r, re-serialised selects %r" % (self.g(impl, "sel"), self.g(impl, "sel2"))}
        # (b) armored == plain
        p = impl.get("plain")
        if p is not None:
            if p.get("r") != "OK":
                return {"sig": "armor-differs", "what": "armored form accepted, plain form: %s" % p.get("r")}
            for k in ("json", "desc", "sel"):
                if self.g(p, k) != self.g(impl, k):
                    return {"sig": "armor-differs", "what": "%s differs between the armored and the plain definition" % k}
        # (c) patterns, numbers, instants, uuids are the ones written in the definition
        f = case.get("mfilter")
        if f is not None:
            try:
                j = json.loads(js, parse_float=D, parse_int=D)
            except Exception as e:
                return {"sig": "reserialised-not-json", "what": "python cannot read %r: %s" % (js, e)}
            if not isinstance(j, dict) or list(j.keys()) != ["txnFilter"]:
                return {"sig": "value-changed", "what": "top level of %s" % js}
            why = same_def(f, j["txnFilter"])
            if why:
                return {"sig": "value-changed:" + why.split(":")[0].split(" ")[0], "what": why + " in " + js}
            # (d) the selection is the one the definition describes
            allv = self.g(impl, "all")
            if isinstance(allv, list) and not case.get("nosat"):
                want = [t["uuid"] for t in allv if c05.sat(f, t)]
                if self.g(impl, "sel") != want:
                    return {"sig": "selection:" + c05.first_wrong_leaf(f, None, False), "what": "definition selects %r, python evaluation of it %r" % (self.g(impl, "sel"), want), "filter": f}
        return None

    def nontrivial(self, case, impl):
        if case.get("op") == "b64":
            return True
        if case.get("expect") == "err":
            return impl.get("r") == "ERR"
        try:
            n = len(self.g(impl, "sel"))
            return 0 < n < len(self.g(impl, "all")) or c05.depth_of(case["mfilter"]) >= 1 or case.get("kind", "").split(":")[0] not in ("valid",)
        except Exception:
            return False

    def shrinkable(self, case):
        return False

    def sample(self, case):
        return {"kind": case.get("kind"), "def": (case.get("def") or "")[:600], "plain": (case.get("plain") or "")[:600],
                "expect": case.get("expect"), "text": (case.get("text") or "")[:600]}

    def rule(self):
        return ("a probe journal (2-6 transactions with uuids, codes, descriptions, locations, tags, comments) and a random filter tree "
                "(gen/c05.py, all 20 variants, depth 0-4, patterns decorated with anchors / the wrapper text ^(?: )$ / nested wrappers), written as a "
                "definition text with random spellings (decimals as number / string / exponent / 28 decimals / more decimals / '+' / '_' / '.5'; instants with "
                "offsets, Z, 1-9 fraction digits, six-digit years, jiff's other spellings; uuids upper-case / simple / urn / braced; structs as maps, shuffled, "
                "with unknown fields, or as sequences; random white space and \\u escapes), plain or armored; plus malformed classes that must be rejected: "
                "repeated / wrong-case / spaced armor prefix, bad alphabet, url-safe alphabet, missing / extra / inner padding, non-canonical trailing bits, "
                "truncated payload, line breaks, non-UTF-8 payload, double armor; invalid regular expressions, uuids, numbers, timestamps; unknown variant, "
                "missing / duplicate field, wrong types, two variants, truncated or trailing JSON text; and a direct contract test of base64 decode/encode. "
                "non-trivial = rejected malformed input, or an accepted definition that selects a proper subset / is nested / belongs to a boundary class")

    def trusted_base(self):
        return super().trusted_base() + [
            "modelled as parameters / contracts, tested by the tie: serde_json text <-> value (the Lean driver has its own RFC 8259 reader; python's json "
            "module reads the re-serialised text in the oracle), rust_decimal text parsing beyond its exact paths, jiff timestamp spellings other than "
            "RFC 3339 with 'T', 'Z'/'+HH:MM', the regex crate outside the subset of Model/Regex (patterns there are UNDEF for the model; the oracles still apply)"]

    def assumptions(self):
        return ["JSON text <-> JSON value is serde_json's (theorems take the text parser as a parameter P)",
                "regex semantics of stored patterns is that of Model/Regex (C11) inside its subset"]


PROP = C18()

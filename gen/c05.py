"""C05 — transaction filters select exactly the transactions their definition describes."""
import hashlib
import json
import re
from decimal import Decimal as D

import common
from propbase import PropBase, model_cfg, cmp_status

SAFE = re.compile(r"^[A-Za-z0-9:_ #'éäöÄÖ-]*$")


# ---------------------------------------------------------------------------------------------
# filter AST (python dicts, model encoding) -> Rust JSON

def ns_to_rfc3339(ns, off=0):
    import datetime
    secs, frac = divmod(ns, 10 ** 9)
    dt = datetime.datetime(1970, 1, 1) + datetime.timedelta(seconds=secs + off)
    s = dt.strftime("%Y-%m-%dT%H:%M:%S")
    if frac:
        s += "." + ("%09d" % frac)
    return s + ("Z" if off == 0 else common.fmt_off(off))


def to_rust(f, rng=None):
    k = f["k"]
    if k == "tt":
        return {"NullaryTRUE": {}}
    if k == "ff":
        return {"NullaryFALSE": {}}
    if k == "and":
        return {"TxnFilterAND": {"txnFilters": [to_rust(x) for x in f["fs"]]}}
    if k == "or":
        return {"TxnFilterOR": {"txnFilters": [to_rust(x) for x in f["fs"]]}}
    if k == "not":
        return {"TxnFilterNOT": {"txnFilter": to_rust(f["f"])}}
    if k == "tsBegin":
        return {"TxnFilterTxnTSBegin": {"begin": ns_to_rfc3339(int(f["ns"]), f.get("off", 0))}}
    if k == "tsEnd":
        return {"TxnFilterTxnTSEnd": {"end": ns_to_rfc3339(int(f["ns"]), f.get("off", 0))}}
    if k == "code":
        return {"TxnFilterTxnCode": {"regex": f["re"]}}
    if k == "desc":
        return {"TxnFilterTxnDescription": {"regex": f["re"]}}
    if k == "uuid":
        return {"TxnFilterTxnUUID": {"uuid": f["u"]}}
    if k == "bbox":
        return {"TxnFilterBBoxLatLon": {"south": f["s"], "west": f["w"], "north": f["n"], "east": f["e"]}}
    if k == "bbox3":
        return {"TxnFilterBBoxLatLonAlt": {"south": f["s"], "west": f["w"], "depth": f["d"], "north": f["n"], "east": f["e"], "height": f["h"]}}
    if k == "tags":
        return {"TxnFilterTxnTags": {"regex": f["re"]}}
    if k == "comments":
        return {"TxnFilterTxnComments": {"regex": f["re"]}}
    if k == "postAccount":
        return {"TxnFilterPostingAccount": {"regex": f["re"]}}
    if k == "postComment":
        return {"TxnFilterPostingComment": {"regex": f["re"]}}
    if k == "postAmountEq":
        return {"TxnFilterPostingAmountEqual": {"regex": f["re"], "amount": f["x"]}}
    if k == "postAmountLess":
        return {"TxnFilterPostingAmountLess": {"regex": f["re"], "amount": f["x"]}}
    if k == "postAmountGreater":
        return {"TxnFilterPostingAmountGreater": {"regex": f["re"], "amount": f["x"]}}
    if k == "postCommodity":
        return {"TxnFilterPostingCommodity": {"regex": f["re"]}}
    raise ValueError(k)


# ---------------------------------------------------------------------------------------------
# the documented predicate, evaluated in python on the implementation's own transaction listing

def fm(pat, s):
    return re.fullmatch(pat, s) is not None


def in_box2(f, g):
    s, w, n, e = D(f["s"]), D(f["w"]), D(f["n"]), D(f["e"])
    lat, lon = D(g["lat"]), D(g["lon"])
    if not (s <= lat <= n):
        return False
    if w > e:
        return w <= lon or lon <= e
    return w <= lon <= e


def sat(f, t):
    k = f["k"]
    if k == "tt":
        return True
    if k == "ff":
        return False
    if k == "and":
        return all(sat(x, t) for x in f["fs"])
    if k == "or":
        return any(sat(x, t) for x in f["fs"])
    if k == "not":
        return not sat(f["f"], t)
    if k == "tsBegin":
        return int(f["ns"]) <= int(t["ts"]["ns"])
    if k == "tsEnd":
        return int(t["ts"]["ns"]) < int(f["ns"])
    if k == "code":
        return t["code"] is not None and fm(f["re"], t["code"])
    if k == "desc":
        return t["desc"] is not None and fm(f["re"], t["desc"])
    if k == "uuid":
        return t["uuid"] == f["u"]
    if k == "bbox":
        return t["loc"] is not None and in_box2(f, t["loc"])
    if k == "bbox3":
        g = t["loc"]
        return g is not None and g.get("alt") is not None and in_box2(f, g) and D(f["d"]) <= D(g["alt"]) <= D(f["h"])
    if k == "tags":
        return t["tags"] is not None and any(fm(f["re"], x) for x in t["tags"])
    if k == "comments":
        return t["comments"] is not None and any(fm(f["re"], x) for x in t["comments"])
    if k == "postAccount":
        return any(fm(f["re"], p["acct"]) for p in t["posts"])
    if k == "postComment":
        return any(p["comment"] is not None and fm(f["re"], p["comment"]) for p in t["posts"])
    if k == "postAmountEq":
        return any(D(p["amount"]) == D(f["x"]) and fm(f["re"], p["acct"]) for p in t["posts"])
    if k == "postAmountLess":
        return any(D(p["amount"]) < D(f["x"]) and fm(f["re"], p["acct"]) for p in t["posts"])
    if k == "postAmountGreater":
        return any(D(p["amount"]) > D(f["x"]) and fm(f["re"], p["acct"]) for p in t["posts"])
    if k == "postCommodity":
        return any(fm(f["re"], p["comm"]) for p in t["posts"])
    raise ValueError(k)


# ---------------------------------------------------------------------------------------------
# generators

def gen_pattern(rng, targets):
    targets = [t for t in targets if t is not None and SAFE.match(t) and "\n" not in t]
    if not targets or rng.random() < 0.08:
        return rng.choice([".*", "zzz", "", "a"])
    t = rng.choice(targets)
    r = rng.random()
    if r < 0.3 or len(t) < 2:
        return t
    i = rng.randrange(1, len(t))
    if r < 0.45:
        return t[:i] + ".*"
    if r < 0.6:
        return ".*" + t[i:]
    if r < 0.7:
        j = rng.randrange(i, len(t) + 1)
        return ".*" + t[i:j] + ".*" if t[i:j] else ".*"
    if r < 0.78:
        # richer constructs of the modelled regex subset (alternation, group, class, optional, own anchors)
        k = rng.randrange(9)
        if k == 6:
            # the user's own anchors around a top-level alternation: still one whole-string pattern, so neither the
            # anchored proper prefix nor the anchored proper suffix may match
            return "^" + t[:i] + "|" + t[i:] + "$"
        if k == 7:
            return "^" + t[:i]
        if k == 8:
            return t[i:] + "$"
        if k == 0:
            return t[:i] + "(?:" + t[i:] + "|zzz)"
        if k == 1:
            return "qq|" + t              # top-level alternation: the wrapper's group keeps it whole-string
        if k == 2:
            return "[" + t[0] + "x]" + t[1:] if t[0] not in "-^]\\" else t
        if k == 3:
            return t + "x?"
        if k == 4:
            return "^" + t + "$"
        return t[:i] + ".+" if i < len(t) else t
    if r < 0.84:
        return t[:i]            # proper prefix: must NOT match (whole-string semantics)
    if r < 0.92:
        return t[i:]            # proper suffix: must NOT match
    return t + "x"


def shift_dec(rng, s):
    """a decimal near s: same value other scale, or +-1 ulp"""
    r = rng.random()
    if r < 0.3:
        return s
    if r < 0.55:
        return s + ("0" if "." in s else ".0") + "0" * rng.randrange(0, 3)
    sc = common.dec_scale(s)
    ulp = D(1).scaleb(-sc)
    return common.fmt_dec(D(s) + (ulp if r < 0.78 else -ulp))


def gen_leaf(rng, txns):
    t = rng.choice(txns)
    kind = rng.choice(["tsBegin", "tsEnd", "ts2", "code", "desc", "uuid", "bbox", "bbox3", "tags", "comments", "postAccount",
                       "postComment", "postAmountEq", "postAmountLess", "postAmountGreater", "postCommodity", "tt", "ff"])
    ns = int(t["ts"]["ns"])
    if kind in ("tsBegin", "tsEnd"):
        return {"k": kind, "ns": str(ns + rng.choice([-1, 0, 0, 1, 10 ** 9, -10 ** 9])), "off": rng.choice([0, 7200, -18000, 19800])}
    if kind == "ts2":
        ns2 = int(rng.choice(txns)["ts"]["ns"])
        lo, hi = min(ns, ns2), max(ns, ns2)
        return {"k": "and", "fs": [{"k": "tsBegin", "ns": str(lo + rng.choice([-1, 0, 1])), "off": 0},
                                  {"k": "tsEnd", "ns": str(hi + rng.choice([-1, 0, 1])), "off": 3600}]}
    if kind == "code":
        return {"k": "code", "re": gen_pattern(rng, [x.get("code") for x in txns])}
    if kind == "desc":
        return {"k": "desc", "re": gen_pattern(rng, [x.get("desc") for x in txns])}
    if kind == "uuid":
        us = [x["uuid"] for x in txns if x.get("uuid")]
        return {"k": "uuid", "u": rng.choice(us) if us and rng.random() < 0.8 else common.gen_uuid(rng)}
    if kind in ("bbox", "bbox3"):
        locs = [x["loc"] for x in txns if x.get("loc")]
        if locs and rng.random() < 0.85:
            g = rng.choice(locs)
            lat, lon = D(g["lat"]), D(g["lon"])
        else:
            lat, lon = D(rng.randrange(-90, 91)), D(rng.randrange(-180, 181))
        shape = rng.choice(["around", "edge", "degenerate", "wrap-in", "wrap-out", "wrap-edge", "wrap-edge", "miss", "world"])
        d1, d2 = D(rng.choice(["0", "0.001", "1", "5"])), D(rng.choice(["0", "0.001", "1", "5"]))
        s, n = max(D(-90), lat - d1), min(D(90), lat + d2)
        if shape == "around":
            w, e = max(D(-180), lon - d1), min(D(180), lon + d2)
        elif shape == "edge":
            w, e = lon, min(D(180), lon + d2)
        elif shape == "degenerate":
            w = e = lon if rng.random() < 0.5 else min(D(180), lon + 1)
        elif shape == "wrap-in":
            w, e = lon - 1 if lon - 1 >= -180 else lon, D(-180) if lon > -179 else lon
            if not (w > e):
                w, e = D(170), D(-170)
        elif shape == "wrap-out":
            w, e = min(D(180), lon + 1), max(D(-180), lon - 1)
            if not (w > e):
                w, e = D(170), D(-170)
        elif shape == "wrap-edge":
            # a box across the antimeridian (west > east) with the point exactly on its east or west edge: inclusive
            if rng.random() < 0.5 and lon + 1 <= 180:
                w, e = lon + 1, lon
            elif lon - 1 >= -180:
                w, e = lon, lon - 1
            else:
                w, e = D(170), D(-170)
        elif shape == "miss":
            s, n = min(D(90), lat + 1), min(D(90), lat + 2)
            w, e = D(-180), D(180)
        else:
            s, n, w, e = D(-90), D(90), D(-180), D(180)
        f = {"k": "bbox", "s": common.fmt_dec(s), "w": common.fmt_dec(w), "n": common.fmt_dec(n), "e": common.fmt_dec(e)}
        if kind == "bbox3":
            alts = [D(x["loc"]["alt"]) for x in txns if x.get("loc") and x["loc"].get("alt") is not None]
            a = rng.choice(alts) if alts else D(0)
            lo, hi = rng.choice([(a, a), (a - 1, a + 1), (a + 1, a + 2), (D(-6378137), D(10 ** 6))])
            f = dict(f, k="bbox3", d=common.fmt_dec(lo), h=common.fmt_dec(hi))
        return f
    if kind == "tags":
        return {"k": "tags", "re": gen_pattern(rng, [y for x in txns for y in (x.get("tags") or [])])}
    if kind == "comments":
        return {"k": "comments", "re": gen_pattern(rng, [y for x in txns for y in (x.get("comments") or [])])}
    accts = [p["acct"] for x in txns for p in x["posts"]] + [x["last"]["acct"] for x in txns if x.get("last")]
    if kind == "postAccount":
        return {"k": "postAccount", "re": gen_pattern(rng, accts)}
    if kind == "postComment":
        return {"k": "postComment", "re": gen_pattern(rng, [p.get("comment") for x in txns for p in x["posts"]])}
    if kind in ("postAmountEq", "postAmountLess", "postAmountGreater"):
        p = rng.choice(rng.choice(txns)["posts"])
        # account pattern of this posting or of another one (same-posting requirement)
        acct = p["acct"] if rng.random() < 0.6 else rng.choice(accts)
        return {"k": kind, "re": gen_pattern(rng, [acct]) if rng.random() < 0.8 else ".*", "x": shift_dec(rng, p["amount"])}
    if kind == "postCommodity":
        comms = [(p.get("unit") or {}).get("comm", "") for x in txns for p in x["posts"]]
        return {"k": "postCommodity", "re": gen_pattern(rng, comms)}
    return {"k": kind}


def gen_filter(rng, txns, depth):
    if depth <= 0 or rng.random() < 0.35:
        return gen_leaf(rng, txns)
    k = rng.choice(["and", "or", "not", "and", "or"])
    if k == "not":
        return {"k": "not", "f": gen_filter(rng, txns, depth - 1)}
    n = rng.choice([0, 1, 2, 2, 3])
    return {"k": k, "fs": [gen_filter(rng, txns, depth - 1) for _ in range(n)]}


class C05(PropBase):
    id = "C05"

    def gen(self, rng, tier, focus=None):
        n = 1500 if tier == "quick" else 60000
        out = []
        for i in range(n):
            audit = rng.random() < 0.3
            cfg = {"audit": True, "hash": "SHA-256"} if audit else {}
            opts = {"p_invalid": 0.0, "n_txns": rng.choice([2, 3, 4, 6, 8]), "p_loc": 0.5, "p_tags": 0.5, "p_comments": 0.5,
                    "p_code": 0.6, "p_desc": 0.6, "p_uuid": 1.0 if audit else 0.5, "comms": common.COMMS[:3], "p_price": 0.1}
            txns = common.gen_journal(rng, cfg, opts)
            f = gen_filter(rng, txns, rng.choice([0, 0, 1, 1, 2, 3, 5]))
            layout = common.gen_layout(rng)
            case = {"op": "run", "kind": "depth%d" % depth_of(f), "cfg": cfg, "txns": txns, "layout": layout,
                    "text": common.render_journal(txns, layout), "mfilter": f,
                    "filter": json.dumps({"txnFilter": to_rust(f)}), "want": ["txns", "meta"]}
            # history: other selections made on the same loaded data before the reported one (everything, the
            # negation, an unrelated filter); the unfiltered run is then preceded by the filter itself
            if rng.random() < 0.5:
                neg = json.dumps({"txnFilter": to_rust({"k": "not", "f": f})})
                other = json.dumps({"txnFilter": to_rust(gen_filter(rng, txns, 1))})
                case["pre"] = rng.choice([[None], [neg], [None, neg], [other], [other, None]])
                case["pre_all"] = [case["filter"]]
                case["kind"] += "+history"
            out.append(case)
        # large journals: the selection is per transaction whatever the size of the journal (a count that is not a multiple
        # of a power of two, above any plausible batch or block size)
        for _ in range(2 if tier == "quick" else 12):
            out.append(self.gen_large(rng))
        return out

    def gen_large(self, rng):
        n = rng.choice([2051, 2049, 2050, 4099, 1025])
        cfg = {}
        txns = []
        base = common.civil_to_ns(2024, 1, 1, 0, 0, 0, 0, 0)
        for i in range(n):
            ns = base + i * 3600 * 10 ** 9
            secs = ns // 10 ** 9
            import datetime
            dt = common.EPOCH + datetime.timedelta(seconds=secs)
            t = {"ts": {"ns": str(ns), "off": 0, "text": dt.strftime("%Y-%m-%dT%H:%M:%SZ")}, "code": "#%05d" % i,
                 "desc": rng.choice(["a", "b", "c"]), "uuid": None, "loc": None, "tags": None, "comments": None,
                 "posts": [{"acct": rng.choice(["e:x", "e:y"]), "amount": str(1 + i % 7), "unit": None, "comment": None}],
                 "last": {"acct": "a:cash", "comment": None}}
            txns.append(t)
        f = rng.choice([{"k": "tt"}, {"k": "desc", "re": "a"}, {"k": "not", "f": {"k": "desc", "re": "b"}},
                        {"k": "tsBegin", "ns": str(base + (n // 3) * 3600 * 10 ** 9), "off": 0},
                        {"k": "postAmountGreater", "re": "e:.*", "x": "3"}])
        layout = {"indent": " ", "sep": "  "}
        return {"op": "run", "kind": "large:%d" % n, "cfg": cfg, "txns": txns, "layout": layout,
                "text": common.render_journal(txns, layout), "mfilter": f,
                "filter": json.dumps({"txnFilter": to_rust(f)}), "want": ["txns", "meta"]}

    def rerender(self, case):
        case = super().rerender(case)
        return case

    # the implementation is run with and without the filter
    def run_impl(self, cases):
        a = common.run_driver([common.TK_IMPL], [{k: v for k, v in c.items() if k not in ("txns", "mfilter", "layout")} for c in cases])
        b = common.run_driver([common.TK_IMPL], [dict({k: v for k, v in c.items() if k not in ("txns", "mfilter", "layout", "filter", "pre", "pre_all")},
                                                      **({"pre": c["pre_all"]} if c.get("pre_all") else {})) for c in cases])
        return [dict(x, all=y) for x, y in zip(a, b)]

    def impl_case(self, case):
        return case

    def model_case(self, case):
        c = {k: v for k, v in case.items() if k not in ("text", "filter", "layout", "pre", "pre_all")}
        c["cfg"] = model_cfg(case.get("cfg", {}))
        c["want"] = ["txns"]
        return c

    def compare(self, case, impl, model):
        d = cmp_status(impl, model)
        if d:
            return d
        if impl.get("r") != "OK":
            return None
        a, b = impl["out"]["txns"], model["out"]["txns"]
        if a.get("r") != "OK" or b.get("r") != "OK":
            return "txns status impl=%s model=%s" % (a.get("r"), b.get("r"))
        if [t["ts"]["ns"] + "|" + str(t["uuid"]) + "|" + str(t["desc"]) for t in a["v"]] != \
           [t["ts"]["ns"] + "|" + str(t["uuid"]) + "|" + str(t["desc"]) for t in b["v"]] or a["v"] != b["v"]:
            return "selected transactions differ: impl selects %d, model %d" % (len(a["v"]), len(b["v"]))
        return None

    def oracle(self, case, impl):
        if impl.get("r") in ("PANIC", "ABORT", "TIMEOUT"):
            return {"sig": "crash", "what": "filtering crashed: %s" % impl.get("r")}
        if impl.get("r") == "FILTERERR":
            return {"sig": "filter-rejected", "what": "valid filter definition rejected: %s" % impl.get("msg", "")[:200]}
        allr = impl.get("all", {})
        if impl.get("r") != "OK" or allr.get("r") != "OK":
            return None
        self.remember(case)
        sel = impl["out"]["txns"]["v"]
        everything = allr["out"]["txns"]["v"]
        f = case["mfilter"]
        expect = [t for t in everything if sat(f, t)]
        if sel != expect:
            extra = [t for t in sel if t not in expect]
            missing = [t for t in expect if t not in sel]
            what = "selected %d transactions, the documented predicate selects %d" % (len(sel), len(expect))
            sig = "selection"
            for t in (extra + missing)[:1]:
                sig = "selection:" + first_wrong_leaf(f, t, t in sel)
            if not extra and not missing:
                sig, what = "order", "selected transactions are not in the original order"
            return {"sig": sig, "what": what, "filter": f}
        # metadata of the filtered set (audit mode): size and checksum describe exactly the selected set
        meta = impl["out"].get("meta", {})
        if case["cfg"].get("audit") and meta.get("r") == "OK" and meta.get("v"):
            text = meta["v"]
            m1 = re.search(r"SHA-256\s*:\s*([0-9a-f]{64})", text)
            m2 = re.search(r"[Ss]et size\s*:\s*(\d+)", text)
            uu = sorted(t["uuid"] for t in sel)
            h = hashlib.sha256("".join(u + "\n" for u in uu).encode()).hexdigest()
            if m2 and int(m2.group(1)) != len(sel):
                return {"sig": "meta-size", "what": "metadata reports size %s for %d selected transactions" % (m2.group(1), len(sel))}
            if m1 and m1.group(1) != h:
                return {"sig": "meta-checksum", "what": "metadata checksum is not the hash of the selected uuids"}
            if not m1 or not m2:
                return {"sig": "meta-missing", "what": "audit metadata lacks checksum/size: %r" % text[:200]}
            # … and so does the metadata of the unfiltered selection (made after the filtered one in history cases)
            ameta = allr["out"].get("meta", {})
            if ameta.get("r") == "OK" and ameta.get("v"):
                a1 = re.search(r"SHA-256\s*:\s*([0-9a-f]{64})", ameta["v"])
                a2 = re.search(r"[Ss]et size\s*:\s*(\d+)", ameta["v"])
                ha = hashlib.sha256("".join(u + "\n" for u in sorted(t["uuid"] for t in everything)).encode()).hexdigest()
                if a2 and int(a2.group(1)) != len(everything):
                    return {"sig": "meta-size-all", "what": "metadata of the unfiltered set reports size %s for %d transactions"
                            % (a2.group(1), len(everything))}
                if a1 and a1.group(1) != ha:
                    return {"sig": "meta-checksum-all", "what": "checksum of the unfiltered set is not the hash of all uuids"}
        return None

    def nontrivial(self, case, impl):
        try:
            n = len(impl["out"]["txns"]["v"])
            return 0 < n < len(impl["all"]["out"]["txns"]["v"]) or depth_of(case["mfilter"]) >= 2
        except Exception:
            return False

    def sample(self, case):
        return {"kind": case.get("kind"), "filter": case.get("filter"), "text": case.get("text", "")[:1200]}

    def rule(self):
        return ("journals with rich headers (codes, descriptions, uuids, locations with/without altitude, tags, comments) and a "
                "random filter tree (depth 0-5 over all 15 leaf kinds + nullary, empty AND/OR; leaves aimed at values of the "
                "journal: instants +-1 ns, amounts with other scale / +-1 ulp, boxes around / edge / degenerate / wrapping / missing, "
                "patterns = whole value, prefix.*, .*suffix, .*infix.*, proper prefix/suffix (must not match)); the implementation is "
                "run with and without the filter; non-trivial = selects a non-empty proper subset or nesting depth >= 2")

    def trusted_base(self):
        return super().trusted_base() + [
            "modelled, not verified: serde_json decoding of the definition, jiff parsing of the bounds, the regex crate "
            "outside the modelled subset (the model answers UNDEF there)"]

    def assumptions(self):
        return ["pattern matching is a parameter of the theorems (whole-string match m); its meaning is C11/C18"]


def depth_of(f):
    if f["k"] in ("and", "or"):
        return 1 + max([depth_of(x) for x in f["fs"]] + [0])
    if f["k"] == "not":
        return 1 + depth_of(f["f"])
    return 0


def first_wrong_leaf(f, t, selected):
    """kind of a leaf filter involved (for a stable signature)"""
    k = f["k"]
    if k in ("and", "or"):
        for x in f["fs"]:
            r = first_wrong_leaf(x, t, selected)
            if r:
                return r
        return k
    if k == "not":
        return first_wrong_leaf(f["f"], t, selected)
    return k


PROP = C05()

"""C16 — timestamps are instants; zone defaults as configured; report zone display-only.

Three families of cases:
* op `ts`    (tie + oracle): one journal-zone configuration + a list of timestamp texts.  The implementation answers
               through `Settings::parse_timestamp`, the model through `Time.parseTsZ` (own lexer + `resolveTs`; named
               zones as transition tables exported from jiff by op `tzdata`).  Oracle: python regex lexer +
               `datetime`/`zoneinfo` arithmetic, independent of both.
* op `tsfmt` (tie + oracle): one instant + a list of report zones ⇒ every text of `tackler_api::txn_ts`.
* op `run`   (implementation-only oracle, plus the model's load order): the same journal under several
               `report-timezone` / `timestamp-style` settings must load to the identical transaction list in instant
               order, and the register reports may differ in the timestamp text only (which must be the instant shown
               in that zone).
"""
import datetime
import re
import zoneinfo

import common
from propbase import PropBase, model_cfg

NS = 10 ** 9
MAX_NS = 253402207200 * NS + 999999999       # 9999-12-30T22:00:00.999999999Z
MIN_NS = -377705023201 * NS                  # -9999-01-02T01:59:59Z
JOBS = min(4, common.NCPU)

ZONES = ["Europe/Helsinki", "America/St_Johns", "Australia/Lord_Howe", "America/New_York", "Pacific/Apia",
         "Asia/Kolkata", "America/Goose_Bay", "Europe/Dublin", "Africa/Casablanca", "Pacific/Kiritimati"]
CORE_ZONES = ZONES[:3]
CFG_OFFSETS = ["+00:00", "-00:00", "+02:00", "-05:00", "+05:45", "-09:30", "+14:00", "-12:00", "+23:59", "-23:59",
               "+25:59", "-25:59", "+01:39:49", "-00:00:01"]
DEFAULT_TIMES = ["00:00:00", "22:30:15", "23:59:59.999999999", "12:00:00.5", "01:02:03", "03:30:00"]
REPORT_ZONES = ["UTC", "Asia/Tokyo", "America/St_Johns", "Pacific/Kiritimati", "Etc/GMT+12", "Australia/Lord_Howe",
                "Europe/Helsinki", "America/New_York", "Pacific/Apia"]
STYLES = ["date", "seconds", "full"]
TABLE_Y0, TABLE_Y1 = 1800, 2200

# ---------------------------------------------------------------------------------------------
# independent calendar arithmetic (python datetime; year 0 and below through the 400-year cycle)


def days_civil(y, m, d):
    """days since 1970-01-01 of a valid proleptic Gregorian date, any year <= 9999"""
    shift = 0
    while y + shift < 1:
        shift += 400
    return datetime.date(y + shift, m, d).toordinal() - 719163 - (shift // 400) * 146097


def valid_date(y, m, d):
    try:
        datetime.date(y if y >= 1 else y + 400, m, d)
        return True
    except ValueError:
        return False


def civil_of(local_secs):
    """wall-clock seconds since the epoch -> (y, m, d, h, mi, s, (iso year, iso week, iso weekday))"""
    days, sod = divmod(local_secs, 86400)
    ordinal = days + 719163
    shift = 0
    while ordinal < 1:
        ordinal += 146097
        shift += 400
    while ordinal > 3652059:          # 9999-12-31
        ordinal -= 146097
        shift -= 400
    dt = datetime.date.fromordinal(ordinal)
    iso = dt.isocalendar()
    return (dt.year - shift, dt.month, dt.day, sod // 3600, sod % 3600 // 60, sod % 60,
            (iso[0] - shift, iso[1], iso[2]))


def year_text(y):
    return "%04d" % y if y >= 0 else "-%04d" % (-y)


def off_text(off):
    a = abs(off)
    t = "%s%02d:%02d" % ("-" if off < 0 else "+", a // 3600, a % 3600 // 60)
    if a % 60:
        t += ":%02d" % (a % 60)
    return t


def frac_text(sub):
    return ("." + ("%09d" % sub).rstrip("0")) if sub else ""


def display(ns, off):
    """texts of txn_ts for an instant seen at offset `off`"""
    secs, sub = divmod(ns, NS)
    y, m, d, h, mi, s, iso = civil_of(secs + off)
    date = "%s-%02d-%02d" % (year_text(y), m, d)
    clock = "%02d:%02d:%02d" % (h, mi, s)
    return {
        "date": date, "month": "%s-%02d" % (year_text(y), m), "year": year_text(y),
        "seconds": date + " " + clock, "full": date + " " + clock + frac_text(sub),
        "week": "%d-W%02d" % (iso[0], iso[1]), "week_date": "%d-W%02d-%d" % iso,
        "rfc3339": date + "T" + clock + frac_text(sub) + off_text(off),
        "seconds_tz": date + " " + clock + " " + off_text(off),
        "full_tz": date + " " + clock + frac_text(sub) + " " + off_text(off),
    }


_ZI = {}


def zi(name):
    if name not in _ZI:
        _ZI[name] = zoneinfo.ZoneInfo(name)
    return _ZI[name]


UTC0 = datetime.datetime(1970, 1, 1, tzinfo=datetime.timezone.utc)


def zone_offset_at(name, secs):
    """offset (s) of a named zone at an instant; None when python cannot represent it"""
    try:
        dt = (UTC0 + datetime.timedelta(seconds=secs)).astimezone(zi(name))
        return int(dt.utcoffset().total_seconds())
    except (OverflowError, ValueError):
        return None


def zone_local_to_instant(name, y, m, d, h, mi, s):
    """wall clock in a named zone -> (instant secs, offset) with the 'compatible' rule (fold=0 of PEP 495:
    in a gap the offset before the gap, in a fold the first reading)"""
    try:
        naive = datetime.datetime(y, m, d, h, mi, s)
        off0 = int(naive.replace(tzinfo=zi(name), fold=0).utcoffset().total_seconds())
    except (OverflowError, ValueError):
        return None
    u = days_civil(y, m, d) * 86400 + h * 3600 + mi * 60 + s - off0
    o = zone_offset_at(name, u)
    if o is None:
        return None
    return u, o


def subsecond_quirk(zone, ns, got_off):
    """F22: jiff 0.2.5 looks a negative instant with a fraction up at the *next* whole second"""
    name = zone.get("name") if isinstance(zone, dict) else None
    if not name or ns >= 0 or ns % NS == 0:
        return False
    return zone_offset_at(name, ns // NS + 1) == got_off != zone_offset_at(name, ns // NS)


# ---------------------------------------------------------------------------------------------
# independent lexer + resolution of one timestamp text

RE_TS = re.compile(r"(\d{4})-(\d{2})-(\d{2})(?:T(\d{2}):(\d{2}):(\d{2})(?:\.(\d{1,9}))?(Z|[+-]\d{2}:\d{2})?)?", re.ASCII)


def cfg_offset_secs(text):
    sign = -1 if text[0] == "-" else 1
    parts = [int(x) for x in text[1:].split(":")]
    while len(parts) < 3:
        parts.append(0)
    return sign * (parts[0] * 3600 + parts[1] * 60 + parts[2])


def cfg_default_time(cfg):
    t = cfg.get("default_time", "00:00:00")
    hms, _, fr = t.partition(".")
    h, m, s = [int(x) for x in hms.split(":")]
    ns = int((fr + "000000000")[:9]) if fr else 0
    return h, m, s, ns


def expected_ts(text, cfg):
    """('ERR',) | ('OK', ns, off) | None (python cannot decide)"""
    m = RE_TS.fullmatch(text)
    if not m:
        return ("ERR",)
    y, mo, d = int(m.group(1)), int(m.group(2)), int(m.group(3))
    if not valid_date(y, mo, d):
        return ("ERR",)
    tz = cfg.get("tz") or {"name": "UTC"}
    if m.group(4) is None:
        h, mi, s, sub = cfg_default_time(cfg)
        zone = None
    else:
        h, mi, s = int(m.group(4)), int(m.group(5)), int(m.group(6))
        if h > 23 or mi > 59 or s > 59:
            return ("ERR",)
        fr = m.group(7)
        sub = int(fr) * 10 ** (9 - len(fr)) if fr else 0
        zone = m.group(8)
    local = days_civil(y, mo, d) * 86400 + h * 3600 + mi * 60 + s
    if zone == "Z":
        off = 0
    elif zone:
        off = (-1 if zone[0] == "-" else 1) * (int(zone[1:3]) * 3600 + int(zone[4:6]) * 60)
        if abs(off) > 93599:
            return ("ERR",)
    elif "offset" in tz:
        off = cfg_offset_secs(tz["offset"])
    elif tz.get("name") == "UTC":
        off = 0
    else:
        if y < 1:
            return None
        r = zone_local_to_instant(tz["name"], y, mo, d, h, mi, s)
        if r is None:
            return None
        u, off = r
        ns = u * NS + sub
        return ("OK", ns, off) if MIN_NS <= ns <= MAX_NS else ("ERR",)
    ns = (local - off) * NS + sub
    if not (MIN_NS <= ns <= MAX_NS):
        return ("ERR",)
    return ("OK", ns, off)


# ---------------------------------------------------------------------------------------------
# rendering helpers for the generators

def ts_text(y, m, d, hms=None, frac=None, zone=None):
    t = "%04d-%02d-%02d" % (y, m, d)
    if hms is not None:
        t += "T%02d:%02d:%02d" % hms
        if frac is not None:
            t += "." + frac
        if zone is not None:
            t += zone
    return t


def zone_text(off, rng=None):
    if off == 0 and rng is not None:
        return rng.choice(["Z", "+00:00", "-00:00"])
    a = abs(off)
    return "%s%02d:%02d" % ("-" if off < 0 else "+", a // 3600, a % 3600 // 60)


def frac_variants(rng, sub):
    """digit strings (1-9 digits) that all denote `sub` nanoseconds"""
    if sub == 0:
        return [None, "0", "000", "000000000"]
    full = "%09d" % sub
    short = full.rstrip("0")
    out = [short, full]
    if len(short) < 9:
        out.append(short + "0" * rng.randrange(1, 9 - len(short) + 1))
    return out


def rand_sub(rng):
    r = rng.random()
    if r < 0.3:
        return 0
    if r < 0.5:
        return rng.choice([500000000, 1, 999999999, 120000000, 123456789, 100, 999999000])
    k = rng.randrange(1, 10)
    return rng.randrange(10 ** k) * 10 ** (9 - k)


def rand_instant_secs(rng):
    r = rng.random()
    if r < 0.45:
        y = rng.choice([2023, 2024, 2025])
    elif r < 0.6:
        y = rng.choice([1, 2, 999, 1000, 1001, 1582, 1899, 1900, 1969, 1970, 2000, 2038, 2100, 9998, 9999])
    else:
        y = rng.randrange(1, 9999)
    m = rng.randrange(1, 13)
    d = rng.randrange(1, 29)
    if rng.random() < 0.15:
        m, d = rng.choice([(1, 1), (12, 31), (2, 28), (3, 1), (12, 30)])
    sod = rng.choice([0, 86399, 43200, rng.randrange(86400), rng.randrange(86400)])
    return days_civil(y, m, d) * 86400 + sod


OFFSET_POOL = [0, 3600, 7200, -18000, 19800, 20700, -34200, 50400, -43200, 86340, -86340, 60, -60, 45900, -3540]


def rand_offset(rng):
    if rng.random() < 0.6:
        return rng.choice(OFFSET_POOL)
    return rng.choice([-1, 1]) * (rng.randrange(24) * 3600 + rng.randrange(60) * 60)


def render_instant(rng, secs, sub, off, frac=None, zone=None):
    """the instant written with offset `off` (None when the local year leaves 0000..9999)"""
    y, m, d, h, mi, s, _ = civil_of(secs + off)
    if not (0 <= y <= 9999):
        return None
    if frac is None:
        frac = rng.choice(frac_variants(rng, sub))
    return ts_text(y, m, d, (h, mi, s), frac, zone if zone is not None else zone_text(off, rng))


def rand_cfg(rng, named=0.25):
    cfg = {}
    r = rng.random()
    if r < named:
        cfg["tz"] = {"name": rng.choice(ZONES + CORE_ZONES * 2)}
    elif r < named + 0.5:
        cfg["tz"] = {"offset": rng.choice(CFG_OFFSETS)}
    elif r < named + 0.6:
        cfg["tz"] = {"name": "UTC"}
    if rng.random() < 0.6:
        cfg["default_time"] = rng.choice(DEFAULT_TIMES)
    return cfg


def mutate(rng, t):
    if not t:
        return "x"
    i = rng.randrange(len(t))
    r = rng.random()
    if r < 0.3:
        return t[:i] + t[i + 1:]
    if r < 0.6:
        return t[:i] + rng.choice("0123456789-:.TZ+ tz/,٣３") + t[i:]
    if r < 0.9:
        return t[:i] + rng.choice("0123456789-:.TZ+ tz") + t[i + 1:]
    return t[:i]


GROUP_BYS = ["year", "month", "date", "iso-week", "iso-week-date"]
GROUP_KEY = {"year": "year", "month": "month", "date": "date", "iso-week": "week", "iso-week-date": "week_date"}


class C16(PropBase):
    id = "C16"

    def __init__(self):
        super().__init__()
        self._tables = {}

    # ---- zone data (exported from jiff through the harness)
    def table(self, zone):
        if zone not in self._tables:
            lo = days_civil(TABLE_Y0, 1, 1) * 86400 * NS
            hi = days_civil(TABLE_Y1, 1, 1) * 86400 * NS
            ans = common.run_driver([common.TK_IMPL], [{"op": "tzdata", "zone": zone, "lo": str(lo), "hi": str(hi)}], jobs=1)
            a = ans[0]
            if a.get("r") != "OK":
                raise RuntimeError("tzdata %s: %s" % (zone, a))
            v = a["v"]
            self._tables[zone] = {"lo": lo, "hi": hi, "init": v["init"], "trans": [(int(t), o) for t, o in v["trans"]]}
        return self._tables[zone]

    def window(self, zone, lo, hi):
        """the table restricted to the instants lo..hi (model input)"""
        tab = self.table(zone)
        lo = max(lo, tab["lo"])
        hi = min(hi, tab["hi"])
        init = tab["init"]
        trans = []
        for t, o in tab["trans"]:
            if t <= lo:
                init = o
            elif t <= hi:
                trans.append([str(t), o])
        return {"lo": str(lo), "hi": str(hi), "init": init, "trans": trans}

    def model_zone(self, z, years=None, around=None):
        """zone spec of a case -> model zone (fixed offset or table window)"""
        if "off" in z:
            return {"off": z["off"]}
        if "offset" in z:
            return {"off": cfg_offset_secs(z["offset"])}
        name = z.get("name", "UTC")
        if name == "UTC":
            return {"off": 0}
        if around is not None:
            lo, hi = around - 400 * 86400 * NS, around + 400 * 86400 * NS
        else:
            y0, y1 = years if years else (2023, 2025)
            y0 = min(max(y0 - 1, 1), 9998)
            y1 = min(max(y1 + 2, 2), 9999)
            lo, hi = days_civil(y0, 1, 1) * 86400 * NS, days_civil(y1, 1, 1) * 86400 * NS
        return {"table": self.window(name, lo, hi)}

    # ---- generators
    def gen(self, rng, tier, focus=None):
        q = tier == "quick"
        mult = 3 if q else 60
        out = []
        out += self.g_boundary_ts(rng)
        for _ in range(60 * mult):
            out.append(self.g_equiv(rng))
        for _ in range(25 * mult):
            out.append(self.g_frac(rng))
        for _ in range(25 * mult):
            out.append(self.g_offsets(rng))
        for _ in range(40 * mult):
            out.append(self.g_date_only(rng))
        for _ in range(25 * mult):
            out.append(self.g_invalid(rng))
        for _ in range(25 * mult):
            out.append(self.g_years(rng))
        for _ in range(50 * mult):
            out.append(self.g_dst(rng))
        for _ in range(60 * mult):
            out.append(self.g_malformed(rng))
        for _ in range(120 * mult):
            out.append(self.g_random_ts(rng))
        out += self.g_boundary_fmt(rng)
        out += self.g_repo_vectors()
        for _ in range(60 * mult):
            out.append(self.g_weeks(rng))
        for _ in range(150 * mult):
            out.append(self.g_random_fmt(rng))
        for _ in range(10 * mult):
            out.append(self.g_range_fmt(rng))
        for _ in range(120 if q else 2400):
            out.append(self.g_run(rng))
        for _ in range(30 if q else 600):
            out.append(self.g_run_fold(rng))
        # a timestamp given on the command line (`--price.before` of the given-time price lookup) follows the same rule as
        # one written in the journal: without an offset it is read in the configured journal zone.  The class is C07's
        # (price entries within the offset-wide window between the two readings); it is run and judged by C07's plug-in
        for _ in range(40 if q else 800):
            c = self.g_given_zone(rng)
            if c is not None:
                out.append(c)
        # "priced by absolute instant ... sub-second digits down to nanoseconds are preserved": price entries one nanosecond
        # before / at / after a transaction's instant under the txn-time lookup (C07's class 'at-instant', borrowed)
        import c07
        for _ in range(40 if q else 800):
            c = c07.PROP.gen_case(rng, "at-instant")
            if c["lookup"] == "txn-time":
                out.append(dict(c, delegate="c07", kind="txn-time:instants"))
        return out

    def g_given_zone(self, rng):
        import c07
        for _ in range(60):
            c = c07.PROP.gen_case(rng, "given-edge")
            off = (c["cfg"].get("tz") or {}).get("offset", "+00:00")
            before = (c["cfg"].get("price") or {}).get("before", "")
            offset_less = "T" not in before or not (before.endswith("Z") or before[-6] in "+-")
            if c["lookup"] == "given-time" and off != "+00:00" and offset_less:
                c["delegate"] = "c07"
                c["kind"] = "given-time:journal-zone"
                return c
        return None

    def g_run_fold(self, rng):
        """transactions inside the repeated hour of a fall-back of the report zone, the later instant showing the earlier
        wall-clock time: order and running totals are by instant, whatever the displayed civil times look like"""
        import datetime
        zone, base = rng.choice([("Europe/Helsinki", datetime.datetime(2024, 10, 27, 0, 0)),       # 04:00 EEST -> 03:00 EET at 01:00Z
                                 ("America/New_York", datetime.datetime(2024, 11, 3, 5, 0)),       # 02:00 EDT -> 01:00 EST at 06:00Z
                                 ("Australia/Lord_Howe", datetime.datetime(2024, 4, 6, 14, 30)),   # 02:00 -> 01:30 at 15:00Z
                                 ("Pacific/Apia", datetime.datetime(2011, 4, 2, 13, 0))])          # 04:00 -> 03:00 at 14:00Z
        cfg = {}
        txns = []
        mins = sorted(rng.sample(range(5, 115), rng.choice([2, 3, 4])))
        for k, m in enumerate(mins):
            dt = base + datetime.timedelta(minutes=m)
            text = dt.strftime("%Y-%m-%dT%H:%M:%S") + "Z"
            ns = int((dt - datetime.datetime(1970, 1, 1)).total_seconds()) * NS
            t = common.gen_header(rng, cfg, {"p_uuid": 0.0, "p_loc": 0.0, "p_tags": 0.0, "p_comments": 0.0, "p_code": 0.3, "p_desc": 0.5})
            t["ts"] = {"ns": str(ns), "off": 0, "text": text}
            amt = str(k + 1) + rng.choice(["", ".5", ".25"])
            t["posts"] = [{"acct": rng.choice(["a", "a:b"]), "amount": amt, "unit": None, "comment": None}]
            t["last"] = {"acct": "e", "comment": None}
            txns.append(t)
        rng.shuffle(txns)
        text = common.render_journal(txns, common.gen_layout(rng))
        variants = [{"report_tz": z, "ts_style": rng.choice(STYLES), "group_by": rng.choice(GROUP_BYS)} for z in ("UTC", zone)]
        return {"op": "run", "kind": "report-tz:fold", "cfg": cfg, "txns": txns, "text": text,
                "want": ["txns", "register", "balance", "balgrp"], "variants": variants}

    def mk_ts(self, kind, cfg, texts, same=False):
        return {"op": "ts", "kind": kind, "cfg": cfg, "texts": [t for t in texts if t is not None], "same": same}

    def g_boundary_ts(self, rng):
        """fixed list: every boundary class of DESIGN section 5 at least once in every run"""
        out = []
        out.append(self.mk_ts("frac", {}, ["2024-01-01T10:00:00.5", "2024-01-01T10:00:00.500000000", "2024-01-01T10:00:00.50"], True))
        out.append(self.mk_ts("frac", {}, ["2024-01-01T10:00:00.5000000000", "2024-01-01T10:00:00.", "2024-01-01T10:00:00.000000001",
                                            "2024-01-01T10:00:00.999999999", "2024-01-01T10:00:00.1234567891"]))
        out.append(self.mk_ts("zulu", {"tz": {"offset": "+03:00"}}, ["2024-01-01T10:00:00Z", "2024-01-01T10:00:00+00:00",
                                                                      "2024-01-01T10:00:00-00:00", "2024-01-01T13:00:00"], True))
        out.append(self.mk_ts("offset-bounds", {}, ["2024-06-01T10:00:00" + z for z in
                   ["+23:59", "-23:59", "+24:00", "-24:00", "+25:59", "-25:59", "+26:00", "-26:00", "+25:60", "+00:60", "+00:99",
                    "-12:75", "+24:99", "+99:99", "+23:60"]]))
        out.append(self.mk_ts("date-only", {"tz": {"offset": "-05:00"}, "default_time": "22:30:15"},
                              ["2024-01-01", "2024-01-01T22:30:15", "2024-01-02T03:30:15Z", "2024-01-01T22:30:15-05:00"], True))
        out.append(self.mk_ts("date-only", {"tz": {"offset": "-23:59"}, "default_time": "23:59:59.999999999"},
                              ["2024-12-31", "2025-01-01T23:58:59.999999999Z"], True))
        out.append(self.mk_ts("years", {}, ["0000-01-01", "0000-01-01T00:00:00+05:00", "0000-12-31T23:59:59Z", "1000-01-01", "0999-12-31T23:59:59.999999999Z",
                                             "9999-12-30T22:00:00.999999999Z", "9999-12-30T22:00:01Z", "9999-12-31", "9999-12-31T23:59:59+02:00",
                                             "9999-12-31T23:59:59+01:59", "9999-12-31T23:59:59+25:59", "9999-01-01"]))
        out.append(self.mk_ts("invalid", {}, ["2024-02-29", "2023-02-29", "2024-02-30", "1900-02-29", "2000-02-29", "2100-02-29",
                                               "2024-01-01T24:00:00", "2024-01-01T23:59:60", "2024-01-01T23:60:00", "2024-13-01",
                                               "2024-00-01", "2024-01-00", "2024-04-31", "2024-01-01Z", "2024-01-01+02:00",
                                               "2024-01-01T99:99:99"]))
        for z in CORE_ZONES + ["America/New_York", "Pacific/Apia"]:
            out.append(self.g_dst(rng, zone=z))
        out.append(self.mk_ts("dst", {"tz": {"name": "Europe/Helsinki"}, "default_time": "03:30:00"},
                              ["2024-03-31", "2024-10-27", "2024-03-31T03:30:00", "2024-03-31T04:30:00+03:00", "2024-10-27T03:30:00",
                               "2024-10-27T03:30:00+03:00", "2024-10-27T03:30:00+02:00", "1900-01-01", "1921-05-01T00:00:00"]))
        out.append(self.mk_ts("cfg-bad", {"tz": {"offset": "+26:00"}}, ["2024-01-01"]))
        out.append(self.mk_ts("cfg-bad", {"tz": {"offset": "+0200"}}, ["2024-01-01"]))
        out.append(self.mk_ts("cfg-bad", {"tz": {"name": "Nowhere/Land"}}, ["2024-01-01"]))
        return out

    def g_equiv(self, rng):
        cfg = rand_cfg(rng, named=0.15)
        secs, sub = rand_instant_secs(rng), rand_sub(rng)
        texts = []
        for off in [0, 0, 0] + [rand_offset(rng) for _ in range(rng.randrange(2, 5))]:
            texts.append(render_instant(rng, secs, sub, off))
        tz = cfg.get("tz") or {"name": "UTC"}
        # the zone-less notation in the journal zone
        if "offset" in tz or tz.get("name") == "UTC":
            coff = cfg_offset_secs(tz["offset"]) if "offset" in tz else 0
            texts.append(render_instant(rng, secs, sub, coff, zone=""))
            if (sub, ) == (cfg_default_time(cfg)[3], ):
                y, m, d, h, mi, s, _ = civil_of(secs + coff)
                if (h, mi, s) == cfg_default_time(cfg)[:3] and 0 <= y <= 9999:
                    texts.append(ts_text(y, m, d))
        else:
            o = zone_offset_at(tz["name"], secs)
            if o is not None:
                y, m, d, h, mi, s, _ = civil_of(secs + o)
                r = zone_local_to_instant(tz["name"], y, m, d, h, mi, s) if 1 <= y <= 9999 else None
                if r is not None and r[0] == secs:       # not the second reading of a fold
                    texts.append(render_instant(rng, secs, sub, o, zone=""))
        rng.shuffle(texts)
        return self.mk_ts("equiv", cfg, texts, True)

    def g_frac(self, rng):
        cfg = rand_cfg(rng, named=0.0)
        base = "2024-%02d-%02dT%02d:%02d:%02d" % (rng.randrange(1, 13), rng.randrange(1, 29), rng.randrange(24), rng.randrange(60), rng.randrange(60))
        zone = rng.choice(["", "Z", "+02:00", "-09:30"])
        texts = []
        for _ in range(4):
            k = rng.choice([1, 2, 3, 6, 8, 9, 9, 10, 11, 12, 19])
            ds = "".join(rng.choice("0123456789") for _ in range(k))
            if rng.random() < 0.3:
                ds = ds[:1] + "0" * (k - 1)
            texts.append(base + "." + ds + zone)
        texts.append(base + "." + zone)
        texts.append(base + zone)
        return self.mk_ts("frac", cfg, texts)

    def g_offsets(self, rng):
        cfg = rand_cfg(rng, named=0.1)
        base = "2024-%02d-%02dT%02d:%02d:%02d" % (rng.randrange(1, 13), rng.randrange(1, 29), rng.randrange(24), rng.randrange(60), rng.randrange(60))
        texts = []
        for _ in range(6):
            hh = rng.choice([0, 1, 12, 23, 24, 25, 26, 27, 59, 99, rng.randrange(100)])
            mm = rng.choice([0, 30, 59, 60, 61, 75, 99, rng.randrange(100)])
            texts.append(base + "%s%02d:%02d" % (rng.choice("+-"), hh, mm))
        return self.mk_ts("offset-bounds", cfg, texts)

    def g_date_only(self, rng):
        cfg = rand_cfg(rng, named=0.3)
        cfg.setdefault("default_time", rng.choice(DEFAULT_TIMES[1:]))
        texts = []
        for _ in range(3):
            y = rng.choice([2024, 2024, 2023, 1999, 2000, 1900, 2038, rng.randrange(1, 9999)])
            m, d = rng.randrange(1, 13), rng.randrange(1, 32)
            if rng.random() < 0.3:
                m, d = rng.choice([(12, 31), (1, 1), (2, 29), (3, 31), (10, 27)])
            texts.append(ts_text(y, m, d))
            h, mi, s, sub = cfg_default_time(cfg)
            texts.append(ts_text(y, m, d, (h, mi, s), frac_text(sub)[1:] or None, ""))
        return self.mk_ts("date-only", cfg, texts)

    def g_invalid(self, rng):
        cfg = rand_cfg(rng, named=0.2)
        texts = []
        for _ in range(6):
            y = rng.choice([2023, 2024, 1900, 2000, 2100, 0, 400, rng.randrange(10000)])
            m = rng.choice([0, 1, 2, 2, 2, 4, 12, 13, rng.randrange(100)])
            d = rng.choice([0, 1, 28, 29, 30, 31, 32, rng.randrange(100)])
            if rng.random() < 0.5:
                texts.append(ts_text(y, m, d))
            else:
                hms = (rng.choice([0, 23, 24, 25, rng.randrange(100)]), rng.choice([0, 59, 60, rng.randrange(100)]),
                       rng.choice([0, 59, 60, 61, rng.randrange(100)]))
                texts.append(ts_text(y, min(max(m, 1), 12), min(max(d, 1), 28), hms, None, rng.choice(["", "Z", "+01:00"])))
        return self.mk_ts("invalid", cfg, texts)

    def g_years(self, rng):
        cfg = rand_cfg(rng, named=0.0)
        texts = []
        for _ in range(6):
            y = rng.choice([0, 0, 1, 999, 1000, 9998, 9999, 9999, 9999])
            if y == 9999:
                m, d = rng.choice([(12, 30), (12, 31), (12, 29), (1, 1), (12, 30)])
                hms = rng.choice([(22, 0, 0), (21, 59, 59), (22, 0, 1), (23, 59, 59), (0, 0, 0), (rng.randrange(24), rng.randrange(60), rng.randrange(60))])
            elif y == 0:
                m, d = rng.choice([(1, 1), (1, 2), (2, 29), (3, 1), (12, 31)])
                hms = rng.choice([(0, 0, 0), (23, 59, 59), (1, 59, 59)])
            else:
                m, d = rng.choice([(1, 1), (12, 31), (6, 15)])
                hms = (rng.randrange(24), rng.randrange(60), rng.randrange(60))
            r = rng.random()
            if r < 0.25:
                texts.append(ts_text(y, m, d))
            else:
                z = rng.choice(["", "Z", "+02:00", "-02:00", "+25:59", "-25:59", "+23:59", "-23:59", "-01:59", "+01:59"])
                texts.append(ts_text(y, m, d, hms, rng.choice([None, None, "999999999", "000000001"]), z))
        return self.mk_ts("years", cfg, texts)

    def g_dst(self, rng, zone=None):
        zone = zone or rng.choice(ZONES + CORE_ZONES * 3)
        cfg = {"tz": {"name": zone}}
        tab = self.table(zone)
        trans = tab["trans"]
        texts = []
        if trans:
            prevs = [tab["init"]] + [o for _, o in trans[:-1]]
            idx = [i for i, (t, _) in enumerate(trans) if days_civil(1850, 1, 1) * 86400 * NS < t < days_civil(2150, 1, 1) * 86400 * NS]
            recent = [i for i in idx if trans[i][0] > days_civil(1990, 1, 1) * 86400 * NS]
            for _ in range(2):
                i = rng.choice(recent if recent and rng.random() < 0.6 else idx) if idx else None
                if i is None:
                    break
                t, o = trans[i]
                prev = prevs[i]
                lo_l = t // NS + min(prev, o)
                hi_l = t // NS + max(prev, o)
                w = hi_l - lo_l
                for delta in [-1, 0, 1, w // 2, w - 1, w, w + 1]:
                    y, m, d, h, mi, s, _ = civil_of(lo_l + delta)
                    fr = rng.choice([None, None, "5", "999999999"])
                    texts.append(ts_text(y, m, d, (h, mi, s), fr, ""))
                # date-only on the day of the transition with a default time inside the gap/fold
                y, m, d, h, mi, s, _ = civil_of(lo_l + w // 2)
                if rng.random() < 0.5:
                    cfg["default_time"] = "%02d:%02d:%02d" % (h, mi, s)
                    texts.append(ts_text(y, m, d))
        rng.shuffle(texts)
        return self.mk_ts("dst", cfg, texts[:10])

    def g_malformed(self, rng):
        cfg = rand_cfg(rng, named=0.1)
        texts = []
        for _ in range(6):
            secs, sub = rand_instant_secs(rng), rand_sub(rng)
            r = rng.random()
            if r < 0.3:
                y, m, d, *_ = civil_of(secs)
                t = ts_text(y, m, d)
            elif r < 0.6:
                t = render_instant(rng, secs, sub, 0, zone="")
            else:
                t = render_instant(rng, secs, sub, rand_offset(rng))
            t = t or "2024-01-01"
            for _ in range(rng.choice([1, 1, 2])):
                t = mutate(rng, t)
            texts.append(t)
        texts.append(rng.choice(["", " ", "2024-01-01 ", " 2024-01-01", "2024-01-01T10:00:00z", "2024-01-01t10:00:00", "2024-01-01T10:00:00+0200",
                                 "2024-01-01T10:00:00+02", "2024-01-01T10:00:00+02:00:00", "２０２４-01-01", "2024-01-01T10:00:00.5.5",
                                 "2024-01-01T10:00:00,5", "2024-1-1", "24-01-01", "20240101", "2024-01-01T100000", "2024-01-01T10:00:00 Z",
                                 "2024-01-01T10:00:00+2:00", "2024-01-01\n", "+2024-01-01", "-024-01-01", "2024-01-01T10:00:00−02:00"]))
        return self.mk_ts("malformed", cfg, texts)

    def g_random_ts(self, rng):
        cfg = rand_cfg(rng)
        texts = []
        named = "name" in (cfg.get("tz") or {}) and cfg["tz"]["name"] != "UTC"
        for _ in range(6):
            secs, sub = rand_instant_secs(rng), rand_sub(rng)
            if named and rng.random() < 0.7:
                secs = days_civil(rng.randrange(1850, 2150), rng.randrange(1, 13), rng.randrange(1, 29)) * 86400 + rng.randrange(86400)
            r = rng.random()
            if r < 0.25:
                y, m, d, *_ = civil_of(secs)
                texts.append(ts_text(y, m, d))
            elif r < 0.6:
                texts.append(render_instant(rng, secs, sub, 0, zone=""))
            else:
                texts.append(render_instant(rng, secs, sub, rand_offset(rng)))
        return self.mk_ts("random-ts", cfg, texts)

    # ---- display cases
    def mk_fmt(self, kind, ns, own, rtzs):
        return {"op": "tsfmt", "kind": kind, "ns": str(ns), "own": own, "rtzs": rtzs}

    def rand_rtzs(self, rng, named=True):
        out = [{"off": 0}]
        for _ in range(rng.randrange(2, 5)):
            r = rng.random()
            if named and r < 0.35:
                out.append({"name": rng.choice(ZONES + ["UTC", "Asia/Tokyo", "Etc/GMT+12", "Etc/GMT-14"])})
            elif r < 0.8:
                out.append({"off": rand_offset(rng)})
            else:
                out.append({"off": rng.choice([93599, -93599, 5989, -5989, 1, -1, 86399, -86400, 50400, -43200])})
        return out

    def g_boundary_fmt(self, rng):
        out = []
        # ISO weeks 52/53/01 around new year (the vectors of txn_ts.rs's unit tests among them)
        for (y, m, d) in [(2010, 1, 3), (2010, 1, 4), (2017, 1, 1), (2017, 1, 2), (2020, 12, 31), (2021, 1, 1), (2009, 12, 31),
                          (2024, 12, 29), (2024, 12, 30), (2026, 12, 31), (2027, 1, 3), (2027, 1, 4), (2015, 12, 31), (2016, 1, 3),
                          (1, 1, 1), (0, 12, 31), (0, 1, 1), (0, 1, 3), (9999, 1, 1), (9999, 12, 27)]:
            ns = (days_civil(y, m, d) * 86400) * NS
            out.append(self.mk_fmt("weeks", ns, {"off": 0}, [{"off": 0}, {"off": -1}, {"off": 3600}, {"off": -18000}, {"off": 86340},
                                                               {"name": "America/New_York"}, {"name": "Europe/Helsinki"}]))
        # fraction rendering
        base = days_civil(2010, 12, 24) * 86400 + 3723
        for sub in [0, 456000000, 456789000, 700000000, 123456789, 1, 10, 999999999, 100000000, 1000]:
            out.append(self.mk_fmt("frac-text", base * NS + sub, {"off": rng.choice([57600, -57600, 0])}, [{"off": 0}, {"off": 57600}, {"off": -57600}]))
        # offsets with seconds, extreme offsets, negative years, range ends
        out.append(self.mk_fmt("offset-text", -2208994789 * NS, {"name": "Europe/Helsinki"}, [{"name": "Europe/Helsinki"}, {"off": 5989}, {"off": -5989}]))
        out.append(self.mk_fmt("offset-text", 1704103200 * NS, {"off": 93599}, [{"off": 93599}, {"off": -93599}, {"off": 60}, {"off": -60}, {"off": -1}]))
        out.append(self.mk_fmt("years", -62167219200 * NS, {"off": 0}, [{"off": 0}, {"off": -1}, {"off": -18000}, {"off": 18000}]))
        out.append(self.mk_fmt("years", -62167237200 * NS, {"off": 18000}, [{"off": 0}, {"off": 18000}]))
        out.append(self.mk_fmt("range", MAX_NS, {"off": 0}, [{"off": 0}, {"off": 93599}, {"off": -93599}]))
        out.append(self.mk_fmt("range", MAX_NS + 1, {"off": 0}, [{"off": 0}]))
        out.append(self.mk_fmt("range", MIN_NS, {"off": 0}, [{"off": 0}, {"off": 93599}, {"off": -93599}]))
        out.append(self.mk_fmt("range", MIN_NS - 1, {"off": 0}, [{"off": 0}]))
        out.append(self.mk_fmt("range", -1, {"off": 0}, [{"off": 0}, {"off": 1}]))
        return out

    def g_repo_vectors(self):
        """every timestamp text of txn_ts.rs's unit tests and doc tests (read from the tree under test) as an input
        instant; the expected texts are computed by the oracle, not taken from the tests"""
        import os
        path = os.path.join(os.environ.get("TK_REPO", "/repo"), "tackler-api", "src", "txn_ts.rs")
        out = []
        try:
            src = open(path, encoding="utf-8").read()
        except OSError:
            return out
        seen = set()
        for m in re.finditer(r'"(\d{4}-\d{2}-\d{2}T\d{2}:\d{2}:\d{2}(?:\.\d{1,9})?(?:Z|[+-]\d{2}:\d{2}))(?:\[[^\]"]*\])?"', src):
            t = m.group(1)
            if t in seen:
                continue
            seen.add(t)
            e = expected_ts(t, {})
            if e and e[0] == "OK":
                out.append(self.mk_fmt("repo-vector", e[1], {"off": e[2]},
                                       [{"off": e[2]}, {"off": 0}, {"name": "Europe/Helsinki"}, {"name": "America/New_York"}]))
        return out

    def g_weeks(self, rng):
        y = rng.choice([2009, 2010, 2015, 2016, 2020, 2021, 2024, 2025, 2026, 2027, 1, 2, 1000, 9999, rng.randrange(1, 9999)])
        m, d = rng.choice([(12, 28), (12, 29), (12, 30), (12, 31), (1, 1), (1, 2), (1, 3), (1, 4), (1, 5)])
        if y == 9999 and m == 12 and d > 29:
            d = 29
        secs = days_civil(y, m, d) * 86400 + rng.choice([0, 1, 86399, 43200, rng.randrange(86400)])
        return self.mk_fmt("weeks", secs * NS + rand_sub(rng), {"off": rand_offset(rng)}, self.rand_rtzs(rng))

    def g_random_fmt(self, rng):
        secs = rand_instant_secs(rng)
        own = {"off": rand_offset(rng)}
        if rng.random() < 0.2:
            own = {"name": rng.choice(ZONES)}
            secs = days_civil(rng.randrange(1850, 2150), rng.randrange(1, 13), rng.randrange(1, 29)) * 86400 + rng.randrange(86400)
        return self.mk_fmt("random-fmt", secs * NS + rand_sub(rng), own, self.rand_rtzs(rng))

    def g_range_fmt(self, rng):
        ns = rng.choice([MAX_NS, MIN_NS]) + rng.choice([-1, 0, 1, 2, -NS, NS, rng.randrange(-10 ** 12, 10 ** 12)])
        return self.mk_fmt("range", ns, {"off": rng.choice([0, 93599, -93599])}, self.rand_rtzs(rng, named=False))

    # ---- report zone is display only: the same journal under several report settings
    def g_run(self, rng):
        cfg = {}
        r = rng.random()
        if r < 0.5:
            cfg["tz"] = {"offset": rng.choice(["+02:00", "-05:00", "+05:45", "-09:30", "+14:00", "-12:00", "+00:00"])}
        if rng.random() < 0.5:
            cfg["default_time"] = rng.choice(["22:30:15", "12:00:00", "23:59:59", "01:02:03"])
        if rng.random() < 0.3:
            # a mode switch given on the command line (with the value the file has anyway) leaves the journal zone and the
            # default time of the configuration alone
            cfg[rng.choice(["ov_strict", "ov_audit"])] = False
        txns = common.gen_journal(rng, cfg, {"p_invalid": 0.0, "n_txns": rng.choice([2, 3, 4, 6, 9]), "p_price": 0.15,
                                              "p_opening": 0.05, "p_code": 0.4, "p_desc": 0.5, "p_uuid": 0.5})
        if rng.random() < 0.5 and len(txns) >= 2:
            # two notations of one instant: only code / description / uuid order them
            a, b = rng.sample(range(len(txns)), 2)
            ns = int(txns[a]["ts"]["ns"])
            off = rand_offset(rng)
            t = render_instant(rng, ns // NS, ns % NS, off)
            if t is not None:
                txns[b]["ts"] = {"ns": str(ns), "off": 0 if t.endswith("Z") else off, "text": t}
        text = common.render_journal(txns, common.gen_layout(rng))
        k = rng.randrange(2, 5)
        variants = [{"report_tz": z, "ts_style": rng.choice(STYLES), "group_by": rng.choice(GROUP_BYS)}
                    for z in rng.sample(REPORT_ZONES, k)]
        return {"op": "run", "kind": "report-tz", "cfg": cfg, "txns": txns, "text": text,
                "want": ["txns", "register", "balance", "balgrp"], "variants": variants}

    # ---- protocol plumbing
    def impl_case(self, case):
        op = case["op"]
        if op == "ts":
            return {"op": "ts", "cfg": case["cfg"], "texts": case["texts"]}
        if op == "tsfmt":
            return {"op": "tsfmt", "ns": case["ns"], "own": case["own"], "rtzs": case["rtzs"]}
        return {k: v for k, v in case.items() if k not in ("txns", "kind")}

    def model_case(self, case):
        op = case["op"]
        if op == "ts":
            if case["kind"] == "cfg-bad":
                return None
            years = []
            for t in case["texts"]:
                m = re.match(r"(\d{4})-", t, re.ASCII)
                if m:
                    years.append(int(m.group(1)))
            yr = (min(years), max(years)) if years else None
            return {"op": "ts", "tz": self.model_zone(case["cfg"].get("tz") or {"name": "UTC"}, years=yr),
                    "default_time": list(cfg_default_time(case["cfg"])), "texts": case["texts"]}
        if op == "tsfmt":
            ns = int(case["ns"])
            return {"op": "tsfmt", "ns": case["ns"], "own": self.model_zone(case["own"], around=ns),
                    "rtzs": [self.model_zone(z, around=ns) for z in case["rtzs"]]}
        c = {"op": "run", "cfg": model_cfg(case.get("cfg", {})), "txns": case["txns"], "want": ["txns"]}
        return c

    def run_impl(self, impl_cases):
        flat, owner = [], []
        for i, c in enumerate(impl_cases):
            if c.get("op") == "run" and "variants" in c:
                for v in c["variants"]:
                    cc = {k: x for k, x in c.items() if k != "variants"}
                    cc["cfg"] = dict(c.get("cfg", {}), **v)
                    flat.append(cc)
                    owner.append(i)
            else:
                flat.append(c)
                owner.append(i)
        ans = common.run_driver([common.TK_IMPL], flat, jobs=JOBS)
        out = [None] * len(impl_cases)
        for i, a in zip(owner, ans):
            if "variants" in impl_cases[i] and impl_cases[i].get("op") == "run":
                if out[i] is None:
                    out[i] = {"r": "RUNS", "runs": []}
                out[i]["runs"].append(a)
            else:
                out[i] = a
        return out

    # ---- tie
    def compare(self, case, impl, model):
        op = case["op"]
        ir, mr = impl.get("r"), model.get("r")
        if mr == "BADCASE" or ir in ("BADCASE", "GARBLED", "ABORT", "TIMEOUT", "PANIC") or (ir == "CFGERR" and op != "run"):
            return "driver problem: impl=%s model=%s %s %s" % (ir, mr, impl.get("msg", ""), model.get("msg", ""))
        if op == "ts":
            a, b = impl["v"], model["v"]
            if len(a) != len(b):
                return "answer lengths differ"
            compared = 0
            for t, x, y in zip(case["texts"], a, b):
                if y["r"] == "UNDEF":
                    continue
                compared += 1
                if x["r"] != y["r"]:
                    return "status of %r differs: impl=%s model=%s" % (t, x["r"], y["r"])
                if x["r"] == "OK" and (str(x["ns"]) != str(y["ns"]) or int(x["off"]) != int(y["off"])):
                    return "instant of %r differs: impl=(%s,%s) model=(%s,%s)" % (t, x["ns"], x["off"], y["ns"], y["off"])
            return None if compared else "skip"
        if op == "tsfmt":
            if mr == "UNDEF":
                return "skip"
            if ir != mr:
                return "status differs: impl=%s model=%s" % (ir, mr)
            if ir != "OK":
                return None
            a, b = impl["v"], model["v"]
            for k in b:
                if k != "at" and str(a.get(k)) != str(b[k]):
                    return "%s differs: impl=%r model=%r" % (k, a.get(k), b[k])
            for z, x, y in zip(case["rtzs"], a["at"], b["at"]):
                if y["r"] == "UNDEF":
                    continue
                for k in y:
                    if str(x.get(k)) != str(y[k]):
                        return "%s at %s differs: impl=%r model=%r" % (k, z, x.get(k), y[k])
            return None
        # run: the model's load order against the implementation's (first variant; the oracle compares the variants)
        if mr == "UNDEF":
            return "skip"
        first = impl["runs"][0]
        if first.get("r") != mr:
            return "load status differs: impl=%s model=%s (%s)" % (first.get("r"), mr, (first.get("msg") or "")[:200])
        if mr != "OK":
            return None
        a = first["out"]["txns"]
        b = model["out"]["txns"]
        if a.get("r") != "OK" or b.get("r") != "OK":
            return "txns output status impl=%s model=%s" % (a.get("r"), b.get("r"))
        ka = [(t["ts"]["ns"], t["ts"]["off"], t["code"], t["desc"], t["uuid"]) for t in a["v"]]
        kb = [(t["ts"]["ns"], t["ts"]["off"], t["code"], t["desc"], t["uuid"]) for t in b["v"]]
        if ka != kb:
            return "load order differs: impl=%s model=%s" % (ka[:6], kb[:6])
        return None

    # ---- oracle: the property on the implementation alone
    def oracle(self, case, impl):
        op = case["op"]
        r = impl.get("r")
        if op == "ts":
            if case["kind"] == "cfg-bad":
                return None if r == "CFGERR" else {"sig": "cfg-accepted", "what": "invalid journal zone configuration %s accepted" % case["cfg"]}
            if r != "OK":
                return {"sig": "ts-driver", "what": "op ts answered %s %s" % (r, impl.get("msg", ""))}
            self.remember(case)
            seen = set()
            for t, x in zip(case["texts"], impl["v"]):
                e = expected_ts(t, case["cfg"])
                if x["r"] not in ("OK", "ERR"):
                    return {"sig": "ts-panic", "what": "parse_timestamp(%r) ended with %s" % (t, x["r"])}
                if e is None:
                    continue
                if e[0] == "ERR" and x["r"] == "OK":
                    return {"sig": "ts-accepts-invalid", "what": "timestamp %r must be rejected, parsed to %s" % (t, x)}
                if e[0] == "OK" and x["r"] != "OK":
                    return {"sig": "ts-rejects-valid", "what": "timestamp %r must parse to %s, was rejected" % (t, e[1:])}
                if e[0] == "OK":
                    if int(x["ns"]) != e[1]:
                        return {"sig": "ts-instant", "what": "timestamp %r (cfg %s): instant %s, expected %s" % (t, case["cfg"], x["ns"], e[1])}
                    if int(x["off"]) != e[2]:
                        if subsecond_quirk(case["cfg"].get("tz") or {}, e[1], int(x["off"])):
                            return {"sig": "F22:jiff-subsecond-offset", "what": "timestamp %r (cfg %s): offset %s, expected %s (instant is right)" % (t, case["cfg"], x["off"], e[2])}
                        return {"sig": "ts-offset", "what": "timestamp %r (cfg %s): offset %s, expected %s" % (t, case["cfg"], x["off"], e[2])}
                    seen.add(int(x["ns"]))
            if case.get("same") and len(seen) > 1:
                return {"sig": "ts-notations-differ", "what": "notations of one instant parsed to different instants: %s" % sorted(seen)}
            return None
        if op == "tsfmt":
            ns = int(case["ns"])
            if not (MIN_NS <= ns <= MAX_NS):
                return None if r == "ERR" else {"sig": "fmt-range", "what": "instant %s outside jiff's range accepted: %s" % (ns, r)}
            if r != "OK":
                return {"sig": "fmt-driver", "what": "op tsfmt answered %s %s" % (r, impl.get("msg", ""))}
            self.remember(case)
            v = impl["v"]
            own = case["own"]
            oo = own["off"] if "off" in own else zone_offset_at(own["name"], ns // NS)
            if oo is not None:
                e = display(ns, oo)
                if int(v["own_off"]) != oo:
                    if subsecond_quirk(own, ns, int(v["own_off"])):
                        return {"sig": "F22:jiff-subsecond-offset", "what": "instant %s in its own zone %s at offset %s, expected %s" % (ns, own, v["own_off"], oo)}
                    return {"sig": "fmt-own-offset", "what": "own offset %s, expected %s" % (v["own_off"], oo)}
                for k in ("rfc3339", "seconds_tz", "full_tz"):
                    if v[k] != e[k]:
                        return {"sig": "fmt-" + k, "what": "%s of %s at %s: %r, expected %r" % (k, ns, oo, v[k], e[k])}
            e0 = display(ns, 0)
            for k in ("seconds", "full", "date", "month", "year", "week", "week_date"):
                if v["utc_" + k] != e0[k]:
                    return {"sig": "fmt-utc-" + k, "what": "as_utc_%s of %s: %r, expected %r" % (k, ns, v["utc_" + k], e0[k])}
            for z, x in zip(case["rtzs"], v["at"]):
                if x.get("r") != "OK":
                    return {"sig": "fmt-zone", "what": "report zone %s: %s" % (z, x.get("r"))}
                ro = z["off"] if "off" in z else zone_offset_at(z["name"], ns // NS)
                if ro is None:
                    continue
                if int(x["rtz_off"]) != ro:
                    if subsecond_quirk(z, ns, int(x["rtz_off"])):
                        return {"sig": "F22:jiff-subsecond-offset", "what": "instant %s shown in %s at offset %s (%r), expected %s (%r)" % (ns, z, x["rtz_off"], x["full"], ro, display(ns, ro)["full"])}
                    return {"sig": "fmt-zone-offset", "what": "offset of %s at %s: %s, expected %s" % (z, ns, x["rtz_off"], ro)}
                e = display(ns, ro)
                for k in ("seconds", "full", "date", "month", "year", "week", "week_date"):
                    if x[k] != e[k]:
                        return {"sig": "fmt-" + k, "what": "as_tz_%s of %s at %s: %r, expected %r" % (k, ns, z, x[k], e[k])}
            return None
        # run under several report zones
        runs = impl.get("runs") or []
        sts = [x.get("r") for x in runs]
        if any(s in ("PANIC", "ABORT", "TIMEOUT") for s in sts):
            return None    # C15's business
        if len(set(sts)) != 1:
            return {"sig": "report-tz-changes-load", "what": "load status depends on the report zone: %s" % sts}
        if sts[0] != "OK":
            return None
        self.remember(case)
        base = runs[0]["out"]["txns"]
        if base.get("r") != "OK":
            return {"sig": "txns-output", "what": "transaction list not available: %s" % base.get("r")}
        keys = [(int(t["ts"]["ns"]), t["code"] or "", t["desc"] or "", t["uuid"] or "") for t in base["v"]]
        if keys != sorted(keys):
            return {"sig": "order-not-by-instant", "what": "loaded transactions are not in (instant, code, description, uuid) order: %s" % keys[:8]}
        # the instants themselves: what the generator computed from the written timestamps with the *configured* journal zone
        # and default time (python arithmetic; fixed-offset zones only - the cases of this class use no other)
        if case.get("txns") and not (case.get("cfg", {}).get("tz") or {}).get("name"):
            want = sorted(int(t["ts"]["ns"]) for t in case["txns"])
            got = sorted(k[0] for k in keys)
            if want != got:
                bad = [(a, b) for a, b in zip(got, want) if a != b][:3]
                return {"sig": "instant-not-as-configured",
                        "what": "loaded instants differ from the written timestamps read in the configured journal zone %s / default time %s "
                                "(loaded, expected): %s; options given: %s" % (
                                    (case["cfg"].get("tz") or {"name": "UTC"}), case["cfg"].get("default_time", "00:00:00"), bad,
                                    {k: v for k, v in case["cfg"].items() if k.startswith("ov_")})}
        regs = []
        for v, x in zip(case["variants"], runs):
            if x["out"]["txns"] != base:
                return {"sig": "report-tz-changes-txns", "what": "transaction list differs under report zone %s" % v}
            reg = x["out"]["register"]
            if reg.get("r") != "OK":
                return {"sig": "register-output", "what": "register report failed under %s: %s" % (v, reg.get("r"))}
            ent = parse_register(reg["v"], v["ts_style"])
            if ent is None:
                return {"sig": "register-parse", "what": "register report not understood under %s" % v}
            regs.append(ent)
            if len(ent) == len(base["v"]):
                for t, (ts_text_, _, _) in zip(base["v"], ent):
                    ns = int(t["ts"]["ns"])
                    ro = zone_offset_at(v["report_tz"], ns // NS)
                    if ro is None:
                        continue
                    want = display(ns, ro)[v["ts_style"]]
                    if ts_text_ != want:
                        return {"sig": "register-ts-text", "what": "register shows %r for instant %s in %s, expected %r" % (ts_text_, ns, v, want)}
            else:
                return {"sig": "register-entries", "what": "register has %d entries for %d transactions under %s" % (len(ent), len(base["v"]), v)}
        bals = []
        for v, x in zip(case["variants"], runs):
            bal = x["out"].get("balance") or {}
            if bal.get("r") != "OK":
                return {"sig": "balance-output", "what": "balance report failed under %s: %s" % (v, bal.get("r"))}
            pb = common.parse_balance_report(bal["v"])
            if pb is not None:
                # values, not stored scales: the scale of a tree sum depends on hash order (F8, property C04)
                try:
                    pb = ([(c, a, common.dec_norm(o), common.dec_norm(t)) for c, a, o, t in pb[0]],
                          [(c, common.dec_norm(x)) for c, x in pb[1]])
                except Exception:
                    pb = None
            bals.append(pb)
        if any(b != bals[0] for b in bals[1:]) or bals[0] is None:
            return {"sig": "report-tz-changes-balance", "what": "balance rows/deltas differ between report zones %s" % case["variants"]}
        # displayed *and grouped* by the report zone: the balance-group titles are exactly the periods of the
        # transactions' instants shown in that zone (the same `display` the register dates were judged with)
        for v, x in zip(case["variants"], runs):
            grp = x["out"].get("balgrp") or {}
            if grp.get("r") != "OK":
                return {"sig": "balgrp-output", "what": "balance-group report failed under %s: %s" % (v, grp.get("r"))}
            groups = common.parse_balgrp_report(grp["v"])
            if groups is None or any(g.get("title") is None for g in groups):
                return {"sig": "balgrp-parse", "what": "balance-group report not understood under %s" % v}
            want = set()
            for t in base["v"]:
                ns = int(t["ts"]["ns"])
                ro = zone_offset_at(v["report_tz"], ns // NS)
                if ro is None:
                    want = None
                    break
                want.add(display(ns, ro)[GROUP_KEY[v["group_by"]]])
            if want is not None and set(g["title"] for g in groups) != want:
                return {"sig": "grouping-not-by-report-zone", "what": "balance-group titles %s under %s, the periods of the instants "
                        "shown in that zone are %s" % (sorted(g["title"] for g in groups), v, sorted(want))}
        b0 = [(h, rows) for _, h, rows in regs[0]]
        for v, ent in zip(case["variants"][1:], regs[1:]):
            if [(h, rows) for _, h, rows in ent] != b0:
                return {"sig": "report-tz-changes-register", "what": "register rows/order/amounts differ between report zones %s and %s" % (case["variants"][0], v)}
        return None

    def nontrivial(self, case, impl):
        op = case["op"]
        if op == "ts":
            return impl.get("r") == "OK" and any(x.get("r") == "OK" for x in impl["v"]) and len(case["texts"]) > 1
        if op == "tsfmt":
            return impl.get("r") == "OK"
        return len(case.get("txns", [])) >= 2 and all(x.get("r") == "OK" for x in impl.get("runs", []))

    def sample(self, case):
        c = {k: v for k, v in case.items() if k not in ("txns",)}
        if "text" in c:
            c["text"] = c["text"][:600]
        return c

    def rule(self):
        return ("op ts: journal-zone configuration (UTC, fixed offsets incl. +-25:59 and offsets with seconds, named zones "
                "incl. DST, default times with fractions) x lists of timestamp texts: one instant in 5-8 notations (Z, +00:00, "
                "-00:00, random offsets within +-23:59, fraction with 1-9 digits, zone-less in the journal zone), fraction "
                "lengths 1-19, offsets up to 99:99, date-only with default time, invalid dates/times, years 0000/1000/9999 "
                "and the ends of jiff's range, wall-clock times around every kind of DST transition (gap/fold start-1, start, "
                "middle, end-1, end) of 10 zones, mutated texts; op tsfmt: instants (incl. ISO week 52/53/01 around new year, "
                "negative years, range ends) x own zone x 3-5 report zones (fixed incl. seconds and +-25:59:59, named); op run: "
                "generated journals (common.gen_journal, 2-9 txns clustered on one day, two notations of one instant) under "
                "2-4 report zones and timestamp styles; non-trivial = at least one accepted timestamp in a multi-text case / a "
                "formatted instant / a loaded journal of >= 2 transactions; distinct = sha256 of the implementation case line")

    def trusted_base(self):
        return super().trusted_base() + [
            "named zones: tz database content is data (transition tables exported from jiff by op tzdata and cut to a "
            "window per case; the model answers UNDEF outside the window); python zoneinfo reads the same system tz "
            "database in the oracle",
            "the grammar around a timestamp inside a journal (what may follow it) is not part of this check: op ts uses "
            "Settings::parse_timestamp, which demands the end of the input",
            "the register report itself is not modelled yet: 'report zone is display only' is checked for register by "
            "the implementation-only oracle (same journal under several report zones), for load/sort by theorem"]

    def assumptions(self):
        return ["zone tables: ascending transitions whose gap/fold wall-clock intervals do not overlap (checked against jiff "
                "on every run by the tie, not proved)",
                "timestamps are lexed on their own (end of input after the timestamp)"]


def parse_register(text, style):
    """register report -> [(timestamp text, rest of the header line, [row lines])] or None"""
    lines = text.split("\n")
    try:
        i = lines.index("REGISTER")
    except ValueError:
        return None
    body = lines[i + 2:]
    entries, cur = [], []
    for ln in body:
        if len(ln) >= 10 and set(ln) == {"-"}:
            if cur:
                entries.append(cur)
            cur = []
        elif ln.strip() == "" and not cur:
            continue
        else:
            cur.append(ln)
    if cur and any(x.strip() for x in cur):
        entries.append(cur)
    out = []
    ntok = 1 if style == "date" else 2
    for e in entries:
        head = e[0]
        parts = head.split(" ", ntok)
        if len(parts) < ntok:
            return None
        ts = " ".join(parts[:ntok])
        rest = parts[ntok] if len(parts) > ntok else ""
        out.append((ts, rest, e[1:]))
    return out


PROP = C16()

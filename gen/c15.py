"""C15 — loading is total and fail-stop: result or error, never panic/abort/hang, never partial data.

Cases are journal *texts*.  The implementation (`string_to_txns` / `paths_to_txns` under catch_unwind, a
crashing chunk is bisected by common.run_driver) and the Lean model (`Syntax.parseJournal` then
`loadJournal`) read the same text; compared: ok/err and every field of every accepted transaction.
75 % of the stream is malformed text."""
import glob
import os
import re
from decimal import Decimal as D

import common
from propbase import PropBase, model_cfg, model_tscfg, cmp_status

REPO = os.environ.get("TK_REPO", "/repo")
MAX96 = common.MAX96

# characters at the boundaries of the identifier ranges of identifier.rs (both sides of every edge)
ID_EDGES = [0x24, 0x23, 0x25, 0x40, 0x41, 0x5A, 0x5B, 0x60, 0x61, 0x7A, 0x7B, 0xA2, 0xA1, 0xA5, 0xA6, 0xB0, 0xB1, 0xB2, 0xB3,
            0xB4, 0xB5, 0xB6, 0xB7, 0xB8, 0xB9, 0xBA, 0xBB, 0xBC, 0xBE, 0xBF, 0xC0, 0xD6, 0xD7, 0xD8, 0xF6, 0xF7, 0xF8,
            0x2FF, 0x300, 0x36F, 0x370, 0x37D, 0x37E, 0x37F, 0x1FFF, 0x2000, 0x200B, 0x200C, 0x200D, 0x200E, 0x203E,
            0x203F, 0x2040, 0x2041, 0x206F, 0x2070, 0x218F, 0x2190, 0x2BFF, 0x2C00, 0x2FEF, 0x2FF0, 0x3000, 0x3001,
            0xD7FF, 0xE000, 0xF8FF, 0xF900, 0xFDCF, 0xFDD0, 0xFDEF, 0xFDF0, 0xFFFD, 0xFFFE, 0xFFFF, 0x10000, 0x1F600,
            0x20AC, 0x30, 0x39, 0x2D, 0x5F, 0x3A]
# Unicode White_Space (what str::trim removes) and look-alikes that are not
WS_CHARS = [0x09, 0x0B, 0x0C, 0x20, 0x85, 0xA0, 0x1680, 0x2000, 0x200A, 0x200B, 0x2028, 0x2029, 0x202F, 0x205F, 0x3000,
            0xFEFF, 0x180E, 0x1C, 0x1F]
INSERT_ALPHABET = list(" \t\n\r;#:.-@={}()'\",|0123456789aZé€·") + [chr(0xA0), chr(0x2003), chr(0x85), chr(0x300), "T", "+", "/", "\\", "\x00", "\x0b", "\x0c"]


# ---------------------------------------------------------------------------------------------
# test vectors of the repository, extracted from the tree at run time

def rust_unescape(s):
    out = []
    i = 0
    n = len(s)
    while i < n:
        c = s[i]
        if c != "\\":
            out.append(c)
            i += 1
            continue
        i += 1
        if i >= n:
            break
        e = s[i]
        i += 1
        if e == "n":
            out.append("\n")
        elif e == "t":
            out.append("\t")
        elif e == "r":
            out.append("\r")
        elif e == "0":
            out.append("\0")
        elif e in "\\'\"":
            out.append(e)
        elif e == "x":
            out.append(chr(int(s[i:i + 2], 16)))
            i += 2
        elif e == "u":
            j = s.index("}", i)
            out.append(chr(int(s[i + 1:j].replace("_", ""), 16)))
            i = j + 1
        elif e == "\n":
            while i < n and s[i] in " \t\n\r":
                i += 1
        else:
            out.append(e)
    return "".join(out)


def indoc_unindent(src):
    """the `indoc!` algorithm, applied to the literal's source text (before escapes are processed)"""
    ignore_first = src.startswith("\n") or src.startswith("\r\n")
    lines = src.split("\n")

    def count(line):
        k = 0
        for ch in line:
            if ch in " \t":
                k += 1
            else:
                return k
        return None
    spaces = [count(l) for l in lines[1:]]
    spaces = [k for k in spaces if k is not None]
    sp = min(spaces) if spaces else 0
    res = []
    for i, line in enumerate(lines):
        if i > 1 or (i == 1 and not ignore_first):
            res.append("\n")
        if i == 0:
            res.append(line)
        elif len(line) > sp:
            res.append(line[sp:])
    return "".join(res)


def strip_margin(s):
    if s.startswith("|"):
        s = s[1:]
    return s.replace("\n|", "\n")


INDOC_RE = re.compile(r'indoc!\s*[\(\{]\s*"((?:[^"\\]|\\.)*)"\s*[\)\}]', re.S)


def repo_vectors():
    out = []
    files = sorted(glob.glob(os.path.join(REPO, "tackler-core/src/parser/tests/*.rs")) +
                   glob.glob(os.path.join(REPO, "tackler-core/src/parser/parts/*.rs")))
    for f in files:
        try:
            src = open(f, encoding="utf-8").read()
        except OSError:
            continue
        for m in INDOC_RE.finditer(src):
            try:
                t = strip_margin(rust_unescape(indoc_unindent(m.group(1))))
            except Exception:
                continue
            out.append((os.path.basename(f), t))
    return out


# ---------------------------------------------------------------------------------------------
# mutations of a valid text

def mutate(rng, text):
    """one random lexical fault; returns (kind, text)"""
    if not text:
        return "insert", "x"
    k = rng.randrange(12)
    i = rng.randrange(len(text))
    if k == 0:
        return "delete", text[:i] + text[i + 1:]
    if k == 1:
        return "insert", text[:i] + rng.choice(INSERT_ALPHABET) + text[i:]
    if k == 2:
        return "replace", text[:i] + rng.choice(INSERT_ALPHABET) + text[i + 1:]
    if k == 3:
        return "truncate", text[:i]
    if k == 4:
        lines = text.split("\n")
        if len(lines) > 2:
            a, b = rng.randrange(len(lines) - 1), rng.randrange(len(lines) - 1)
            lines[a], lines[b] = lines[b], lines[a]
        return "swap-lines", "\n".join(lines)
    if k == 5:
        run = "".join(rng.choice("0123456789") for _ in range(rng.choice([1, 5, 9, 10, 28, 29, 30, 40])))
        return "digit-run", text[:i] + run + text[i:]
    if k == 6:
        return "id-edge", text[:i] + chr(rng.choice(ID_EDGES)) + text[i:]
    if k == 7:
        c = rng.choice(["\r", "\r\n", "\n\r"])
        j = text.find("\n", i)
        if j < 0:
            j = i
        return "cr", text[:j] + c + text[j + 1:]
    if k == 8:
        return "ws", text[:i] + chr(rng.choice(WS_CHARS)) + text[i:]
    if k == 9:
        lines = text.split("\n")
        a = rng.randrange(len(lines))
        if rng.random() < 0.5:
            del lines[a]
            return "drop-line", "\n".join(lines)
        lines.insert(a, lines[a])
        return "dup-line", "\n".join(lines)
    if k == 10:
        # replace one blank of an indent or separator by a tab / NBSP / nothing
        idx = [j for j, ch in enumerate(text) if ch == " "]
        if idx:
            j = rng.choice(idx)
            return "blank", text[:j] + rng.choice(["\t", chr(0xA0), "", "  ", chr(0x2003)]) + text[j + 1:]
        return "insert", text + " "
    return "crlf", text.replace("\n", "\r\n")


# ---------------------------------------------------------------------------------------------

def digits(rng, n):
    return "".join(rng.choice("0123456789") for _ in range(n))


def simple(ts, posts, meta="", code="", desc=""):
    return "%s%s%s\n%s%s" % (ts, code, desc, meta, "".join(" %s\n" % p for p in posts))


class C15(PropBase):
    id = "C15"
    needs_cli = True     # the borrowed git-storage cases (C08's) run the real binary too

    # ---- cases
    def mk(self, kind, text, cfg=None, **kw):
        c = {"op": "run", "kind": kind, "cfg": cfg or {}, "text": text, "want": ["txns", "identity"]}
        c.update(kw)
        return c

    def mk_files(self, kind, files, cfg=None):
        return {"op": "run", "kind": kind, "cfg": cfg or {},
                "files": [{"name": "f%02d.txn" % i, "text": t} for i, t in enumerate(files)], "want": ["txns", "identity"]}

    def rand_cfg(self, rng):
        r = rng.random()
        cfg = {}
        if r < 0.25:
            cfg["tz"] = {"offset": rng.choice(["+02:00", "-05:30", "+00:00", "+14:00", "-12:00", "+05:45"])}
        if rng.random() < 0.2:
            cfg["default_time"] = rng.choice(["12:34:56", "23:59:59", "00:00:01", "08:00:00"])
        return cfg

    def valid_case(self, rng, big=False, cfg=None):
        cfg = self.rand_cfg(rng) if cfg is None else cfg
        opts = {"p_invalid": 0.0, "big": big, "p_price": rng.choice([0.0, 0.25, 0.5]), "p_opening": rng.choice([0.0, 0.2]),
                "comms": common.COMMS[:rng.randrange(1, 6)], "p_code": 0.4, "p_desc": 0.5, "p_uuid": 0.5, "p_loc": 0.3,
                "p_tags": 0.4, "p_comments": 0.3}
        txns = common.gen_journal(rng, cfg, opts)
        text = common.render_journal(txns, common.gen_layout(rng))
        return txns, text, cfg

    def boundary(self, rng, tier):
        out = []
        T = "2024-01-01"
        # --- extreme numbers
        nums = ["0", "1", str(MAX96), str(MAX96 + 1), str(MAX96 - 1), "9" * 28, "9" * 29, "1" + "0" * 28, "1" + "0" * 29,
                "0." + "0" * 27 + "1", "0." + "0" * 28 + "1", "0." + "0" * 28, "0." + "0" * 29, "1." + "0" * 28, "1." + "0" * 29,
                "7922816251426433759354395033.5", "7922816251426433759354395033.55", "792281625142643375935439503.35",
                "7.9228162514264337593543950335", "7.9228162514264337593543950336", "0" * 40 + "1", "0" * 40 + "1." + "5" * 28,
                "1.", ".5", "1.5.5", "1e5", "+1", "--1", "-", "1_000", "٣", "１", "1,5", "0x10", "-0", "-0.00"]
        for n in nums:
            for neg in ("", "-"):
                out.append(self.mk("num:amount", simple(T, ["a  %s%s" % (neg, n), "b"])))
            out.append(self.mk("num:price", simple(T, ["a  2 ACME @ %s EUR" % n, "b"])))
            out.append(self.mk("num:total", simple(T, ["a  2 ACME = %s EUR" % n, "b"])))
            out.append(self.mk("num:opening", simple(T, ["a  2 ACME {%s EUR}" % n, "b -2 ACME"])))
            out.append(self.mk("num:geo", simple(T, ["a 1", "b"], meta=" # location: geo:%s,%s,%s\n" % (n, n, n))))
        # --- products and sums around 2^96 (F6)
        for a, p in [(MAX96, MAX96), (MAX96, 1), (MAX96, 2), (MAX96 // 2, 2), (MAX96 // 2 + 1, 2), (2 ** 48, 2 ** 48), (2 ** 48, 2 ** 48 - 1),
                     (2 ** 48 + 1, 2 ** 48), (10 ** 14, 10 ** 14), (10 ** 15, 10 ** 14), (MAX96, 10), (MAX96 // 10, 10), (MAX96 // 10 + 1, 10)]:
            for sa, sp in [(0, 0), (1, 0), (0, 3), (14, 14), (28, 0), (28, 28), (5, 24)]:
                def sc(v, s):
                    t = str(v).rjust(s + 1, "0")
                    return t if s == 0 else t[:-s] + "." + t[-s:]
                for neg in ("", "-"):
                    out.append(self.mk("overflow:mul", simple(T, ["a  %s%s ACME @ %s EUR" % (neg, sc(a, sa), sc(p, sp)), "b"])))
        for vals in [[MAX96, MAX96], [MAX96, 1], [MAX96, -1], [MAX96 - 1, 1], [MAX96, -MAX96, 5], [MAX96 // 2, MAX96 // 2, 1], [MAX96 // 2 + 1, MAX96 // 2 + 1],
                     [-MAX96, -1], [-MAX96, -MAX96]]:
            out.append(self.mk("overflow:sum", simple(T, ["a%d  %d" % (i, v) for i, v in enumerate(vals)] + ["z"])))
            out.append(self.mk("overflow:sum", simple(T, ["a%d  %d" % (i, v) for i, v in enumerate(vals)] + ["z  %d" % (-sum(vals) if abs(sum(vals)) <= MAX96 else 1)])))
            out.append(self.mk("overflow:sum", simple(T, ["a%d  %d.5" % (i, v // 10) for i, v in enumerate(vals)] + ["z"])))
        # --- timestamps
        tss = ["2024-02-29", "2023-02-29", "2024-02-30", "2024-04-31", "2024-13-01", "2024-00-10", "2024-01-00", "2024-01-32", "0000-01-01",
               "9999-12-31", "0000-01-01T00:00:00+25:59", "9999-12-31T23:59:59-25:59", "9999-12-31T23:59:59.999999999Z", "1900-01-01",
               "2024-01-01T24:00:00", "2024-01-01T23:60:00", "2024-01-01T23:59:60", "2024-01-01T23:59:59", "2024-01-01T00:00:00",
               "2024-01-01T10:00:00.1", "2024-01-01T10:00:00.123456789", "2024-01-01T10:00:00.1234567890", "2024-01-01T10:00:00.",
               "2024-01-01T10:00:00.000000001", "2024-01-01T10:00:00.999999999Z", "2024-01-01T10:00:00.0000000001Z",
               "2024-01-01T10:00:00+25:59", "2024-01-01T10:00:00-25:59", "2024-01-01T10:00:00+26:00", "2024-01-01T10:00:00-26:00",
               "2024-01-01T10:00:00+23:60", "2024-01-01T10:00:00+23:99", "2024-01-01T10:00:00+24:00", "2024-01-01T10:00:00+99:99",
               "2024-01-01T10:00:00+2:00", "2024-01-01T10:00:00+0200", "2024-01-01T10:00:00+02", "2024-01-01T10:00:00+02:0",
               "2024-01-01T10:00:00+02:00:00", "2024-01-01T10:00:00z", "2024-01-01T10:00:00 Z", "2024-01-01t10:00:00", "2024-01-01 10:00:00",
               "2024-01-01T10:00", "2024-01-01T10", "2024-01-01T", "2024-1-1", "24-01-01", "20240101", "2024-01-01Z", "2024-01-01+02:00",
               "12024-01-01", "2024-01-011", "-2024-01-01", "２０２４-01-01", "2024‐01‐01", "2024-01-01T10:00:00,5", "2024-01-01T1a:00:00",
               "2024-01-01T10:00:00.5+00:00", "2024-01-01T10:00:00.5-00:00", "2024-06-30T23:59:60Z", "2016-12-31T23:59:60Z"]
        for ts in tss:
            for cfg in ({}, {"tz": {"offset": "+02:00"}, "default_time": "23:59:59.5"}, {"tz": {"offset": "-12:00"}}):
                out.append(self.mk("ts", simple(ts, ["a 1", "b"]), cfg=dict(cfg)))
            out.append(self.mk("ts", simple(ts, ["a 1", "b"], code=" (c)", desc=" 'd")))
        # --- long lines with multi-byte characters, valid and at the point of the error (an error path that cuts or
        #     pads the echoed line by bytes must not split a character): 2-, 3- and 4-byte characters, every alignment
        for ch in ("é", "€", "\U0001d518"):
            for n in (150, 350, 700, 3000):
                for shift in range(4):
                    pad = "x" * shift + ch * n
                    out.append(self.mk("long-line:valid", simple(T, ["a 1", "b"], desc=" '" + pad)))
                    out.append(self.mk("long-line:bad-date", simple("2024-02-30", ["a 1", "b"], desc=" '" + pad)))
                    out.append(self.mk("long-line:bad-posting", simple(T, ["a 1 ; " + pad, "b 1 2 ; " + pad])))
                    out.append(self.mk("long-line:bad-meta", simple(T, ["a 1", "b"], meta=" # uuid: " + pad + "\n")))
                    out.append(self.mk("long-line:bad-sum", simple(T, ["a 1 ; " + pad, "b 1 ; " + pad], desc=" '" + pad)))
        # --- audit mode with repeated uuids: a reported error whatever the multiplicities (one uuid many times, few uuids
        #     several times, ten and more distinct duplicates: both branches of the message and their boundary)
        def dup_journal(groups):
            txs, day = [], 0
            for gi, k in enumerate(groups):
                for _ in range(k):
                    day += 1
                    txs.append("2024-01-%02dT00:00:%02dZ\n # uuid: 00000000-0000-4000-8000-%012d\n a 1\n b\n" % (1 + day % 28, day % 60, gi))
            return "\n".join(txs)
        for groups in ([2], [3], [11], [12], [3] * 5, [6, 6], [2] * 9, [2] * 10, [2] * 11, [10], [9, 2], [4, 4, 4], [2] * 9 + [3], [1] * 12):
            out.append(self.mk("audit-dup:%s" % "x".join(str(g) for g in groups), dup_journal(groups), cfg={"audit": True, "hash": "SHA-256"}))
        # --- header features
        forbidden = list(")'([]{}<>") + ["\r", "\n"]
        for ch in forbidden + [chr(0xA0), "\t", chr(0x2003), ";", "#", "é"]:
            out.append(self.mk("code-char", simple(T, ["a 1", "b"], code=" (a%sb)" % ch)))
            out.append(self.mk("code-char", simple(T, ["a 1", "b"], code=" (%sab%s)" % (ch, ch))))
            out.append(self.mk("desc-char", simple(T, ["a 1", "b"], desc=" 'a%sb%s" % (ch, ch))))
            out.append(self.mk("comment-char", simple(T, ["a 1 ;%s c%s" % (ch, ch), "b ; x%s" % ch], meta=" ;%sx%s\n" % (ch, ch))))
        for hdr in ["", " ", "\t", " ()", " ( )", " (  x  )", "()", " '", " ' ", "'", " (c)'d", " (c) 'd", " (c)  'd  ", " 'd (c)", " (c) (d)", " (c", " c)", " 'd\r",
                    " (c)\r", "  ", " x", " ; c", " # uuid: x"]:
            out.append(self.mk("header-line", T + hdr + "\n a 1\n b\n"))
            out.append(self.mk("header-line", T + "T10:00:00Z" + hdr + "\n a 1\n b\n"))
        # --- metadata: all orders, repeated, malformed
        U = " # uuid: 2c01d889-c928-477b-bf53-55e19887d34b\n"
        L = " # location: geo:60.1,24.9,5\n"
        G = " # tags: a, b:c\n"
        import itertools
        items = {"u": U, "l": L, "t": G}
        for n in (1, 2, 3, 4):
            for combo in itertools.product("ult", repeat=n):
                if n == 4 and rng.random() < 0.7:
                    continue
                out.append(self.mk("meta-order", simple(T, ["a 1", "b"], meta="".join(items[x] for x in combo))))
        metas = [" # uuid: 2C01D889-C928-477B-BF53-55E19887D34B\n", " # uuid: 2c01d889c928477bbf5355e19887d34b\n", " # uuid: {2c01d889-c928-477b-bf53-55e19887d34b}\n",
                 " # uuid: urn:uuid:2c01d889-c928-477b-bf53-55e19887d34b\n", " # uuid: 2c01d889-c928-477b-bf53-55e19887d34\n", " # uuid: 2c01d889-c928-477b-bf53-55e19887d34bb\n",
                 " # uuid: 2c01d889-c928-477b-bf53-55e19887d34g\n", " # uuid:2c01d889-c928-477b-bf53-55e19887d34b\n", " #uuid: 2c01d889-c928-477b-bf53-55e19887d34b\n",
                 " # uuid:  2c01d889-c928-477b-bf53-55e19887d34b  \n", "\t#\tuuid:\t2c01d889-c928-477b-bf53-55e19887d34b\t\n", " # uuid: 2c01d889-c928-477b-bf53-55e19887d34b x\n",
                 " # uuid: 00000000-0000-0000-0000-000000000000\n", " # uuid: ffffffff-ffff-ffff-ffff-ffffffffffff\n", " # UUID: 2c01d889-c928-477b-bf53-55e19887d34b\n",
                 " # uuid: 2c01d889_c928-477b-bf53-55e19887d34b\n", " # uuid: ２c01d889-c928-477b-bf53-55e19887d34b\n",
                 " # location: geo:90,180\n", " # location: geo:-90,-180,-6378137\n", " # location: geo:90.0000001,0\n", " # location: geo:0,180.0000001\n",
                 " # location: geo:0,0,-6378137.0000001\n", " # location: geo: 1 , 2 , 3 \n", " # location: geo:1,2,\n", " # location: geo:1\n", " # location: geo:1;2\n",
                 " # location: GEO:1,2\n", " # location: 1,2\n", " # location: geo:1,2,3,4\n", " # location: geo:-0,-0.0,-0\n", " # location:geo:1,2\n",
                 " # tags: a\n", " # tags: a,b\n", " # tags: a ,b\n", " # tags: a, a\n", " # tags: a,b,a\n", " # tags: a:b:c, a:b\n", " # tags: a,\n", " # tags: ,a\n", " # tags:\n",
                 " # tags: a b\n", " # tags: 1a\n", " # tags: a:1\n", " # tags: a:\n", " # tags: a::b\n", " # tags: :a\n", " # tags: a;b\n", " # tags:a\n", " # tag: a\n",
                 " #\n", " # \n", " # foo\n", " # foo: bar\n", " ## uuid: 2c01d889-c928-477b-bf53-55e19887d34b\n", "# uuid: 2c01d889-c928-477b-bf53-55e19887d34b\n"]
        for m in metas:
            out.append(self.mk("meta-form", simple(T, ["a 1", "b"], meta=m)))
            out.append(self.mk("meta-form", simple(T, ["a 1", "b"], meta=m), cfg={"audit": True}))
            out.append(self.mk("meta-form", simple(T, ["a 1", "b"], meta=U + m + " ; c\n")))
        out.append(self.mk("tags-1000", simple(T, ["a 1", "b"], meta=" # tags: " + ", ".join("t%d" % i for i in range(1000)) + "\n")))
        out.append(self.mk("tags-1000", simple(T, ["a 1", "b"], meta=" # tags: " + ", ".join("t%d" % (i % 999) for i in range(1000)) + "\n")))
        out.append(self.mk("tags-1000", simple(T, ["a 1", "b"], meta=" # tags: " + ", ".join("t%d" % i for i in range(1100)) + ", t5\n")))
        # --- comments
        for cm in [" ;\n", " ; \n", " ;  \n", " ;x\n", " ;;\n", " ; ;\n", " ;\tx\n", "\t;\n", ";\n", " ; x\r\n", " ; x\r", " ;\r\n", " ; a\n ;\n ; b\n", " ; x" + chr(0xA0) + "\n"]:
            out.append(self.mk("comment-form", T + "\n" + cm + " a 1\n b\n"))
            out.append(self.mk("comment-form", T + "\n a 1" + cm.replace("\n ;", "\n b 1\n c ;") + " b\n"))
        # --- accounts
        for depth in ((10, 100, 1000, 5000) if tier == "quick" else (10, 100, 1000, 5000, 20000)):
            name = ":".join("a%d" % i for i in range(depth))
            out.append(self.mk("acct-depth:%d" % depth, simple(T, [name + "  1", "b"])))
            out.append(self.mk("acct-depth:%d" % depth, simple(T, ["b  1", name])))
        out.append(self.mk("acct-depth:strict", simple(T, [":".join("a%d" % i for i in range(50)) + "  1", "b"]),
                           cfg={"strict": True, "accounts": [":".join("a%d" % i for i in range(50)), "b"], "commodities": []}))
        for cp in ID_EDGES:
            ch = chr(cp)
            out.append(self.mk("id-edge:start", simple(T, ["%sx  1" % ch, "b"])))
            out.append(self.mk("id-edge:inner", simple(T, ["x%sy  1" % ch, "b"])))
            out.append(self.mk("id-edge:sub", simple(T, ["x:%sy  1" % ch, "b"])))
            out.append(self.mk("id-edge:comm", simple(T, ["x  1 %sY" % ch, "b"])))
            out.append(self.mk("id-edge:comm", simple(T, ["x  1 Y%s" % ch, "b"])))
            out.append(self.mk("id-edge:tag", simple(T, ["x  1", "b"], meta=" # tags: %st, t:%s, u%s\n" % (ch, ch, ch))))
        for a in ["a:", "a::b", ":a", "a: b", "a :b", "a:1", "a:1b", "1a", "a:-", "a:_", "a-", "a_", "-a", "_a", "a·b", "·a", "a" * 5000, "a:" * 50 + "b"]:
            out.append(self.mk("acct-form", simple(T, ["%s  1" % a, "b"])))
            out.append(self.mk("acct-form", simple(T, ["b  1", a])))
        # --- postings / value positions
        posts = ["a 1", "a  1", "a\t1", "a 1 ", "a 1\t", "a1", "a  1EUR", "a 1 EUR", "a 1  EUR", "a 1 EUR ", "a 1 EUR;c", "a 1 EUR ;c", "a 1 EUR ; c", "a 1;c", "a 1; c",
                 "a 1 EUR @ 2 USD", "a 1 EUR @2 USD", "a 1 EUR@ 2 USD", "a 1 EUR @ 2USD", "a 1 EUR @ 2", "a 1 EUR @", "a 1 EUR @ USD", "a 1 EUR = 2 USD", "a -1 EUR = -2 USD",
                 "a 1 EUR = -2 USD", "a -1 EUR = 2 USD", "a 1 EUR @ -2 USD", "a 1 EUR @ 0 USD", "a 1 EUR = 0 USD", "a -1 EUR = 0 USD", "a 1 EUR = -0 USD", "a 1 EUR @ 2 EUR",
                 "a 1 EUR = 2 EUR", "a 1 EUR {2 USD}", "a 1 EUR {2 USD} @ 3 USD", "a 1 EUR {2 USD} = 3 USD", "a 1 EUR { 2 USD }", "a 1 EUR {2USD}", "a 1 EUR {2 USD",
                 "a 1 EUR {-2 USD}", "a 1 EUR {-2 USD} @ 3 USD", "a 1 EUR {2 USD}@ 3 USD", "a 1 EUR {2 USD} @ 3 USD {4 USD}", "a 1 EUR {}", "a 1 EUR { }", "a 1 {2 USD} EUR",
                 "a 1 EUR @ 2 USD @ 3 SEK", "a 1 EUR @ 2 USD = 3 SEK", "a 1 EUR % 2 USD", "a 1 EUR {0 USD}", "a 1 EUR {-0 USD}", "a 1 EUR {2 EUR}", "a 0", "a 0.00", "a -0",
                 "a 0 EUR @ 2 USD", "a 1 EUR @ 2 USD ; c", "a 1 EUR @ 2 USD;c", "a 1 E:R", "a 1 1EUR", "a 1 $", "a 1 €", "a 1 EUR ;", "a 1 EUR ; ", "a 1 EUR ;x"]
        for p in posts:
            cp = p.replace("a ", "b ", 1).replace("1", "-1", 1) if "@" not in p and "=" not in p and "{" not in p else "b"
            out.append(self.mk("posting-form", simple(T, [p, "b"])))
            out.append(self.mk("posting-form", simple(T, ["c 5", p, "b"])))
            out.append(self.mk("posting-form", T + "\n" + "\t" + p + "\n\tb\n"))
            out.append(self.mk("posting-form", simple(T, [p, "b"]), cfg={"strict": True, "accounts": ["a", "b"], "commodities": ["EUR", "USD"]}))
        # --- transaction separation / end of input
        body = "%s\n a 1\n b\n" % T
        for sep in ["", "\n", "\n\n", " \n", "\t\n", " \t \n \n", "\r\n", "\r\n\r\n", " ", "\t", "\r", "\n ", "\n\r", "\x0c\n", chr(0xA0) + "\n", "\n;c\n", "\n ; c\n"]:
            out.append(self.mk("separator", body + sep + body))
            out.append(self.mk("separator", body + sep))
            out.append(self.mk("separator", sep + body))
        out.append(self.mk("separator", ""))
        out.append(self.mk("separator", "\n"))
        out.append(self.mk("separator", body[:-1]))
        out.append(self.mk("separator", "%s\n a 1\n b" % T))
        out.append(self.mk("separator", "%s\n a 1\n b -1" % T))
        out.append(self.mk("separator", "%s\n" % T))
        out.append(self.mk("separator", "%s" % T))
        out.append(self.mk("separator", "%s\n a\n" % T))
        out.append(self.mk("separator", "%s\n a 1\n b\n c\n" % T))
        out.append(self.mk("separator", "%s\n a 1\n b\n c 1\n" % T))
        out.append(self.mk("separator", "\ufeff" + body))
        # --- settings-dependent (deferred) checks next to text faults: strict / audit
        for cfg in ({"strict": True, "accounts": ["a", "b"], "commodities": ["EUR"], "tags": ["t"]},
                    {"strict": True, "accounts": ["a"], "commodities": ["EUR"], "tags": ["t"]},
                    {"audit": True}, {"commodities": ["EUR"], "permit_empty": False}, {"commodities": ["EUR"], "permit_empty": True}):
            for text in [simple(T, ["a 1", "b"]), simple(T, ["a 1 EUR", "b"]), simple(T, ["a 1 USD", "b"]), simple(T, ["a 1", "c"]),
                         simple(T, ["a 1", "b"], meta=U), simple(T, ["a 1", "b"], meta=" # tags: t\n"), simple(T, ["a 1", "b"], meta=" # tags: u\n"),
                         simple(T, ["a 1 USD x", "b"]), simple(T, ["a 1", "c x"]), simple(T, ["a 1", "b"], meta=" # tags: u x\n"),
                         simple(T, ["a 1 EUR @ 2 USD", "b"]), simple(T, ["a 1 USD @ 2 EUR", "b"]), simple(T, ["c:d 1", "b"])]:
                out.append(self.mk("settings", text, cfg=dict(cfg)))
        # --- multi-file: a good file next to a bad one, in both orders
        good = [body, "2024-01-02 'g2\n x 2\n y\n", "2023-12-31T10:00:00Z (c)\n a 1 EUR\n b\n"]
        bad = ["2024-01-03\n a 1\n", "", "2024-01-03\n a 1\n b 1\n", "2024-13-03\n a 1\n b\n", "garbage", "2024-01-03\n a 0\n b\n",
               "2024-01-03\n a %d\n b %d\n c\n" % (MAX96, MAX96), "2024-01-03\n a 1 X @ 2 X\n b\n", "\n", "2024-01-03\n a 1\n b\n x"]
        for g in good:
            out.append(self.mk_files("files:good", [g]))
            for b in bad:
                out.append(self.mk_files("files:good-bad", [g, b]))
                out.append(self.mk_files("files:bad-good", [b, g]))
                out.append(self.mk_files("files:good-bad-good", [g, b, good[0]]))
        out.append(self.mk_files("files:good", good))
        out.append(self.mk_files("files:good", list(reversed(good))))
        out.append(self.mk_files("files:none", []))
        # fs storage discovers the files by a directory walk: an entry that cannot be read (a dangling symbolic link
        # named like a journal file) is an error of the whole load, not something to skip
        for names in (["a.txn", "b.txn"], ["sub/a.txn", "sub/deep/b.txn"], ["b.txn", "z/a.txn"]):
            c = {"op": "run", "kind": "files:walk-dangling-symlink", "cfg": {}, "walk": True, "want": ["txns", "identity"],
                 "files": [{"name": names[0], "text": good[0]}, {"name": names[1], "symlink": "no/such/target.txn", "text": ""}]}
            out.append(c)
        # every directory below the journal directory is walked, dot-named ones included: a faulty file there fails the
        # load, a good one contributes its transactions
        for d in (".imported", "2024/.attic/02", ".git-annex/x"):
            out.append({"op": "run", "kind": "files:walk-dot-dir", "cfg": {}, "walk": True, "want": ["txns", "identity"],
                        "files": [{"name": "a.txn", "text": good[0]}, {"name": d + "/b.txn", "text": bad[0] if bad else "garbage\n"}]})
            out.append({"op": "run", "kind": "files:walk-dot-dir", "cfg": {}, "walk": True, "want": ["txns", "identity"], "expect_n": 2,
                        "files": [{"name": "a.txn", "text": good[0]}, {"name": d + "/b.txn", "text": good[1]}]})
        out.append({"op": "run", "kind": "files:walk-good", "cfg": {}, "walk": True, "want": ["txns", "identity"], "expect_n": 2,
                    "files": [{"name": "a.txn", "text": good[0]}, {"name": "sub/b.txn", "text": good[1]},
                              {"name": "sub/ignored.txt", "text": "not a journal"}]})
        # symbolic links with a valid target are followed: a linked journal file and a linked directory (closed years kept
        # elsewhere and linked back) contribute their transactions like ordinary entries
        out.append({"op": "run", "kind": "files:walk-symlinked-file", "cfg": {}, "walk": True, "want": ["txns", "identity"], "expect_n": 2,
                    "files": [{"name": "a.txn", "text": good[0]}, {"name": "../elsewhere/b.txn", "text": good[1]},
                              {"name": "l.txn", "symlink": "../elsewhere/b.txn", "symlink_ok": True, "text": ""}]})
        for link in ("2023", "years/2023"):
            out.append({"op": "run", "kind": "files:walk-symlinked-dir", "cfg": {}, "walk": True, "want": ["txns", "identity"], "expect_n": 3,
                        "files": [{"name": "2024/a.txn", "text": good[0]}, {"name": "../archive/2023/b.txn", "text": good[1]},
                                  {"name": "../archive/2023/q4/c.txn", "text": good[2]}, {"name": "years/.keep", "text": ""},
                                  {"name": link, "symlink": "../archive/2023", "symlink_ok": True, "text": ""}]})
        out.append(self.mk_files("files:strict", [good[2], body], cfg={"strict": True, "accounts": ["a", "b"], "commodities": ["EUR"]}))
        out.append(self.mk_files("files:strict", [good[2], good[1]], cfg={"strict": True, "accounts": ["a", "b"], "commodities": ["EUR"]}))
        return out

    def gen(self, rng, tier, focus=None):
        out = []
        quick = tier == "quick"
        # 1. vectors of the repository's own parser tests
        vecs = repo_vectors()
        self._nvec = len(vecs)
        for f, t in vecs:
            out.append(self.mk("vector:" + f, t))
            if not quick or rng.random() < 0.5:
                out.append(self.mk("vector-mut:" + f, mutate(rng, t)[1]))
            if rng.random() < 0.3:
                out.append(self.mk("vector:audit", t, cfg={"audit": True}))
        # 2. boundary classes
        out.extend(self.boundary(rng, tier))
        # 3. valid journals: text-level tie + cross-check of the generator's AST against Syntax.parse
        n_valid = 250 if quick else 6000
        for i in range(n_valid):
            txns, text, cfg = self.valid_case(rng, big=rng.random() < 0.1)
            out.append(self.mk("valid", text, cfg=cfg, txns=txns, astcheck=True))
        # 4. truncation at every character of a few valid journals
        for _ in range(2 if quick else 25):
            txns, text, cfg = self.valid_case(rng)
            for i in range(len(text)):
                out.append(self.mk("truncate-every", text[:i], cfg=cfg))
        # 5. random mutations of valid journals (1-3 faults)
        n_mut = 900 if quick else 40000
        for i in range(n_mut):
            txns, text, cfg = self.valid_case(rng, big=rng.random() < 0.05)
            kinds = []
            for _ in range(rng.choice([1, 1, 1, 2, 3])):
                k, text = mutate(rng, text)
                kinds.append(k)
            out.append(self.mk("mut:" + kinds[0], text, cfg=cfg))
        # 6. good/bad files from generated journals
        for i in range(40 if quick else 1500):
            files = []
            for _ in range(rng.randrange(1, 4)):
                txns, text, _ = self.valid_case(rng, cfg={})
                if rng.random() < 0.4:
                    text = mutate(rng, text)[1]
                files.append(text)
            out.append(self.mk_files("files:random", files))
        # git storage is a multi-file input as well: an executable journal file, a faulty file, a near-miss name in the
        # selected commit - "never partial data" is C08's comparison of the git load with the filesystem load of the same
        # commit, borrowed here (run and judged by C08's plug-in on a few generated repositories)
        if not focus:
            import c08
            for c in c08.PROP.gen(rng, "quick", focus=True):
                c = dict(c, delegate="c08", kind="git:" + str(c.get("kind", "")))
                out.append(c)
            # the whole command: every journal file under the journal directory is input, also when the output directory
            # is a sibling whose path is a string prefix of the journal directory's (run of the real binary, C14's runner)
            import c14
            for c in c14.PROP.outdir_prefix_cases():
                out.append(dict(c, delegate="c14", kind="cli:outdir-prefix"))
        return out

    # ---- running
    def impl_case(self, case):
        return {k: v for k, v in case.items() if k not in ("txns", "astcheck", "kind")}

    def model_case(self, case):
        ts = model_tscfg(case.get("cfg", {}))
        if ts is None:
            return None
        k = case.get("kind", "")
        if k.startswith("acct-depth:") and k.split(":")[1].isdigit() and int(k.split(":")[1]) >= 5000:
            return None     # depth >= 5000: the model's account tree (lists of paths) is cubic; implementation and oracle only
        if case.get("walk"):
            return None     # the directory walk (walkdir) is not modelled: implementation and oracle only
        if k.startswith("audit-dup:"):
            return None     # the duplicate check belongs to the selection stage (C09's model); here: no panic, oracle only
        c = {k: v for k, v in case.items() if k not in ("kind",)}
        c["cfg"] = model_cfg(case.get("cfg", {}))
        c["tscfg"] = ts
        c["want"] = ["txns"]
        return c

    def run_impl(self, impl_cases):
        """first pass: the cases; second pass: the identity export of every accepted case is loaded again,
        and every file of a multi-file case is loaded on its own"""
        first = common.run_driver([common.TK_IMPL], impl_cases)
        second, where = [], []
        for i, (c, a) in enumerate(zip(impl_cases, first)):
            if not isinstance(a, dict):
                continue
            if a.get("r") == "OK":
                ident = a.get("out", {}).get("identity", {})
                if ident.get("r") == "OK":
                    second.append({"op": "run", "cfg": c.get("cfg", {}), "text": ident["v"], "want": ["txns"]})
                    where.append((i, "reparse"))
            if "files" in c:
                for k, f in enumerate(c["files"]):
                    if f.get("symlink") is not None or not f["name"].endswith(".txn"):
                        continue
                    second.append({"op": "run", "cfg": c.get("cfg", {}), "text": f["text"], "want": []})
                    where.append((i, "each"))
        ans = common.run_driver([common.TK_IMPL], second)
        for (i, what), a in zip(where, ans):
            if what == "reparse":
                first[i]["reparse"] = a
            else:
                first[i].setdefault("each", []).append(a.get("r") if isinstance(a, dict) else "?")
        return first

    # ---- judgement
    def compare(self, case, impl, model):
        d = cmp_status(impl, model)
        if d:
            return d
        if case.get("astcheck"):
            ast = model.get("ast")
            if ast == "diff":
                return "Syntax.parseJournal(text) differs from the generator's AST (renderer or grammar model wrong)"
            if ast == "nosyntax" and impl.get("r") == "OK":
                return "Syntax.parseJournal rejects a text the implementation accepts"
        if impl.get("r") != "OK":
            return None
        a = impl["out"]["txns"]
        b = model["out"]["txns"]
        if a.get("r") != "OK" or b.get("r") != "OK":
            return "txns output status impl=%s model=%s" % (a.get("r"), b.get("r"))
        if a["v"] != b["v"]:
            for x, y in zip(a["v"], b["v"]):
                if x != y:
                    return "accepted transactions differ: impl=%s model=%s" % (str(x)[:700], str(y)[:700])
            return "number of accepted transactions differs: impl=%d model=%d" % (len(a["v"]), len(b["v"]))
        return None

    def oracle(self, case, impl):
        r = impl.get("r")
        if r in ("PANIC", "ABORT", "TIMEOUT"):
            return {"sig": "crash:" + r.lower() + self.crash_class(case), "what": "loading ended with %s instead of a result or an error" % r}
        if r == "SETERR" and case.get("kind", "").startswith("audit-dup:"):
            return None     # a reported error of the selection stage (duplicate uuids in audit mode)
        if r not in ("OK", "ERR"):
            return {"sig": "status:" + str(r), "what": "unexpected load status %s: %s" % (r, str(impl.get("msg"))[:200])}
        if case.get("expect_n") is not None:
            if r != "OK":
                return {"sig": "walk-rejected", "what": "directory walk over valid entries failed: %s" % str(impl.get("msg"))[:200]}
            if impl.get("n") != case["expect_n"]:
                return {"sig": "walk-incomplete", "what": "the directory holds %d transactions in journal files (linked entries "
                        "included), %s were loaded" % (case["expect_n"], impl.get("n"))}
            return None
        if "files" in case and any(f.get("symlink") is not None for f in case["files"]):
            if r == "OK":
                return {"sig": "walk-error-swallowed", "what": "the directory walk met an unreadable entry (dangling symbolic link) and the load succeeded from the other files"}
            return None
        if "files" in case:
            each = impl.get("each", [])
            if any(e not in ("OK", "ERR") for e in each):
                return {"sig": "crash:file", "what": "a file of a multi-file input ended with %s" % each}
            if r == "OK" and any(e != "OK" for e in each):
                return {"sig": "files-not-fail-stop", "what": "multi-file load succeeded although a file is rejected on its own: %s" % each}
            if r == "ERR" and each and all(e == "OK" for e in each):
                return {"sig": "files-spurious-error", "what": "multi-file load failed although every file loads on its own"}
        if r != "OK":
            return None
        self.remember(case)
        out = impl.get("out", {})
        tx = out.get("txns", {})
        ident = out.get("identity", {})
        if tx.get("r") != "OK" or ident.get("r") != "OK":
            return {"sig": "output:" + str(tx.get("r")) + "/" + str(ident.get("r")), "what": "accepted set cannot be listed/exported"}
        if impl.get("n") != len(tx["v"]):
            return {"sig": "count", "what": "load reports %s transactions, set has %d" % (impl.get("n"), len(tx["v"]))}
        if not tx["v"]:
            # only `paths_to_txns` of no files at all yields an empty set; there is nothing to export
            return None if ident["v"] == "" and "files" in case and not case["files"] else {"sig": "empty-set", "what": "a load succeeded with no transactions"}
        # whole input consumed, nothing skipped or merged: in the journal format only a transaction header starts in
        # column 0 (every comment, metadata and posting line is indented), so an accepted text has exactly as many
        # transactions as it has non-blank lines that start with a non-blank character
        texts = [case["text"]] if "text" in case else [f["text"] for f in case.get("files", []) if f.get("text") is not None and
                                                        self.selected_file(case, f)]
        if "walk" not in case:
            heads = 0
            for tx_ in texts:
                for ln in tx_.split("\n"):
                    if ln.strip(" \t\r") != "" and ln[0] not in " \t":
                        heads += 1
            if heads != len(tx["v"]):
                return {"sig": "partial-consumption", "what": "the accepted text has %d lines starting a transaction (non-blank, "
                        "not indented) but %d transactions were loaded: content was skipped or merged" % (heads, len(tx["v"]))}
        rp = impl.get("reparse")
        if rp is None:
            return {"sig": "no-reparse", "what": "identity export was not re-loaded"}
        if rp.get("r") != "OK":
            if self.inexact(tx["v"]):
                return {"sig": "F17:inexact-arithmetic", "what": "identity export of a journal with inexact decimal arithmetic does not load again"}
            return {"sig": "export-rejected", "what": "identity export of the accepted set is not accepted again: %s" % str(rp.get("msg"))[:300]}
        a, b = tx["v"], rp["out"]["txns"]["v"]
        if len(a) != len(b):
            return {"sig": "skipped", "what": "accepted %d transactions, the export holds %d" % (len(a), len(b))}
        for x, y in zip(a, b):
            for k in ("ts", "code", "desc", "uuid", "tags", "comments"):
                if x[k] != y[k]:
                    return {"sig": "altered:" + k, "what": "%s differs after export/re-load: %r vs %r" % (k, x[k], y[k])}
            if len(x["posts"]) != len(y["posts"]):
                return {"sig": "skipped-posting", "what": "posting count differs after export/re-load"}
            for p, q in zip(x["posts"], y["posts"]):
                if (p["acct"], p["comm"], p["txn_comm"], p["comment"]) != (q["acct"], q["comm"], q["txn_comm"], q["comment"]) \
                        or D(p["amount"]) != D(q["amount"]):
                    return {"sig": "altered:posting", "what": "posting differs after export/re-load: %r vs %r" % (p, q)}
        return None

    def selected_file(self, case, f):
        return True

    def inexact(self, txns):
        for t in txns:
            for p in t["posts"]:
                if p["comm"] != p["txn_comm"] and not p["is_total"]:
                    q = D(p["txn_amount"]) / D(p["amount"])
                    if not common.dec_fits(q) or q * D(p["amount"]) != D(p["txn_amount"]):
                        return True
        return False

    def crash_class(self, case):
        # F11 (fixed in 428f879: build_account_tree walks up in a loop): deep account names are ordinary cases now,
        # a crash on them is reported like any other crash
        return ""

    def nontrivial(self, case, impl):
        return not case.get("kind", "").startswith("valid") or impl.get("r") == "OK"

    def rule(self):
        return ("journal texts: the %d indoc! vectors of tackler-core/src/parser (extracted from the tree at run time) and a mutation "
                "of each; boundary classes (28/29-digit numbers and decimals, products/sums around 2^96, timestamps with hour 24, "
                "Feb 30, 9/10 fraction digits, offsets +-25:59/+-26:00, every forbidden code char, Unicode at every edge of the "
                "identifier ranges, White_Space characters, metadata in all orders up to length 4, 1000 tags, account depth "
                "10/100/1000, posting/value-position forms, separators and end-of-input forms, strict/audit settings, good and bad "
                "files in both orders); valid journals rendered with random layouts (also cross-checked: Syntax.parse(text) = "
                "generator AST); every truncation of some valid journals; 1-3 random lexical mutations (delete/insert/replace, "
                "truncate, swap/drop/duplicate lines, digit runs, identifier-edge and White_Space characters, CR/CRLF). "
                "distinct = sha256 of the implementation case line" % getattr(self, "_nvec", 0))

    def trusted_base(self):
        return super().trusted_base() + [
            "panic-site census of the load path (DESIGN.md section 5 C15): live sites fixed by F6; dead sites are theorems of Props/C15.lean",
            "rust_decimal arithmetic outside the exact domain is not modelled except for certain overflow (model answers UNDEF, case skipped)",
            "real stack depth / allocator behaviour is runtime behaviour (bounded_recursion_partial is about the model's recursion structure)"]

    def assumptions(self):
        return ["journal zone is a fixed offset (named zones are outside Model/Time's TsCfg)",
                "input files are valid UTF-8 (read_to_string fails otherwise: an ordinary error)"]


PROP = C15()

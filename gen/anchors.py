"""Source fingerprints of the repository's non-test code (`anchors.json`, committed).

The model is hand-written, so a change of the code is noticed only through the correspondence.  To spend the tie's budget
where it matters, every run compares the current source with the fingerprints recorded when the model was last reviewed
against it: a file whose code (comments, blank lines and `#[cfg(test)]` modules removed, white space normalised) differs is
*drift*.  Drift is not a violation and changes no verdict; it makes `bin/check` draw further rounds of the same generators
(fresh seeds) for the run at hand - more rounds for a property whose own anchor files (properties.jsonl) drifted.
`bin/anchors --update` re-records the fingerprints (after a `fix:` or hook commit, once the model has been brought in line)."""
import hashlib
import json
import os
import re

import common

CRATES = ["tackler-rs", "tackler-api", "tackler-core", "tackler-cli"]
PATH = os.path.join(common.VERIF, "anchors.json")


def repo_root():
    return os.path.realpath(os.environ.get("TK_REPO", "/repo"))


def _strip_tests(src):
    out, i = [], 0
    while True:
        m = re.search(r"#\[cfg\(test\)\]\s*(?:#\[[^\]]*\]\s*)*mod\s+\w+\s*\{", src[i:])
        if not m:
            out.append(src[i:])
            break
        out.append(src[i:i + m.start()])
        j = i + m.end()
        depth = 1
        while j < len(src) and depth:
            if src[j] == "{":
                depth += 1
            elif src[j] == "}":
                depth -= 1
            j += 1
        i = j
    return "".join(out)


def normalise(src):
    src = _strip_tests(src)
    src = re.sub(r"/\*.*?\*/", " ", src, flags=re.S)
    lines = []
    for ln in src.split("\n"):
        # line comments (a `//` inside a string literal is rare in this code base; a false "drift" only costs time)
        k = ln.find("//")
        if k >= 0 and ln[:k].count('"') % 2 == 0:
            ln = ln[:k]
        ln = " ".join(ln.split())
        if ln:
            lines.append(ln)
    return "\n".join(lines)


def fingerprints(root=None):
    root = root or repo_root()
    fp = {}
    for c in CRATES:
        for d, _, fs in os.walk(os.path.join(root, c, "src")):
            for f in sorted(fs):
                if not f.endswith(".rs"):
                    continue
                p = os.path.join(d, f)
                rel = os.path.relpath(p, root)
                if "/tests/" in rel or rel.endswith("/tests.rs") or rel.endswith("verif_hooks.rs"):
                    continue
                with open(p, encoding="utf-8", errors="replace") as fh:
                    fp[rel] = hashlib.sha256(normalise(fh.read()).encode("utf-8")).hexdigest()[:16]
    for extra in ("Cargo.lock", "Cargo.toml"):
        p = os.path.join(root, extra)
        if os.path.exists(p):
            with open(p, "rb") as fh:
                fp[extra] = hashlib.sha256(fh.read()).hexdigest()[:16]
    return fp


def drift(root=None):
    """files whose code differs from the recorded fingerprints (added / removed files included); [] without a record"""
    if not os.path.exists(PATH):
        return []
    rec = json.load(open(PATH))["files"]
    cur = fingerprints(root)
    return sorted(f for f in set(rec) | set(cur) if rec.get(f) != cur.get(f))


def property_files(pid):
    for ln in open(os.path.join(common.VERIF, "properties.jsonl")):
        p = json.loads(ln)
        if p["id"] == pid:
            return p.get("anchors", {}).get("files", [])
    return []


def touches(pid, drifted):
    """does the drift touch an anchor file (or directory) of property `pid`?"""
    anchors = property_files(pid)
    for f in drifted:
        for a in anchors:
            if f == a or (a.endswith("/") and f.startswith(a)):
                return True
    return False

"""C19 — command-line options override the configuration file key by key, as documented.

Tie (CLI level): the real `tackler` binary is run on a *probe world* (journals, price files, git
repositories built once under .build/tmp) with a generated (tackler.toml, option set) pair; the Lean
model (`op cfg`) predicts the effective configuration, python maps it to the witnesses visible in
stdout / output files (`simulate`) and compares with what the binary printed.

Oracle (independent of the Lean model): (a) the run with the options equals – same exit status,
stdout and output files – the run with every option's value written into the configuration file;
(b) the witnesses of the run are those of the *documented* overlay (python `spec_effective`).
"""
import atexit
import copy
import datetime
import hashlib
import itertools
import json
import os
import re
import shutil
import subprocess
import tempfile
from concurrent.futures import ThreadPoolExecutor

import common
from propbase import PropBase

JOBS = 8
WTOKEN = "@W"

# ---------------------------------------------------------------------------------------------
# the probe world

ACCOUNTS = ["e:food", "e:fuel", "a:cash", "a:bank", "Equity:Balance"]
LEAVES = ["e:food", "e:fuel", "a:cash", "a:bank", "x:new"]
COMMODITIES = ["EUR", "USD"]
TXN_DATES = [datetime.date(2024, 1, 15), datetime.date(2024, 2, 20), datetime.date(2024, 3, 10)]
PRICE_DATES = ["2024-01-01", "2024-02-01", "2024-03-01"]
# price file id -> {(from, to): [rate at each price date]}
RATES = {
    "A": {("USD", "EUR"): [2, 3, 5], ("EUR", "USD"): [7, 11, 13]},
    "B": {("USD", "EUR"): [17, 19, 23], ("EUR", "USD"): [29, 31, 37]},
    "C": {("USD", "EUR"): [41, 43, 47], ("EUR", "USD"): [53, 59, 61]},
}
BEFORE_OK = {"2024-01-20": 0, "2024-02-25T12:00:00Z": 1}     # -> index of the price in effect
BEFORE_BAD = "garbage"

# journal units: index k -> weight 2**k; `dirty` units post to the undeclared account x:new
UNITS = [
    # (k, location kind, path relative to W, dirty)
    (0, "abs/single.txn", True),
    (1, "cwd/j.txn", False),
    (2, "conf/j.txn", False),
    (3, "conf/txns/a.txn", True),
    (4, "conf/txns/sub/b.txn", False),
    (5, "conf/txns/c.jrnl", False),
    (6, "cwd/txns/a.txn", True),
    (7, "cwd/txns/c.jrnl", False),
    (8, "abs/fs2/a.txn", True),
    (9, "abs/fs2/c.jrnl", False),
    (10, "conf/base/txns/a.txn", False),
]
# git: repository (relative to W) -> list of commits; a commit = (label, branch, tag, {path: (k, dirty)})
GIT = {
    "conf/repo1": [
        ("c1", "main", "v1", {"txns/a.txn": (11, False)}),
        ("c2", "main", None, {"txns/a.txn": (12, True), "txns/c.jrnl": (13, False), "other/a.txn": (14, False)}),
        ("s1", "side", None, {"txns/a.txn": (15, False)}),
    ],
    "cwd/repo1": [
        ("d1", "main", None, {"txns/a.txn": (16, False)}),
    ],
    "abs/repo2": [
        ("r1", "main", None, {"txns/a.txn": (17, True), "jd/a.txn": (18, False)}),
    ],
}
DIRTY = {k for k, _, d in UNITS if d}
for _repo, _commits in GIT.items():
    for _c in _commits:
        for _p, (_k, _d) in _c[3].items():
            if _d:
                DIRTY.add(_k)


def unit_text(k, dirty):
    w = 2 ** k
    t = []
    t.append("2024-01-15 'u%d-1\n # uuid: %08x-0000-4000-8000-000000000001\n e:food  %d EUR\n a:cash\n" % (k, k, w))
    t.append("2024-02-20 'u%d-2\n # uuid: %08x-0000-4000-8000-000000000002\n e:fuel  %d USD\n a:bank\n" % (k, k, w))
    if dirty and k % 2 == 1:
        # undeclared in strict mode: a tag (the Chart of Tags is empty), on declared accounts and commodity
        t.append("2024-03-10 'u%d-3\n # uuid: %08x-0000-4000-8000-000000000003\n # tags: extra\n e:food  %d EUR\n a:cash\n" % (k, k, w))
    elif dirty:
        # undeclared in strict mode: an account
        t.append("2024-03-10 'u%d-3\n # uuid: %08x-0000-4000-8000-000000000003\n x:new  %d EUR\n a:cash\n" % (k, k, w))
    return "\n".join(t) + "\n"


def unit_postings(k):
    """[(txn index, account, amount, commodity)]"""
    w = 2 ** k
    p = [(0, "e:food", w, "EUR"), (0, "a:cash", -w, "EUR"), (1, "e:fuel", w, "USD"), (1, "a:bank", -w, "USD")]
    if k in DIRTY:
        p += [(2, "e:food" if k % 2 == 1 else "x:new", w, "EUR"), (2, "a:cash", -w, "EUR")]
    return p


def price_text(pid):
    out = []
    for (a, b), rs in sorted(RATES[pid].items()):
        for d, r in zip(PRICE_DATES, rs):
            out.append("P %s %s %d %s" % (d, a, r, b))
    return "\n".join(out) + "\n"


WORLD_SPEC_VERSION = "v4"


def _git(cwd, *args):
    env = dict(os.environ)
    env.update({"GIT_AUTHOR_NAME": "v", "GIT_AUTHOR_EMAIL": "v@example.org", "GIT_COMMITTER_NAME": "v",
                "GIT_COMMITTER_EMAIL": "v@example.org", "GIT_AUTHOR_DATE": "2024-01-01T00:00:00Z",
                "GIT_COMMITTER_DATE": "2024-01-01T00:00:00Z", "GIT_CONFIG_GLOBAL": "/dev/null",
                "GIT_CONFIG_SYSTEM": "/dev/null", "HOME": cwd})
    p = subprocess.run(["git"] + list(args), cwd=cwd, env=env, stdout=subprocess.PIPE, stderr=subprocess.PIPE)
    if p.returncode != 0:
        raise RuntimeError("git %s failed: %s" % (" ".join(args), p.stderr.decode()[-400:]))
    return p.stdout.decode().strip()


def _write(path, text):
    os.makedirs(os.path.dirname(path), exist_ok=True)
    with open(path, "w") as f:
        f.write(text)


def build_world(root):
    for sub in ("conf", "cwd", "abs"):
        os.makedirs(os.path.join(root, sub), exist_ok=True)
    for k, rel, dirty in UNITS:
        _write(os.path.join(root, rel), unit_text(k, dirty))
    _write(os.path.join(root, "conf/accounts.toml"), "accounts = [%s]\n" % ", ".join('"%s"' % a for a in ACCOUNTS))
    _write(os.path.join(root, "conf/commodities.toml"),
           "commodities = [%s]\n" % ", ".join('"%s"' % a for a in COMMODITIES))
    _write(os.path.join(root, "conf/p1.db"), price_text("A"))
    _write(os.path.join(root, "cwd/p1.db"), price_text("B"))
    _write(os.path.join(root, "abs/p3.db"), price_text("C"))
    shas = {}
    for repo, commits in GIT.items():
        d = os.path.join(root, repo)
        os.makedirs(d, exist_ok=True)
        _git(d, "init", "-q", "-b", "main")
        cur = "main"
        for label, branch, tag, tree in commits:
            if branch != cur:
                _git(d, "checkout", "-q", "-b", branch)
                cur = branch
            # replace the work tree content
            for name in os.listdir(d):
                if name != ".git":
                    shutil.rmtree(os.path.join(d, name))
            for path, (k, dirty) in tree.items():
                _write(os.path.join(d, path), unit_text(k, dirty))
            _git(d, "add", "-A")
            _git(d, "commit", "-q", "-m", label)
            sha = _git(d, "rev-parse", "HEAD")
            shas.setdefault(repo, {})[label] = sha
            if tag:
                _git(d, "tag", tag)
        _git(d, "checkout", "-q", "main")
    with open(os.path.join(root, "shas.json"), "w") as f:
        json.dump(shas, f)


_WORLD = None


class World:
    def __init__(self):
        base = os.path.join(common.BUILD, "tmp")
        os.makedirs(base, exist_ok=True)
        root = os.path.realpath(os.path.join(base, "c19-world-" + WORLD_SPEC_VERSION))
        if not os.path.exists(os.path.join(root, "shas.json")):
            tmp = tempfile.mkdtemp(prefix="c19-world-build-", dir=base)
            build_world(tmp)
            try:
                os.rename(tmp, root)
            except OSError:
                shutil.rmtree(tmp, ignore_errors=True)      # somebody else built it meanwhile
        self.root = root
        self.conf = os.path.join(root, "conf")
        self.cwd = os.path.join(root, "cwd")
        self.shas = json.load(open(os.path.join(root, "shas.json")))
        self.run_dir = tempfile.mkdtemp(prefix="c19-run-%d-" % os.getpid(), dir=base)
        atexit.register(shutil.rmtree, self.run_dir, True)
        self.counter = itertools.count(1)
        # tables
        self.file_units = {os.path.join(root, rel): k for k, rel, _ in UNITS}
        self.dbs = {os.path.join(root, "conf/p1.db"): "A", os.path.join(root, "cwd/p1.db"): "B",
                    os.path.join(root, "abs/p3.db"): "C"}
        self.git = {}          # repo .git path -> {"refs": {name: label}, "commits": {label: (sha, tree)}}
        for repo, commits in GIT.items():
            refs, cm = {}, {}
            for label, branch, tag, tree in commits:
                cm[label] = (self.shas[repo][label], tree)
                refs[branch] = label
                if tag:
                    refs[tag] = label
            self.git[os.path.join(root, repo, ".git")] = {"refs": refs, "commits": cm}

    def sub(self, obj):
        """replace the @W token by the world root"""
        if isinstance(obj, str):
            return obj.replace(WTOKEN, self.root)
        if isinstance(obj, list):
            return [self.sub(x) for x in obj]
        if isinstance(obj, dict):
            return {k: self.sub(v) for k, v in obj.items()}
        return obj

    def sha(self, repo, label, n=None):
        s = self.shas[repo][label]
        return s[:n] if n else s

    # -- which units does an effective input load?  None = the load fails
    def units_of(self, inp):
        k = inp["k"]
        if k == "file":
            p = os.path.normpath(inp["path"])
            u = self.file_units.get(p)
            return None if u is None else [u]
        if k == "fs":
            d = os.path.normpath(inp["dir"])
            if not os.path.exists(d):
                return None
            out = []
            for p, u in self.file_units.items():
                # WalkDir yields the root itself too: a plain file given as directory is a one-file tree
                if p.startswith(d + os.sep) or p == d:
                    name = os.path.basename(p)
                    if "." in name.lstrip(".") and name.rsplit(".", 1)[1] == inp["suffix"]:
                        out.append(u)
            return out
        if k == "git":
            g = self.git.get(os.path.normpath(inp["repo"]))
            if g is None:
                return None
            if "commit" in inp:
                cid = inp["commit"]
                if len(cid) < 4 or not re.fullmatch(r"[0-9a-f]+", cid):
                    return None
                labels = [l for l, (sha, _) in g["commits"].items() if sha.startswith(cid)]
                if len(labels) != 1:
                    return None
                label = labels[0]
            else:
                label = g["refs"].get(inp["ref"])
                if label is None:
                    return None
            tree = g["commits"][label][1]
            out = []
            for path, (u, _) in tree.items():
                if path.startswith(inp["dir"] + "/") and path.endswith("." + inp["ext"]):
                    out.append(u)
            return out
        return None


def world():
    global _WORLD
    if _WORLD is None:
        _WORLD = World()
    return _WORLD


# ---------------------------------------------------------------------------------------------
# configuration file writer (python side of "TOML encoding"; decoding is the library's)

def tq(s):
    return '"' + s.replace("\\", "\\\\").replace('"', '\\"') + '"'


def tlist(l):
    return "[" + ", ".join(tq(x) for x in l) + "]"


def render_toml(f):
    o = []
    o.append("[kernel]\nstrict = %s" % ("true" if f["strict"] else "false"))
    o.append("audit = { mode = %s, hash = \"SHA-256\" }" % ("true" if f["audit"] else "false"))
    o.append("timestamp = { default-time = 00:00:00, timezone = { name = \"UTC\" } }")
    o.append("[kernel.input]\nstorage = %s" % tq(f["storage"]))
    if f.get("fs"):
        o.append("[kernel.input.fs]")
        if f["fs"].get("path") is not None:
            o.append("path = %s" % tq(f["fs"]["path"]))
        o.append("dir = %s\nsuffix = %s" % (tq(f["fs"]["dir"]), tq(f["fs"]["suffix"])))
    if f.get("git"):
        g = f["git"]
        o.append("[kernel.input.git]")
        if g.get("repo") is not None:
            o.append("repo = %s" % tq(g["repo"]))
        if g.get("repository") is not None:
            o.append("repository = %s" % tq(g["repository"]))
        o.append("ref = %s\ndir = %s\nsuffix = %s" % (tq(g["ref"]), tq(g["dir"]), tq(g["suffix"])))
    if f.get("price"):
        o.append("[price]\ndb-path = %s\nlookup-type = %s" % (tq(f["price"]["db_path"]), tq(f["price"]["lookup_type"])))
    o.append("[transaction]\naccounts = { path = \"accounts.toml\" }\ncommodities = { path = \"commodities.toml\" }\n"
             "tags = { path = \"none\" }")
    o.append("[report]\nreport-timezone = \"UTC\"\nscale = { min = 0, max = 7 }")
    if f.get("sel_global") is not None:
        o.append("accounts = %s" % tlist(f["sel_global"]))
    if f.get("commodity") is not None:
        o.append("commodity = %s" % tq(f["commodity"]))
    o.append("targets = %s" % tlist(f["targets"]))

    def sel(k):
        return (", accounts = %s" % tlist(f[k])) if f.get(k) is not None else ""
    o.append("balance = { title = \"BALANCE\"%s }" % sel("sel_balance"))
    o.append("balance-group = { title = \"BALANCE GROUP\", group-by = %s%s }" % (tq(f["group_by"]), sel("sel_balgrp")))
    o.append("register = { title = \"REGISTER\", timestamp-style = \"date\"%s }" % sel("sel_register"))
    o.append("[export]\ntargets = %s" % tlist(f["export_targets"]))
    o.append("equity = { equity-account = %s%s }" % (tq(f["equity_account"]), sel("sel_equity")))
    return "\n".join(o) + "\n"


OPT_ORDER = ["strict.mode", "audit.mode", "input.file", "input.storage", "input.fs.dir", "input.fs.ext",
             "input.git.repository", "input.git.ref", "input.git.commit", "input.git.dir", "accounts", "reports",
             "pricedb", "report.commodity", "price.lookup-type", "price.before", "group-by", "exports"]
RESIDUAL = ["input.file", "input.git.commit", "price.before"]


def cli_args(cli):
    a = []
    for k in OPT_ORDER:
        if k not in cli or cli[k] is None:
            continue
        v = cli[k]
        a.append("--" + k)
        if isinstance(v, bool):
            a.append("true" if v else "false")
        elif isinstance(v, list):
            a.extend(v)
        else:
            a.append(v)
    return a


# ---------------------------------------------------------------------------------------------
# "the option's value written into the file" and the documented overlay (python, independent of Lean)

def is_abs(p):
    return p.startswith("/")


def at_cwd(w, p):
    return p if is_abs(p) else w.cwd + "/" + p


def at_conf(w, p):
    return p if is_abs(p) else w.conf + "/" + p


def with_cli(w, f, cli):
    """-> (file', residual options)"""
    f = copy.deepcopy(f)
    c = {k: v for k, v in cli.items() if v is not None}
    if "strict.mode" in c:
        f["strict"] = c["strict.mode"]
    if "audit.mode" in c:
        f["audit"] = c["audit.mode"]
    if "reports" in c:
        f["targets"] = list(c["reports"])
    if "exports" in c:
        f["export_targets"] = list(c["exports"])
    if "report.commodity" in c:
        f["commodity"] = c["report.commodity"]
    if "group-by" in c:
        f["group_by"] = c["group-by"]
    if "accounts" in c:
        # documented: the list replaces the global and every per-report selector; "" = all accounts
        f["sel_global"] = [x for x in c["accounts"] if x != ""]
        for k in ("sel_balance", "sel_balgrp", "sel_register", "sel_equity"):
            f[k] = None
    if "pricedb" in c or "price.lookup-type" in c:
        p = f.get("price") or {"db_path": "none", "lookup_type": "none"}
        if "pricedb" in c:
            p["db_path"] = at_cwd(w, c["pricedb"])
        if "price.lookup-type" in c:
            p["lookup_type"] = c["price.lookup-type"]
        f["price"] = p
    if "input.storage" in c:
        f["storage"] = c["input.storage"]
    if "input.fs.dir" in c and "input.fs.ext" in c:
        f["storage"] = "fs"
        f["fs"] = {"path": None, "dir": at_cwd(w, c["input.fs.dir"]), "suffix": c["input.fs.ext"]}
    if "input.git.repository" in c and "input.git.dir" in c:
        f["storage"] = "git"
        old_ref = (f.get("git") or {}).get("ref", "HEAD")
        f["git"] = {"repo": at_cwd(w, c["input.git.repository"]), "repository": None,
                    "ref": c.get("input.git.ref", old_ref), "dir": c["input.git.dir"], "suffix": "txn"}
    elif "input.git.ref" in c:
        f["storage"] = "git"
        if f.get("git"):
            f["git"]["ref"] = c["input.git.ref"]
    elif "input.git.commit" in c:
        f["storage"] = "git"
    res = {k: c[k] for k in RESIDUAL if k in c}
    return f, res


STORAGES = ["fs", "git"]
REPORTS = ["register", "balance", "balance-group"]
EXPORTS = ["identity", "equity"]
GROUP_BYS = ["year", "month", "date", "iso-week", "iso-week-date"]
LOOKUPS = ["none", "last-price", "txn-time", "given-time"]
INPUT_OPTS = ["input.file", "input.storage", "input.fs.dir", "input.fs.ext", "input.git.repository",
              "input.git.ref", "input.git.commit", "input.git.dir"]


def clap_rejects(cli):
    """the documented option grammar (usage errors)"""
    c = {k: v for k, v in cli.items() if v is not None}
    has = lambda k: k in c
    git_any = any(has(k) for k in ("input.git.repository", "input.git.ref", "input.git.commit", "input.git.dir"))
    fs_any = has("input.fs.dir") or has("input.fs.ext")
    if has("input.file") and (has("input.storage") or fs_any or git_any):
        return "file-with-other-input"
    if has("input.storage") and (fs_any or git_any):
        return "storage-with-location"
    if fs_any and git_any:
        return "fs-with-git"
    if has("input.fs.dir") != has("input.fs.ext"):
        return "fs-dir-ext-pair"
    if has("input.git.repository") and not (has("input.git.dir") and (has("input.git.ref") or has("input.git.commit"))):
        return "git-repo-incomplete"
    if has("input.git.dir") and not has("input.git.repository"):
        return "git-dir-without-repo"
    if has("input.git.ref") and has("input.git.commit"):
        return "git-ref-and-commit"
    if has("input.storage") and c["input.storage"] not in STORAGES:
        return "bad-storage"
    for k, vals in (("reports", REPORTS), ("exports", EXPORTS)):
        if has(k) and (not c[k] or any(x not in vals for x in c[k])):
            return "bad-" + k
    if has("accounts") and not c["accounts"]:
        return "no-accounts"
    if has("group-by") and c["group-by"] not in GROUP_BYS:
        return "bad-group-by"
    if has("price.lookup-type") and c["price.lookup-type"] not in LOOKUPS:
        return "bad-lookup"
    return None


def file_invalid(f):
    """a configuration file that is rejected by itself"""
    if f["storage"] not in STORAGES:
        return "storage"
    if any(t not in REPORTS for t in f["targets"]):
        return "targets"
    if any(t not in EXPORTS for t in f["export_targets"]):
        return "export-targets"
    if f["group_by"] not in GROUP_BYS:
        return "group-by"
    p = f.get("price")
    if p:
        if p["lookup_type"] not in LOOKUPS:
            return "lookup-type"
        if p["db_path"] == "none" and p["lookup_type"] != "none":
            return "db-none"
    g = f.get("git")
    if g and g.get("repo") is None and g.get("repository") is None:
        return "git-repo"
    return None


def file_effective(w, f, res):
    """effective configuration of a valid file with only residual options; 'reject' for documented contradictions"""
    p = f.get("price") or {"db_path": "none", "lookup_type": "none"}
    lookup = p["lookup_type"]
    before = res.get("price.before")
    if (before is not None) != (lookup == "given-time"):
        return "reject:before-vs-lookup"
    if before is not None and before not in BEFORE_OK:
        return "reject:bad-timestamp"
    if lookup != "none" and f.get("commodity") is None:
        return "reject:conversion-without-commodity"
    if f["strict"] and "equity" in f["export_targets"] and f["equity_account"] not in ACCOUNTS:
        return "reject:strict-equity-account"
    if f["strict"] and f.get("commodity") is not None and f["commodity"] not in COMMODITIES:
        return "reject:strict-commodity"

    def sel(k):
        v = f.get(k)
        if v is None:
            v = f.get("sel_global")
        return list(v) if v is not None else []
    if "input.file" in res:
        inp = {"k": "file", "path": at_cwd(w, res["input.file"])}
    else:
        st = "git" if "input.git.commit" in res else f["storage"]
        if st == "fs":
            fs = f.get("fs")
            if not fs:
                return "reject:fs-not-configured"
            d = fs["dir"] if fs.get("path") is None else fs["path"] + "/" + fs["dir"]
            sfx = fs["suffix"]
            inp = {"k": "fs", "dir": at_conf(w, d), "suffix": sfx[1:] if sfx.startswith(".") else sfx}
        else:
            g = f.get("git")
            if not g:
                return "reject:git-not-configured"
            repo = g["repo"] if g.get("repo") is not None else g["repository"]
            sfx = g["suffix"]
            inp = {"k": "git", "repo": at_conf(w, repo), "dir": g["dir"], "ext": sfx[1:] if sfx.startswith(".") else sfx}
            if "input.git.commit" in res:
                inp["commit"] = res["input.git.commit"]
            else:
                inp["ref"] = g["ref"]
    return {
        "strict": f["strict"], "audit": f["audit"], "reports": list(f["targets"]), "exports": list(f["export_targets"]),
        "sel": {"balance": sel("sel_balance"), "balgrp": sel("sel_balgrp"), "register": sel("sel_register"),
                "equity": sel("sel_equity")},
        "commodity": f.get("commodity"), "lookup": lookup, "before": before,
        "pricedb": (at_conf(w, p["db_path"]) if lookup != "none" else None),
        "group_by": f["group_by"], "input": inp}


def spec_effective(w, f, cli):
    """the documented semantics: 'usage' | 'reject:…' | effective dict"""
    r = clap_rejects(cli)
    if r:
        return "usage:" + r
    fi = file_invalid(f)
    if fi:
        return "reject:file-" + fi
    f2, res = with_cli(w, f, cli)
    fi = file_invalid(f2)
    if fi:
        return "reject:written-" + fi
    return file_effective(w, f2, res)


# ---------------------------------------------------------------------------------------------
# effective configuration -> expected witnesses

def selected(sel, acct):
    if not sel:
        return True
    for p in sel:
        try:
            if re.fullmatch(p, acct):
                return True
        except re.error:
            return False
    return False


def group_title(gb, d):
    iso = d.isocalendar()
    if gb == "year":
        return "%04d" % d.year
    if gb == "month":
        return "%04d-%02d" % (d.year, d.month)
    if gb == "date":
        return d.isoformat()
    if gb == "iso-week":
        return "%04d-W%02d" % (iso[0], iso[1])
    return "%04d-W%02d-%d" % (iso[0], iso[1], iso[2])


def simulate(w, eff, mode):
    """expected observation of a run with this effective configuration"""
    units = w.units_of(eff["input"])
    if not units:
        return {"rc": 1, "why": "input"}
    if eff["strict"] and any(u in DIRTY for u in units):
        return {"rc": 1, "why": "strict"}
    rates = None
    if eff["lookup"] != "none":
        pid = w.dbs.get(os.path.normpath(eff["pricedb"] or ""))
        if pid is None:
            return {"rc": 1, "why": "pricedb"}
        rates = RATES[pid]
    if mode == "files":
        names = eff["reports"] + eff["exports"]
        if len(set(names)) != len(names):
            return {"rc": 1, "why": "duplicate-target-file"}

    def convert(ti, amt, comm):
        """-> (amount in report commodity, commodity, rate or None)"""
        if rates is None or eff["commodity"] is None or comm == eff["commodity"]:
            return amt, comm, None
        rs = rates.get((comm, eff["commodity"]))
        if rs is None:
            return amt, comm, None
        if eff["lookup"] == "last-price":
            r = rs[2]
        elif eff["lookup"] == "txn-time":
            r = rs[ti]
        else:
            r = rs[BEFORE_OK[eff["before"]]]
        return amt * r, eff["commodity"], r

    posts = []
    for u in sorted(units):
        posts += unit_postings(u)
    ntxn = sum(3 if u in DIRTY else 2 for u in units)

    def balance_rows(sel, only_txn=None, conv=True):
        acc = {}
        for ti, a, amt, cm in posts:
            if only_txn is not None and ti not in only_txn:
                continue
            if not selected(sel, a):
                continue
            v, c2, _ = convert(ti, amt, cm) if conv else (amt, cm, None)
            acc[(a, c2)] = acc.get((a, c2), 0) + v
        return sorted([a, str(v), c] for (a, c), v in acc.items())

    blocks = []
    for r in eff["reports"]:
        if r == "balance":
            blocks.append({"t": "balance", "rows": balance_rows(eff["sel"]["balance"])})
        elif r == "balance-group":
            groups = {}
            for ti, d in enumerate(TXN_DATES):
                groups.setdefault(group_title(eff["group_by"], d), []).append(ti)
            g = []
            for title in sorted(groups):
                rows = balance_rows(eff["sel"]["balgrp"], only_txn=groups[title])
                if rows:
                    g.append([title, rows])
            blocks.append({"t": "balance-group", "groups": g})
        else:
            rows = []
            for ti, a, amt, cm in posts:
                if selected(eff["sel"]["register"], a):
                    v, c2, rate = convert(ti, amt, cm)
                    # a converted posting shows its own commodity, and the rate when it is the rate of that txn's time
                    rows.append([a, str(amt), cm if rate is not None else "",
                                 str(rate) if rate is not None and eff["lookup"] == "txn-time" else "", c2])
            # the running total of the last row of an account is its converted sum
            blocks.append({"t": "register", "rows": sorted(rows), "totals": balance_rows(eff["sel"]["register"])})
    exp = {"rc": 0, "audit": ntxn if eff["audit"] else None, "blocks": blocks}
    if not eff["reports"]:
        exp["audit"] = None          # the metadata block is written by `write_txt_reports` only (main.rs: skipped
                                     # when there is no report target)
    if mode == "files":
        exp["equity"] = None
        exp["identity"] = None
        for e in eff["exports"]:
            if e == "equity":
                rows = [r for r in balance_rows(eff["sel"]["equity"], conv=False) if r[1] != "0"]
                exp["equity"] = rows
            else:
                exp["identity"] = ntxn
    return exp


# ---------------------------------------------------------------------------------------------
# observation: decode the witnesses from what the binary printed / wrote

TITLES = {"BALANCE": "balance", "BALANCE GROUP": "balance-group", "REGISTER": "register"}
NUM = re.compile(r"^-?\d+(\.\d+)?$")


def parse_balance_rows(lines):
    rows = []
    for ln in lines:
        tok = ln.split()
        if len(tok) in (3, 4) and NUM.match(tok[0]) and NUM.match(tok[1]):
            acct = tok[-1]
            comm = tok[2] if len(tok) == 4 else ""
            if acct in LEAVES:
                rows.append([acct, common.dec_norm(tok[0]), comm])
    return sorted(rows)


def parse_block(kind, lines):
    if kind == "balance":
        body = []
        for ln in lines:
            if ln.startswith("====="):
                break
            body.append(ln)
        return {"t": kind, "rows": parse_balance_rows(body)}
    if kind == "balance-group":
        groups, cur, body, in_delta = [], None, [], False
        for i, ln in enumerate(lines):
            nxt = lines[i + 1] if i + 1 < len(lines) else ""
            if re.fullmatch(r"\d{4}(-\S+)?", ln.strip()) and nxt.startswith("---") and not ln.startswith(" "):
                if cur is not None:
                    groups.append([cur, parse_balance_rows(body)])
                cur, body, in_delta = ln.strip(), [], False
                continue
            if ln.startswith("====="):
                in_delta = True
                continue
            if not in_delta:
                body.append(ln)
        if cur is not None:
            groups.append([cur, parse_balance_rows(body)])
        return {"t": kind, "groups": sorted([g for g in groups if g[1]])}
    rows, last = [], {}
    for ln in lines:
        if not ln.startswith(" "):
            continue
        tok = ln.split()
        if len(tok) < 3 or tok[0] not in LEAVES or not NUM.match(tok[1]):
            continue
        i, conv, rate = 2, "", ""
        if not NUM.match(tok[i]):
            conv = tok[i]
            i += 1
            if i + 1 < len(tok) and tok[i] == "@":
                rate = common.dec_norm(tok[i + 1])
                i += 2
        total = tok[i] if i < len(tok) else "?"
        tcomm = tok[i + 1] if i + 1 < len(tok) else ""
        rows.append([tok[0], common.dec_norm(tok[1]), conv, rate, tcomm])
        last[tok[0]] = [tok[0], common.dec_norm(total) if NUM.match(total) else total, tcomm]
    return {"t": "register", "rows": sorted(rows), "totals": sorted(last.values())}


def parse_report_text(text):
    """-> (audit set size or None, [blocks]) from a text holding zero or more reports"""
    lines = text.split("\n")
    audit = None
    for i, ln in enumerate(lines):
        if ln.strip() == "Txn Set Checksum":
            for l2 in lines[i + 1:i + 4]:
                m = re.match(r"\s*Set size : (\d+)", l2)
                if m:
                    audit = int(m.group(1))
    blocks = []
    i = 0
    while i < len(lines):
        t = lines[i]
        if t in TITLES and i + 1 < len(lines) and lines[i + 1].startswith("---"):
            j = i + 2
            while j < len(lines) and not lines[j].startswith("####") and not lines[j].startswith("****") \
                    and not (lines[j] in TITLES and j + 1 < len(lines) and lines[j + 1].startswith("---")):
                j += 1
            blocks.append(parse_block(TITLES[t], lines[i + 2:j]))
            i = j
        else:
            i += 1
    return audit, blocks


PROGRESS = {"Balance Report": ("balance", "bal.txt"), "Balance Group Report": ("balance-group", "balgrp.txt"),
            "Register Report": ("register", "reg.txt"), "Equity Export": ("equity", "equity.txn"),
            "Identity Export": ("identity", "identity.txn")}


def observe(run, mode):
    """run = {"rc", "out", "files"} -> observation comparable with `simulate`"""
    if run["rc"] != 0:
        return {"rc": run["rc"]}
    if mode != "files":
        audit, blocks = parse_report_text(run["out"])
        return {"rc": 0, "audit": audit, "blocks": blocks}
    obs = {"rc": 0, "audit": None, "blocks": [], "equity": None, "identity": None}
    for ln in run["out"].split("\n"):
        m = re.match(r"\s*([A-Za-z ]+?) : (.*)$", ln)
        if not m or m.group(1) not in PROGRESS:
            continue
        kind, ext = PROGRESS[m.group(1)]
        text = run["files"].get("o." + ext)
        if text is None:
            obs["blocks"].append({"t": kind, "missing": True})
            continue
        if kind in ("balance", "balance-group", "register"):
            audit, blocks = parse_report_text(text)
            if audit is not None:
                obs["audit"] = audit
            obs["blocks"] += blocks if blocks else [{"t": kind, "unparsed": True}]
        elif kind == "equity":
            rows = []
            for l2 in text.split("\n"):
                tok = l2.split()
                if l2.startswith("   ") and len(tok) in (2, 3) and tok[0] in LEAVES and NUM.match(tok[1]):
                    rows.append([tok[0], common.dec_norm(tok[1]), tok[2] if len(tok) == 3 else ""])
            obs["equity"] = sorted(rows)
        else:
            obs["identity"] = len([l2 for l2 in text.split("\n") if re.match(r"\d{4}-\d\d-\d\d", l2)])
    return obs


def diff_obs(exp, obs):
    """None or (key, text)"""
    if exp["rc"] != obs["rc"]:
        return "rc", "exit status: expected %s (%s), got %s" % (exp["rc"], exp.get("why", ""), obs["rc"])
    if exp["rc"] != 0:
        return None
    if (exp["audit"] is None) != (obs["audit"] is None):
        return "audit", "audit block: expected %s, got %s" % (exp["audit"], obs["audit"])
    if exp["audit"] != obs["audit"]:
        return "input", "txn set size: expected %s, got %s" % (exp["audit"], obs["audit"])
    et = [b["t"] for b in exp["blocks"]]
    ot = [b["t"] for b in obs["blocks"]]
    if et != ot:
        return "reports", "reports: expected %s, got %s" % (et, ot)
    for eb, ob in zip(exp["blocks"], obs["blocks"]):
        if eb != ob:
            key = "rows"
            if eb["t"] == "balance-group" and "groups" in ob and [g[0] for g in eb["groups"]] != [g[0] for g in ob["groups"]]:
                key = "group-by"
            return key, "%s report: expected %s, got %s" % (eb["t"], json.dumps(eb)[:700], json.dumps(ob)[:700])
    for k in ("equity", "identity"):
        if k in exp and exp[k] != obs.get(k):
            return k, "%s export: expected %s, got %s" % (k, json.dumps(exp[k])[:500], json.dumps(obs.get(k))[:500])
    return None


# ---------------------------------------------------------------------------------------------
# generator pools

SELS = [[], ["e:.*"], ["a:.*"], ["a:cash"], ["e:food", "a:bank"], [".*"], ["x:.*"], ["e:f.*"], ["nomatch"],
        ["a:cash", "e:fuel"], [".*:.*a.*"]]
CLI_SELS = [s for s in SELS if s] + [[""], ["", "a:.*"], ["e:food", ""]]
FILE_FS = [{"path": None, "dir": "txns", "suffix": "txn"}, {"path": None, "dir": "txns", "suffix": ".txn"},
           {"path": None, "dir": "txns", "suffix": "jrnl"}, {"path": None, "dir": "txns", "suffix": ".jrnl"},
           {"path": None, "dir": WTOKEN + "/abs/fs2", "suffix": "txn"}, {"path": "base", "dir": "txns", "suffix": "txn"},
           {"path": WTOKEN + "/abs", "dir": "fs2", "suffix": ".jrnl"}, {"path": None, "dir": "txns", "suffix": "none"},
           {"path": None, "dir": "nodir", "suffix": "txn"}]
FILE_GIT = [{"repo": "repo1/.git", "repository": None, "ref": "main", "dir": "txns", "suffix": "txn"},
            {"repo": "repo1/.git", "repository": None, "ref": "side", "dir": "txns", "suffix": ".txn"},
            {"repo": None, "repository": "repo1/.git", "ref": "v1", "dir": "txns", "suffix": "txn"},
            {"repo": "repo1/.git", "repository": "norepo/.git", "ref": "main", "dir": "other", "suffix": "txn"},
            {"repo": "repo1/.git", "repository": None, "ref": "main", "dir": "txns", "suffix": "jrnl"},
            {"repo": WTOKEN + "/abs/repo2/.git", "repository": None, "ref": "main", "dir": "jd", "suffix": "txn"},
            {"repo": "repo1/.git", "repository": None, "ref": "nosuch", "dir": "txns", "suffix": "txn"}]
FILE_DB = ["p1.db", WTOKEN + "/abs/p3.db", "none", "nodb.db"]
CLI_DB = ["p1.db", WTOKEN + "/abs/p3.db", WTOKEN + "/conf/p1.db", "nodb.db"]
COMMS = ["EUR", "USD", "SEK"]
CLI_FILES = [WTOKEN + "/abs/single.txn", "j.txn", "nofile.txn", WTOKEN + "/conf/j.txn"]
CLI_FS = [("txns", "txn"), ("txns", ".txn"), ("txns", "jrnl"), (WTOKEN + "/abs/fs2", "txn"), (WTOKEN + "/conf/txns", ".jrnl"),
          ("nodir", "txn"), (WTOKEN + "/abs/fs2", ".jrnl")]
CLI_GIT = [("repo1/.git", "txns"), (WTOKEN + "/abs/repo2/.git", "txns"), (WTOKEN + "/abs/repo2/.git", "jd"),
           (WTOKEN + "/conf/repo1/.git", "other"), (WTOKEN + "/conf/repo1/.git", "txns"), ("norepo/.git", "txns")]
REFS = ["main", "side", "v1", "nosuch"]
TARGETS = [["balance"], ["register"], ["balance-group"], ["balance", "register"], ["register", "balance-group", "balance"],
           ["balance", "balance-group"], ["balance", "balance"], []]
XTARGETS = [[], [], ["equity"], ["identity"], ["equity", "identity"], ["identity", "equity"]]


def base_file():
    return {"strict": False, "audit": False, "storage": "fs",
            "fs": {"path": None, "dir": "txns", "suffix": "txn"},
            "git": {"repo": "repo1/.git", "repository": None, "ref": "main", "dir": "txns", "suffix": "txn"},
            "price": {"db_path": "p1.db", "lookup_type": "none"},
            "accounts": list(ACCOUNTS), "commodities": list(COMMODITIES), "permit_empty": False,
            "targets": ["balance"], "sel_global": None, "commodity": None,
            "sel_balance": None, "sel_balgrp": None, "sel_register": None,
            "group_by": "month", "export_targets": [], "equity_account": "Equity:Balance", "sel_equity": None}


def commits_for(w, repo_rel):
    """commit ids usable with a repository given as pool entry"""
    key = {"repo1/.git": "cwd/repo1", WTOKEN + "/abs/repo2/.git": "abs/repo2", WTOKEN + "/conf/repo1/.git": "conf/repo1",
           "FILE:repo1/.git": "conf/repo1"}.get(repo_rel)
    if key is None:
        return ["deadbeef"]
    out = []
    for label, sha in w.shas[key].items():
        out += [sha, sha[:8]]
    return out + ["deadbeef", "xyz"]


def rand_file(rng, w):
    f = base_file()
    f["strict"] = rng.random() < 0.12
    f["audit"] = rng.random() < 0.3
    f["storage"] = rng.choice(["fs", "fs", "git"])
    f["fs"] = copy.deepcopy(rng.choice(FILE_FS[:7])) if rng.random() < 0.9 else (copy.deepcopy(rng.choice(FILE_FS)) if rng.random() < 0.7 else None)
    f["git"] = copy.deepcopy(rng.choice(FILE_GIT[:6])) if rng.random() < 0.85 else (copy.deepcopy(rng.choice(FILE_GIT)) if rng.random() < 0.6 else None)
    r = rng.random()
    if r < 0.1:
        f["price"] = None
    else:
        db = rng.choice(FILE_DB[:2]) if rng.random() < 0.85 else rng.choice(FILE_DB)
        lt = rng.choice(LOOKUPS[:3]) if rng.random() < 0.9 else "given-time"
        if db == "none":
            lt = "none"
        f["price"] = {"db_path": db, "lookup_type": lt}
    f["targets"] = list(rng.choice(TARGETS[:6] if rng.random() < 0.9 else TARGETS))
    f["export_targets"] = list(rng.choice(XTARGETS))
    f["sel_global"] = list(rng.choice(SELS)) if rng.random() < 0.5 else None
    for k in ("sel_balance", "sel_balgrp", "sel_register", "sel_equity"):
        f[k] = list(rng.choice(SELS)) if rng.random() < 0.3 else None
    f["commodity"] = rng.choice(COMMS[:2] if rng.random() < 0.85 else COMMS) if rng.random() < 0.6 else None
    if f["price"] and f["price"]["lookup_type"] != "none" and f["commodity"] is None and rng.random() < 0.8:
        f["commodity"] = rng.choice(COMMS[:2])
    f["group_by"] = rng.choice(GROUP_BYS)
    f["equity_account"] = "Equity:Balance" if rng.random() < 0.9 else "Equity:Other"
    return f


def rand_input_opts(rng, w, f, shape=None):
    shape = shape or rng.choice(["nothing", "nothing", "file", "storage", "fs", "git-ref", "git-commit", "ref-only",
                                 "commit-only"])
    c = {}
    if shape == "file":
        c["input.file"] = rng.choice(CLI_FILES[:2] if rng.random() < 0.8 else CLI_FILES)
    elif shape == "storage":
        c["input.storage"] = rng.choice(["fs", "git"])
    elif shape == "fs":
        d, e = rng.choice(CLI_FS[:5] if rng.random() < 0.85 else CLI_FS)
        c["input.fs.dir"], c["input.fs.ext"] = d, e
    elif shape in ("git-ref", "git-commit"):
        r, d = rng.choice(CLI_GIT[:5] if rng.random() < 0.9 else CLI_GIT)
        c["input.git.repository"], c["input.git.dir"] = r, d
        if shape == "git-ref":
            c["input.git.ref"] = rng.choice(REFS[:3] if rng.random() < 0.9 else REFS)
        else:
            cs = commits_for(w, r)
            c["input.git.commit"] = rng.choice(cs[:-2] if rng.random() < 0.9 and len(cs) > 2 else cs)
    elif shape == "ref-only":
        c["input.git.ref"] = rng.choice(REFS[:3] if rng.random() < 0.9 else REFS)
    elif shape == "commit-only":
        g = f.get("git") or {}
        repo = g.get("repo") if g.get("repo") is not None else g.get("repository")
        cs = commits_for(w, "FILE:" + repo if repo == "repo1/.git" else (repo or ""))
        c["input.git.commit"] = rng.choice(cs[:-2] if rng.random() < 0.9 and len(cs) > 2 else cs)
    return c


def rand_cli(rng, w, f, p=0.3, shape=None):
    c = rand_input_opts(rng, w, f, shape)
    if rng.random() < p * 0.6:
        c["strict.mode"] = rng.random() < 0.3
    if rng.random() < p:
        c["audit.mode"] = rng.random() < 0.5
    if rng.random() < p:
        c["reports"] = list(rng.choice(TARGETS[:7]))
    if rng.random() < p:
        c["exports"] = list(rng.choice(XTARGETS[2:]))
    if rng.random() < p:
        c["accounts"] = list(rng.choice(CLI_SELS))
    if rng.random() < p:
        c["report.commodity"] = rng.choice(COMMS[:2] if rng.random() < 0.85 else COMMS)
    if rng.random() < p:
        c["pricedb"] = rng.choice(CLI_DB[:3] if rng.random() < 0.9 else CLI_DB)
    if rng.random() < p:
        c["price.lookup-type"] = rng.choice(LOOKUPS)
    if rng.random() < p:
        c["group-by"] = rng.choice(GROUP_BYS)
    # keep --price.before mostly consistent with the lookup type in effect
    lt = c.get("price.lookup-type", (f.get("price") or {}).get("lookup_type", "none"))
    if lt == "given-time":
        if rng.random() < 0.85:
            c["price.before"] = rng.choice(list(BEFORE_OK)) if rng.random() < 0.9 else BEFORE_BAD
    elif rng.random() < 0.04:
        c["price.before"] = rng.choice(list(BEFORE_OK))
    comm = c.get("report.commodity", f.get("commodity"))
    if lt != "none" and comm is None and rng.random() < 0.8:
        c["report.commodity"] = rng.choice(COMMS[:2])
    return c


def dedup_for_files(f, c):
    """file mode creates one file per target (create_new): no duplicate targets"""
    def ded(l):
        out = []
        for x in l:
            if x not in out:
                out.append(x)
        return out
    f["targets"] = ded(f["targets"])
    f["export_targets"] = ded(f["export_targets"])
    for k in ("reports", "exports"):
        if k in c:
            c[k] = ded(c[k])


# ---------------------------------------------------------------------------------------------

class C19(PropBase):
    id = "C19"
    needs_cli = True
    _budget = 8

    # -- cases
    def mk(self, kind, f, c, mode="console"):
        if mode == "files":
            dedup_for_files(f, c)
        return {"op": "cfg", "kind": kind, "file": f, "cli": c, "mode": mode}

    def boundary(self, rng, w, reps):
        out = []
        keyvals = {
            # key: (file setter, cli option, values)
            "strict": ("strict", "strict.mode", [False, True]),
            "audit": ("audit", "audit.mode", [False, True]),
            "reports": ("targets", "reports", TARGETS[:6]),
            "exports": ("export_targets", "exports", XTARGETS[2:]),
            "commodity": ("commodity", "report.commodity", COMMS),
            "group-by": ("group_by", "group-by", GROUP_BYS),
        }
        for _ in range(reps):
            for key, (fk, ck, vals) in keyvals.items():
                for cls in ("file-only", "cli-only", "both-equal", "both-different"):
                    f = base_file()
                    f["targets"] = ["balance", "balance-group", "register"]
                    c = {}
                    v1 = copy.deepcopy(rng.choice(vals))
                    v2 = copy.deepcopy(rng.choice([v for v in vals if v != v1]))
                    if key == "commodity":
                        f["price"] = {"db_path": "p1.db", "lookup_type": rng.choice(["last-price", "txn-time"])}
                        f["commodity"] = "EUR"
                    if cls == "file-only":
                        f[fk] = v1
                    elif cls == "cli-only":
                        c[ck] = v1
                        if key == "commodity":
                            f["commodity"] = None
                    elif cls == "both-equal":
                        f[fk], c[ck] = v1, copy.deepcopy(v1)
                    else:
                        f[fk], c[ck] = v1, v2
                    if key == "strict" and rng.random() < 0.5:
                        # an input without the undeclared account: strict mode is survivable
                        f["fs"]["suffix"] = "jrnl"
                    out.append(self.mk("key:%s:%s" % (key, cls), f, c, "files" if key == "exports" else "console"))
            # price file and lookup type
            for cls in ("file-only", "cli-only", "both-equal", "both-different"):
                f = base_file()
                f["targets"] = ["balance", "register"]
                f["commodity"] = rng.choice(["EUR", "USD"])
                c = {}
                lt = rng.choice(LOOKUPS[1:3])
                if cls == "file-only":
                    f["price"] = {"db_path": rng.choice(FILE_DB[:2]), "lookup_type": lt}
                elif cls == "cli-only":
                    f["price"] = rng.choice([None, {"db_path": "none", "lookup_type": "none"}])
                    c["pricedb"], c["price.lookup-type"] = rng.choice(CLI_DB[:3]), lt
                elif cls == "both-equal":
                    f["price"] = {"db_path": WTOKEN + "/abs/p3.db", "lookup_type": lt}
                    c["pricedb"], c["price.lookup-type"] = WTOKEN + "/abs/p3.db", lt
                else:
                    f["price"] = {"db_path": "p1.db", "lookup_type": lt}
                    if rng.random() < 0.6:
                        c["pricedb"] = rng.choice(CLI_DB[:2])
                    if rng.random() < 0.6 or "pricedb" not in c:
                        c["price.lookup-type"] = rng.choice([x for x in LOOKUPS[:3] if x != lt])
                out.append(self.mk("key:price:%s" % cls, f, c))
            # --price.before with / without given-time
            for cls in ("with-given-time-cli", "with-given-time-file", "without-given-time", "given-time-without-before",
                        "bad-timestamp"):
                f = base_file()
                f["targets"] = ["balance", "register"]
                f["commodity"] = rng.choice(["EUR", "USD"])
                f["price"] = {"db_path": "p1.db", "lookup_type": rng.choice(LOOKUPS[:3])}
                c = {}
                if cls == "with-given-time-cli":
                    c["price.lookup-type"] = "given-time"
                    c["price.before"] = rng.choice(list(BEFORE_OK))
                elif cls == "with-given-time-file":
                    f["price"]["lookup_type"] = "given-time"
                    c["price.before"] = rng.choice(list(BEFORE_OK))
                elif cls == "without-given-time":
                    c["price.before"] = rng.choice(list(BEFORE_OK))
                    if rng.random() < 0.5:
                        c["price.lookup-type"] = rng.choice(LOOKUPS[:3])
                elif cls == "given-time-without-before":
                    if rng.random() < 0.5:
                        c["price.lookup-type"] = "given-time"
                    else:
                        f["price"]["lookup_type"] = "given-time"
                else:
                    c["price.lookup-type"] = "given-time"
                    c["price.before"] = BEFORE_BAD
                out.append(self.mk("before:" + cls, f, c))
            # selectors
            for cls in ("per-report-vs-global", "global-only", "cli-over-all", "empty", "empty-mixed", "cli-equal"):
                f = base_file()
                f["targets"] = ["balance", "register", "balance-group"]
                f["export_targets"] = ["equity"]
                c = {}
                f["sel_global"] = list(rng.choice(SELS[1:]))
                if cls != "global-only":
                    for k in rng.sample(["sel_balance", "sel_balgrp", "sel_register", "sel_equity"], rng.randrange(1, 5)):
                        f[k] = list(rng.choice(SELS))
                if cls == "cli-over-all":
                    c["accounts"] = list(rng.choice(SELS[1:]))
                elif cls == "empty":
                    c["accounts"] = [""]
                elif cls == "empty-mixed":
                    c["accounts"] = rng.choice([["", "a:.*"], ["e:food", ""], ["", ""]])
                elif cls == "cli-equal":
                    c["accounts"] = list(f["sel_global"])
                if rng.random() < 0.3:
                    f["audit"] = True
                out.append(self.mk("sel:" + cls, f, c, rng.choice(["console", "files"])))
            # inputs: every shape, `.txn` vs `txn`
            for shape in ("nothing", "file", "storage", "fs", "git-ref", "git-commit", "ref-only", "commit-only"):
                f = base_file()
                f["targets"] = ["balance"]
                f["storage"] = rng.choice(["fs", "git"])
                f["fs"] = copy.deepcopy(rng.choice(FILE_FS[:7]))
                f["git"] = copy.deepcopy(rng.choice(FILE_GIT[:6]))
                if rng.random() < 0.15:
                    f[rng.choice(["fs", "git"])] = None
                c = rand_input_opts(rng, w, f, shape)
                out.append(self.mk("input:" + shape, f, c))
            for cls in ("file-dot", "cli-dot", "both-dot", "git-file-dot"):
                f = base_file()
                c = {}
                if cls in ("file-dot", "both-dot"):
                    f["fs"]["suffix"] = rng.choice([".txn", ".jrnl"])
                if cls in ("cli-dot", "both-dot"):
                    c["input.fs.dir"], c["input.fs.ext"] = rng.choice(["txns", WTOKEN + "/abs/fs2"]), rng.choice([".txn", ".jrnl"])
                if cls == "git-file-dot":
                    f["storage"] = "git"
                    f["git"]["suffix"] = ".txn"
                    if rng.random() < 0.5:
                        c["input.git.ref"] = "side"
                out.append(self.mk("suffix:" + cls, f, c))
            # rejected combinations
            rej = [
                ("file+storage", {"input.file": "j.txn", "input.storage": "fs"}),
                ("file+fs", {"input.file": "j.txn", "input.fs.dir": "txns", "input.fs.ext": "txn"}),
                ("file+git-ref", {"input.file": "j.txn", "input.git.ref": "main"}),
                ("file+git-commit", {"input.file": "j.txn", "input.git.commit": "abcdef12"}),
                ("storage+fs", {"input.storage": "fs", "input.fs.dir": "txns", "input.fs.ext": "txn"}),
                ("storage+git-ref", {"input.storage": "git", "input.git.ref": "main"}),
                ("storage+git-repo", {"input.storage": "git", "input.git.repository": "repo1/.git", "input.git.dir": "txns",
                                      "input.git.ref": "main"}),
                ("fs+git-ref", {"input.fs.dir": "txns", "input.fs.ext": "txn", "input.git.ref": "main"}),
                ("fs+git-repo", {"input.fs.dir": "txns", "input.fs.ext": "txn", "input.git.repository": "repo1/.git",
                                 "input.git.dir": "txns", "input.git.ref": "main"}),
                ("fs-ext+git-ref", {"input.fs.ext": "jrnl", "input.git.ref": "main"}),
                ("fs-ext+git-commit", {"input.fs.ext": "jrnl", "input.git.commit": w.sha("conf/repo1", "c1", 8)}),
                ("fs-ext+git-repo", {"input.fs.ext": "jrnl", "input.git.repository": "repo1/.git", "input.git.dir": "txns",
                                     "input.git.ref": "main"}),
                ("fs-dir-only", {"input.fs.dir": "txns"}),
                ("fs-ext-only", {"input.fs.ext": "txn"}),
                ("git-repo-no-dir", {"input.git.repository": "repo1/.git", "input.git.ref": "main"}),
                ("git-repo-no-rev", {"input.git.repository": "repo1/.git", "input.git.dir": "txns"}),
                ("git-dir-only", {"input.git.dir": "txns"}),
                ("git-dir+ref", {"input.git.dir": "txns", "input.git.ref": "main"}),
                ("git-ref+commit", {"input.git.ref": "main", "input.git.commit": "abcdef12"}),
                ("bad-storage", {"input.storage": "zip"}),
                ("bad-report", {"reports": ["balance", "bogus"]}),
                ("bad-export", {"exports": ["csv"]}),
                ("bad-group-by", {"group-by": "week"}),
                ("bad-lookup", {"price.lookup-type": "latest"}),
                ("before-without-given-time", {"price.before": "2024-01-20"}),
                ("conversion-without-commodity", {"price.lookup-type": "last-price"}),
                ("strict-unknown-commodity", {"strict.mode": True, "report.commodity": "SEK", "input.fs.dir": "txns",
                                              "input.fs.ext": "jrnl"}),
                ("strict-equity-account", {"strict.mode": True, "exports": ["equity"], "input.fs.dir": "txns",
                                           "input.fs.ext": "jrnl"}),
                ("storage-git-not-configured", {"input.storage": "git"}),
                ("ref-git-not-configured", {"input.git.ref": "main"}),
            ]
            for name, c in rej:
                f = base_file()
                if name == "strict-equity-account":
                    f["equity_account"] = "Equity:Other"
                if name.endswith("git-not-configured"):
                    f["git"] = None
                extra = rand_cli(rng, w, f, 0.1, shape="nothing") if rng.random() < 0.3 else {}
                for k in ("price.before", "price.lookup-type", "report.commodity", "strict.mode", "exports", "pricedb"):
                    extra.pop(k, None)
                cc = dict(extra)
                cc.update(c)
                out.append(self.mk("reject:" + name, f, cc, "files" if name == "strict-equity-account" else "console"))
            # configuration files rejected by themselves, whatever the options
            for name in ("storage", "targets", "export-targets", "group-by", "lookup-type", "db-none", "git-repo"):
                f = base_file()
                c = {}
                if name == "storage":
                    f["storage"] = "zip"
                    c = rng.choice([{}, {"input.storage": "fs"}, {"input.file": "j.txn"}])
                elif name == "targets":
                    f["targets"] = ["balance", "bogus"]
                    c = rng.choice([{}, {"reports": ["balance"]}])
                elif name == "export-targets":
                    f["export_targets"] = ["csv"]
                    c = rng.choice([{}, {"exports": ["identity"]}])
                elif name == "group-by":
                    f["group_by"] = "week"
                    c = rng.choice([{}, {"group-by": "year"}])
                elif name == "lookup-type":
                    f["price"]["lookup_type"] = "latest"
                    c = rng.choice([{}, {"price.lookup-type": "none"}])
                elif name == "db-none":
                    f["price"] = {"db_path": "none", "lookup_type": "last-price"}
                    f["commodity"] = "EUR"
                    c = rng.choice([{}, {"pricedb": "p1.db"}, {"price.lookup-type": "none"}])
                else:
                    f["git"] = {"repo": None, "repository": None, "ref": "main", "dir": "txns", "suffix": "txn"}
                out.append(self.mk("file-invalid:" + name, f, c))
            # the shadowed file value must not matter (F23) – and the other shadowed values neither
            f = base_file()
            f["commodity"] = "SEK"
            f["fs"]["suffix"] = "jrnl"
            f["price"] = {"db_path": "p1.db", "lookup_type": rng.choice(LOOKUPS[:3])}
            out.append(self.mk("shadowed:commodity-strict", f, {"strict.mode": True, "report.commodity": rng.choice(["EUR", "USD"])}))
            f = base_file()
            f["price"] = {"db_path": "nodb.db", "lookup_type": "last-price"}
            f["commodity"] = "EUR"
            out.append(self.mk("shadowed:pricedb", f, {"pricedb": rng.choice(CLI_DB[:3])}))
            f = base_file()
            f["fs"] = copy.deepcopy(FILE_FS[8])
            out.append(self.mk("shadowed:fs-dir", f, {"input.fs.dir": "txns", "input.fs.ext": "txn"}))
        return out

    def clap_grid(self, rng, w):
        """every present/absent combination of the eight input options (contract test of the clap attributes)"""
        vals = {"input.file": "j.txn", "input.storage": "git", "input.fs.dir": "txns", "input.fs.ext": "jrnl",
                "input.git.repository": WTOKEN + "/conf/repo1/.git", "input.git.ref": "side",
                "input.git.commit": w.sha("conf/repo1", "c1", 10), "input.git.dir": "other"}
        out = []
        for bits in itertools.product([False, True], repeat=len(INPUT_OPTS)):
            c = {k: vals[k] for k, b in zip(INPUT_OPTS, bits) if b}
            out.append(self.mk("clap-grid", base_file(), c))
        return out

    def gen(self, rng, tier, focus=None):
        w = world()
        out = []
        if focus is None:
            out += self.clap_grid(rng, w)
            out += self.boundary(rng, w, 1 if tier == "quick" else 12)
            n = 700 if tier == "quick" else 9000
        else:
            out += self.boundary(rng, w, 1)
            n = 60
        for _ in range(n):
            f = rand_file(rng, w)
            c = rand_cli(rng, w, f, rng.choice([0.15, 0.3, 0.5]))
            mode = "files" if (rng.random() < 0.2 or (("exports" in c or f["export_targets"]) and rng.random() < 0.5)) else "console"
            if rng.random() < 0.04:
                # an extra input option: most combinations are usage errors
                c[rng.choice(INPUT_OPTS)] = rng.choice(["fs", "txns", "main", "j.txn"])
            out.append(self.mk("random", f, c, mode))
        return out

    # -- running
    def impl_case(self, case):
        return {k: v for k, v in case.items() if k not in ("corpus_file", "_min")}

    def model_case(self, case):
        w = world()
        cfg_dir, cwd = w.conf, w.cwd
        dbs = set()
        for p in FILE_DB + CLI_DB:
            p = w.sub(p)
            for cand in (p if is_abs(p) else cwd + "/" + p, p if is_abs(p) else cfg_dir + "/" + p):
                if os.path.normpath(cand) in w.dbs:
                    dbs.add(cand)
        return {"op": "cfg", "env": {"cwd": cwd, "cfg_dir": cfg_dir, "ts_ok": sorted(BEFORE_OK), "db_ok": sorted(dbs)},
                "file": w.sub(case["file"]), "cli": w.sub(case["cli"])}

    def run_one(self, w, f, cli, mode, tag):
        n = "%s-%d" % (tag, next(w.counter))
        cfg = os.path.join(w.conf, "t-%d-%s.toml" % (os.getpid(), n))
        with open(cfg, "w") as fh:
            fh.write(render_toml(f))
        args = [common.TK_CLI, "--config", cfg] + cli_args(cli)
        outdir = None
        if mode == "files":
            outdir = os.path.join(w.run_dir, "out-" + n)
            os.makedirs(outdir)
            args += ["--output.dir", outdir, "--output.prefix", "o"]
        env = dict(os.environ)
        env["RUST_BACKTRACE"] = "0"
        rc, out, err = -9, "", "timeout"
        for attempt in range(3):
            # the sandbox clock is unreliable and the machine shared: a timeout is retried, then inconclusive
            if outdir and attempt:
                shutil.rmtree(outdir, ignore_errors=True)
                os.makedirs(outdir)
            try:
                p = subprocess.run(args, cwd=w.cwd, stdout=subprocess.PIPE, stderr=subprocess.PIPE, env=env,
                                   timeout=120 * (attempt + 1))
                rc, out, err = p.returncode, p.stdout.decode("utf-8", "replace"), p.stderr.decode("utf-8", "replace")
                break
            except subprocess.TimeoutExpired:
                continue
        files = {}
        if outdir:
            for name in sorted(os.listdir(outdir)):
                files[name] = open(os.path.join(outdir, name), encoding="utf-8", errors="replace").read()
            out = out.replace(outdir, "<OUT>")
            shutil.rmtree(outdir, ignore_errors=True)
        os.remove(cfg)
        return {"rc": rc, "out": out, "files": files, "err": err[-300:].replace(cfg, "<CFG>")}

    def run_case(self, case):
        w = world()
        f, cli, mode = w.sub(case["file"]), w.sub(case["cli"]), case.get("mode", "console")
        r1 = self.run_one(w, f, cli, mode, "a")
        ans = {"r": "rc%d" % r1["rc"] if r1["rc"] != -9 else "TIMEOUT", "run": r1, "equiv": None}
        if clap_rejects(cli) is None and file_invalid(f) is None:
            f2, res = with_cli(w, f, cli)
            ans["equiv"] = self.run_one(w, f2, res, mode, "b")
            ans["equiv_cli"] = res
        return ans

    def run_impl(self, impl_cases):
        if not impl_cases:
            return []
        with ThreadPoolExecutor(max_workers=JOBS) as ex:
            return list(ex.map(self.run_case, impl_cases))

    # -- judgement
    def compare(self, case, impl, model):
        w = world()
        mr = model.get("r")
        if mr == "UNDEF":
            return "skip"
        if mr == "BADCASE":
            return "driver problem: %s" % model.get("msg")
        mode = case.get("mode", "console")
        if impl["run"]["rc"] == -9:
            return "skip"           # the run did not finish in time: inconclusive
        obs = observe(impl["run"], mode)
        if mr == "ERR":
            want = 2 if model.get("stage") == "clap" else 1
            if obs["rc"] != want:
                return "model: rejected at stage %s (exit %d), implementation exit %d (%s)" % (
                    model.get("stage"), want, obs["rc"], impl["run"]["err"][-160:])
            return None
        exp = simulate(w, model["v"], mode)
        d = diff_obs(exp, obs)
        if d:
            return "witnesses of the model's effective configuration differ: %s; stderr: %s" % (d[1], impl["run"]["err"][-160:])
        return None

    def oracle(self, case, impl):
        w = world()
        f, cli, mode = w.sub(case["file"]), w.sub(case["cli"]), case.get("mode", "console")
        run = impl["run"]
        if run["rc"] == -9 or (impl.get("equiv") or {}).get("rc") == -9:
            return None             # a run did not finish in time (three attempts): inconclusive
        if run["rc"] not in (0, 1, 2):
            return {"sig": "crash", "what": "exit status %s: %s" % (run["rc"], run["err"])}
        self.remember(case)
        # (a) the run with the options equals the run with the values written into the file
        eq = impl.get("equiv")
        if eq is not None:
            if (run["rc"], run["out"], run["files"]) != (eq["rc"], eq["out"], eq["files"]):
                o1, o2 = observe(run, mode), observe(eq, mode)
                key = "output-text"
                if o1["rc"] != o2["rc"]:
                    key = "rc"
                elif o1["rc"] == 0:
                    d = diff_obs(dict(o2, rc=0), o1)
                    if d:
                        key = d[0]
                opts = sorted(k for k, v in cli.items() if v is not None and k not in RESIDUAL)
                if not case.get("_min") and self._budget > 0:
                    # name the options that are needed for the difference (first few failures of a run only)
                    self._budget -= 1
                    small = self.shrink({"case": case, "oracle": {"sig": "override-equiv:" + key}})["case"]
                    opts = sorted(k for k, v in small["cli"].items() if v is not None)
                    key = key + ":" + "+".join(opts)
                return {"sig": "override-equiv:" + key,
                        "what": "the run with the options %s differs from the run with their values written into the "
                                "configuration file (exit %d vs %d)" % (opts, run["rc"], eq["rc"]),
                        "with_options": {"rc": run["rc"], "stdout": run["out"][:1500], "stderr": run["err"]},
                        "written_into_file": {"rc": eq["rc"], "stdout": eq["out"][:1500], "stderr": eq["err"],
                                              "file": render_toml(with_cli(w, f, cli)[0]), "options": impl.get("equiv_cli")}}
        # (b) the documented overlay, computed here, predicts what is visible
        spec = spec_effective(w, f, cli)
        obs = observe(run, mode)
        if isinstance(spec, str):
            if obs["rc"] == 0:
                return {"sig": "accepted:" + spec.split(":")[0] + ":" + spec.split(":")[1],
                        "what": "a contradictory combination was accepted (%s)" % spec, "stdout": run["out"][:800]}
            return None
        exp = simulate(w, spec, mode)
        d = diff_obs(exp, obs)
        if d:
            return {"sig": "documented-overlay:" + d[0],
                    "what": "the run does not show the documented effective configuration: %s" % d[1],
                    "effective": spec, "stderr": run["err"]}
        return None

    def shrink(self, failure):
        """greedy: drop options, then reset file keys to the base file, while the same kind of oracle failure remains"""
        case = copy.deepcopy(failure["case"])
        cls = ":".join(failure["oracle"]["sig"].split(":")[:2])

        def fails(cand):
            cand = dict(cand, _min=True)
            o = self.oracle(cand, self.run_case(self.impl_case(cand)))
            return o is not None and ":".join(o["sig"].split(":")[:2]) == cls
        for k in list(case["cli"]):
            cand = copy.deepcopy(case)
            del cand["cli"][k]
            if fails(cand):
                case = cand
        base = base_file()
        for k in list(case["file"]):
            if case["file"][k] != base[k]:
                cand = copy.deepcopy(case)
                cand["file"][k] = copy.deepcopy(base[k])
                if fails(cand):
                    case = cand
        out = dict(failure)
        out["case"] = case
        if "impl" in failure:
            out["impl"] = self.run_case(self.impl_case(case))
            out["oracle"] = self.oracle(dict(case, _min=True), out["impl"]) or failure["oracle"]
        return out

    def nontrivial(self, case, impl):
        c = {k: v for k, v in case["cli"].items() if v is not None}
        return len(c) > 0

    def sample(self, case):
        return {"kind": case.get("kind"), "mode": case.get("mode"), "cli": case.get("cli"),
                "file": {k: v for k, v in case.get("file", {}).items() if k not in ("accounts", "commodities")}}

    def rule(self):
        return ("(tackler.toml, option set) pairs on the probe world (11 journal files in three directory trees, three "
                "git repositories with branches/tag/two commits, three price files; every journal unit k has weight 2^k so "
                "that every figure identifies the set of loaded files): boundary classes = all 256 presence combinations of the eight input options, each overridable key x {file "
                "only, cli only, both equal, both different}, price file/lookup type, --price.before with/without "
                "given-time, per-report vs global vs command-line selectors incl. the documented empty selector, all 8 "
                "input shapes, '.txn' vs 'txn', every rejected combination, configuration files rejected by themselves, "
                "shadowed file values; then random files x random option subsets (p in {0.15,0.3,0.5} per option), 20% "
                "with --output.dir (reports and exports read back from the files). non-trivial = at least one option "
                "present; distinct = sha256 of the case")

    def trusted_base(self):
        return super().trusted_base() + [
            "the C19 tie runs the real binary (.build/cargo/debug/tackler, rebuilt from the tree under test); "
            "gen/c19.py: TOML writer, witness parsers of the three text reports / equity / identity exports, and the "
            "witness predictor `simulate` (sums of 2^k weights, a 3x3 price table, python `re.fullmatch` for the selector pool)",
            "not modelled: TOML and clap decoding themselves (contract-tested by every case: the model is given the "
            "values python wrote, the binary decodes them), the timestamp grammar of --price.before and the price-file "
            "parser (Env.tsOk / Env.dbOk are supplied per run for the pool values), identifier validity (model answers "
            "UNDEF outside ASCII-letter names)"]

    def assumptions(self):
        return ["Env: the working directory is absolute; reading the price file \"\" fails (hypotheses hcwd/hdb of override_equiv)",
                "override_equiv is stated for option sets clap accepts and configuration files Config::from accepts; "
                "for the others `contradictions` shows the run is rejected",
                "the model is the tree with fixes F15, F23, F24, F25 applied (fixes/*.diff)"]


PROP = C19()

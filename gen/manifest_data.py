HOOK_COMMITS = ["032f8f9"]
NOTES = ("All checks: bin/check <id>. Known findings: known_findings.jsonl. Lean obligations per property: obligations.json. "
         "The repository carries 'fix:' commits for findings F1, F2 (see DESIGN.md section 7).")
NOT_APPLICABLE = {}
CLAIMED = {
 "C01": {
  "text": "Proof: 12 Lean theorems (accept_balanced, foreign_posting_priced, implicit_last, six rejection classes, journal all-or-nothing) "
          "over the transliterated acceptor, for all journals/settings; the model is tied to the code by running acceptor model and "
          "real parser on the same generated journals (AST vs rendered text) and comparing every accepted posting field; an independent "
          "exact-arithmetic oracle re-checks balancedness on the implementation's output.",
  "note": "Trusted: Lean kernel + 3 standard axioms; hand-written model tied by correspondence; rust_decimal arithmetic outside the exact "
          "domain is not modelled (known finding F17); text grammar not yet modelled (AST-level tie).",
 },
}

HOOK_COMMITS = ["032f8f9", "22db371", "28945e3"]
NOTES = ("All checks: bin/check <id>. Known findings: known_findings.jsonl. Lean obligations per property: obligations.json. "
         "The repository carries 'fix:' commits for findings F1, F2 (see DESIGN.md section 7).")
NOT_APPLICABLE = {}
# claimed checks live in gen/manifest/Cxx.json (one file per property)
CLAIMED = {}

"""C08 — git storage loads exactly the selected commit's journal files.

A case = (generated repository history, commit of it, selector form, dir, ext).  The history is part of the
case (a replay rebuilds the repository); repositories are built with the `git` CLI under .build/tmp/c08,
deterministically (fixed identities and dates), so commit ids are a function of the history.

impl  : harness op `git` (git_to_txns on the repository + get_paths_by_ext/paths_to_txns on `git archive` of the commit)
model : Lean op `gitsel` on `git ls-tree -r -t` of the commit (gitSelect/gitLoad/fsSelect of Model/Select.lean)
oracle: independent of the model — the generator's own record of the tree at that commit and a direct python
        reading of the property ("files under dir by path components with the real extension ext")."""
import hashlib
import json
import os
import shutil
import subprocess
import threading

import common
from propbase import PropBase, model_cfg

ROOT = os.path.join(common.BUILD, "tmp", "c08")
BASE_DATE = 1700000000

GIT_ENV = {
    "GIT_CONFIG_NOSYSTEM": "1", "GIT_CONFIG_GLOBAL": "/dev/null", "GIT_CONFIG_SYSTEM": "/dev/null",
    "GIT_AUTHOR_NAME": "gen", "GIT_AUTHOR_EMAIL": "gen@example.org",
    "GIT_COMMITTER_NAME": "gen", "GIT_COMMITTER_EMAIL": "gen@example.org",
    "GIT_TERMINAL_PROMPT": "0", "LC_ALL": "C", "TZ": "UTC", "GIT_PAGER": "cat",
}


def git(cwd, *args, date=None, inp=None, check=True):
    e = dict(os.environ)
    e.update(GIT_ENV)
    e["HOME"] = ROOT
    if date is not None:
        d = "%d +0000" % date
        e["GIT_AUTHOR_DATE"] = d
        e["GIT_COMMITTER_DATE"] = d
    p = subprocess.run(["git"] + list(args), cwd=cwd, env=e, input=inp, stdout=subprocess.PIPE, stderr=subprocess.PIPE)
    if check and p.returncode != 0:
        raise RuntimeError("git %s failed in %s: %s" % (" ".join(args), cwd, p.stderr.decode("utf-8", "replace")[-500:]))
    return p.stdout


# ---------------------------------------------------------------------------------------------
# file contents: a function of (path, tag, kind) so that a history stores no text

TS_POOL = [(2024, 1, 1, 0), (2024, 1, 1, 12), (2024, 2, 29, 0), (2023, 12, 31, 23)]


def journal_ast(tag):
    """the transactions of journal version `tag` (description = f<tag>|<i>: recognisable; the text does not
    depend on the path, so a rename keeps the blob)"""
    n = 1 + tag % 2
    out = []
    for i in range(n):
        h = int(hashlib.sha256(("%d|%d" % (tag, i)).encode()).hexdigest()[:8], 16)
        y, mo, d, hh = TS_POOL[h % len(TS_POOL)]
        style = (h >> 4) % 2
        if style == 0 and hh == 0:
            text = "%04d-%02d-%02d" % (y, mo, d)
        else:
            text = "%04d-%02d-%02dT%02d:00:00Z" % (y, mo, d, hh)
        ns = common.civil_to_ns(y, mo, d, hh, 0, 0, 0, 0)
        amt = str(1 + (h >> 8) % 97)
        if (h >> 16) % 3 == 0:
            amt += ".%02d" % ((h >> 20) % 100)
        t = {"ts": {"ns": str(ns), "off": 0, "text": text}, "code": None, "desc": "f%d|%d" % (tag, i),
             "uuid": None, "loc": None, "tags": None, "comments": None,
             "posts": [{"acct": "e:" + ("x" if h % 2 else "y"), "amount": amt, "unit": None, "comment": None}],
             "last": {"acct": "a:cash", "comment": None}}
        out.append(t)
    return out


def content(ent):
    k = ent["k"]
    if k == "journal":
        return common.render_journal(journal_ast(ent["tag"])).encode("utf-8")
    if k == "bad":
        # looks like a journal, is none: loading it fails the whole load
        return ("2024-01-01 'bad f%d\n e:x  1\n a:cash  2\n" % ent["tag"]).encode("utf-8")
    if k == "bin":
        return b"\xff\xfe\x00binary %d\n" % ent["tag"]
    return ("not a journal: version %d\n" % ent["tag"]).encode("utf-8")


# ---------------------------------------------------------------------------------------------
# the property read directly (python): which files of a tree state are selected

def dir_parts(d):
    """components of a clean directory setting, or None when the setting is not a plain repository path"""
    segs = d.split("/")
    if d.startswith("/") or segs[0] == "." or ".." in segs:
        return None
    return [x for x in segs if x not in ("", ".")]


def real_ext(name):
    if name == "..":
        return None
    i = name.rfind(".")
    if i <= 0:
        return None
    return name[i + 1:]


def under(parts, path):
    pp = path.split("/")
    return pp[:len(parts)] == parts


def norm_suffix(ext):
    return ext[1:] if ext.startswith(".") else ext


# ---------------------------------------------------------------------------------------------
# history generation

def gen_names(rng):
    d = rng.choice(["txns", "txns", "journal", "data/txns", "a/b/c", "t", "txns.d", "my txns", "bücher"])
    e = rng.choice(["txn", "txn", "txn", "journal", "t", "TXN", "tx-n"])
    return d, e


def near_miss_paths(d, e):
    """(path, class) of files that must NOT be selected by (d, e) although they share a prefix/suffix"""
    parent = d.rsplit("/", 1)[0] + "/" if "/" in d else ""
    base = d.rsplit("/", 1)[-1]
    return [
        (d + "2/b." + e, "sibling-dir-prefix"),
        (d + "foo." + e, "file-sharing-dir-prefix"),
        (d + "/c" + e, "no-dot-suffix"),
        (d + "/d.no" + e, "longer-extension"),
        (d + "/." + e, "hidden-no-extension"),
        (d + "/y." + e + ".bak", "extension-in-the-middle"),
        (d + "/z." + (e.upper() if e != e.upper() else e.lower()), "other-case"),
        ("other/f." + e, "elsewhere"),
        (d + "/" + e, "name-is-extension"),
        (d + "/dir." + e + "/g.dat", "directory-with-extension"),
        (parent + "a" + base + "/i." + e, "dir-sharing-suffix"),
        (d[:-1] + "/j." + e if len(base) > 1 else "q/j." + e, "shorter-dir-name"),
        ("x/" + d + "/k." + e, "dir-deeper-elsewhere"),
        (d + "/m." + e + "x", "extension-prefix"),
        (d + "/n.", "empty-extension"),
    ]


def selected_paths(d, e):
    return [
        (d + "/a." + e, "plain"),
        (d + "/sub/deep/e." + e, "nested"),
        (d + "/.h." + e, "hidden-with-extension"),
        (d + "/x." + e, "executable"),
        (d + "/dir." + e + "/h." + e, "inside-dir-with-extension"),
        (d + "/two.dots." + e, "two-dots"),
        (d + "/sub/b." + e, "nested-1"),
        (d + "/é ü." + e, "non-ascii-space"),
    ]


def gen_history(rng, opts=None):
    """history spec: steps on two branches + tags + a dirty work tree/index at the end"""
    opts = opts or {}
    d, e = opts.get("names") or gen_names(rng)
    nsteps = opts.get("nsteps") or rng.randrange(2, 7)
    fork = rng.randrange(0, max(1, nsteps - 1))
    steps = []
    state = {"main": {}, "side": None}
    tagno = [0]
    allow_links = opts.get("links", rng.random() < 0.3)

    def new_tag():
        tagno[0] += 1
        return tagno[0]

    def free(st, path):
        """may `path` become a file: no other file is above or below it"""
        return not any(q != path and (q.startswith(path + "/") or path.startswith(q + "/")) for q in st)

    def put(st, ops, path, k="journal", mode="644"):
        if not free(st, path) or (path in st and st[path]["k"] == "link"):
            return
        ent = {"k": k, "tag": new_tag(), "mode": mode}
        st[path] = ent
        ops.append({"o": "put", "path": path, "k": k, "tag": ent["tag"], "mode": mode})

    sel = selected_paths(d, e)
    nm = near_miss_paths(d, e)
    for i in range(nsteps):
        br = "main" if i <= fork or rng.random() < 0.5 else "side"
        if br == "side" and state["side"] is None:
            state["side"] = {p: dict(v) for p, v in state["fork"].items()}
        st = state[br]
        ops = []
        if i == 0:
            put(st, ops, sel[0][0])
            put(st, ops, "README.md", k="junk")
            for p, _ in rng.sample(nm, rng.randrange(3, len(nm) + 1)):
                put(st, ops, p, k=rng.choice(["journal", "journal", "bad", "junk"]))
            for p, c in rng.sample(sel[1:], rng.randrange(1, len(sel))):
                put(st, ops, p, mode="755" if c == "executable" else "644")
        else:
            for _ in range(rng.randrange(1, 5)):
                r = rng.random()
                files = sorted(p for p, v in st.items() if v["k"] not in ("link", "gitlink"))
                if r < 0.3:
                    p, c = rng.choice(sel)
                    put(st, ops, p, mode="755" if c == "executable" or rng.random() < 0.1 else "644")
                elif r < 0.5:
                    p, _ = rng.choice(nm)
                    put(st, ops, p, k=rng.choice(["journal", "journal", "bad", "junk", "bin"]),
                        mode="755" if rng.random() < 0.15 else "644")
                elif r < 0.65 and files:
                    p = rng.choice(files)
                    del st[p]
                    ops.append({"o": "rm", "path": p})
                elif r < 0.85 and files:
                    # rename: into / out of the directory, or to a near-miss name
                    p = rng.choice(files)
                    q = rng.choice([x for x, _ in sel + nm] + [d + "/moved%d." % i + e, "away/moved%d." % i + e])
                    if q not in st and free(st, q):
                        ent = st.pop(p)
                        st[q] = ent
                        ops.append({"o": "mv", "from": p, "to": q})
                elif files:
                    p = rng.choice(files)
                    st[p] = dict(st[p])
                    st[p]["mode"] = "755" if st[p]["mode"] == "644" else "644"
                    ops.append({"o": "chmod", "path": p, "mode": st[p]["mode"]})
            if rng.random() < 0.3:
                # a byte-identical copy of a journal file under another selected name (same blob id, two files):
                # both are journal files of the commit, both are loaded
                srcs = sorted(p for p, v in st.items() if v["k"] == "journal")
                dsts = [p for p, c in sel if p not in st and free(st, p)]
                if srcs and dsts:
                    s_, q = rng.choice(srcs), rng.choice(dsts)
                    st[q] = {"k": "journal", "tag": st[s_]["tag"], "mode": "644"}
                    ops.append({"o": "put", "path": q, "k": "journal", "tag": st[s_]["tag"], "mode": "644"})
            if rng.random() < 0.12:
                gp = rng.choice([d + "/mod." + e, "vendor/lib", d + "/sub/module"])
                if gp not in st and free(st, gp):
                    st[gp] = {"k": "gitlink", "tag": new_tag(), "mode": "160000"}
                    ops.append({"o": "gitlink", "path": gp})
            if allow_links and rng.random() < 0.25:
                lp, tgt = rng.choice([("other/link-" + e, "../" + sel[0][0]), (d + "/l." + e, "a." + e),
                                      ("docs/latest", "../README.md"), (d + "/ldir", "sub")])
                if lp not in st and free(st, lp):
                    st[lp] = {"k": "link", "target": tgt, "tag": new_tag(), "mode": "link"}
                    ops.append({"o": "ln", "path": lp, "target": tgt})
            elif allow_links and rng.random() < 0.5:
                links = sorted(p for p, v in st.items() if v["k"] == "link")
                if links:
                    p = rng.choice(links)
                    del st[p]
                    ops.append({"o": "rm", "path": p})
        step = {"br": br, "ops": ops, "msg": "step %d on %s" % (i, br), "tags": []}
        if rng.random() < 0.35:
            step["tags"].append({"name": "lt%d" % i, "annotated": False})
        if rng.random() < 0.35:
            step["tags"].append({"name": "at%d" % i, "annotated": True})
        steps.append(step)
        if i == fork:
            state["fork"] = {p: dict(v) for p, v in state["main"].items()}
    # every history has a lightweight and an annotated tag
    if not any(not t["annotated"] for s in steps for t in s["tags"]):
        steps[rng.randrange(nsteps)]["tags"].append({"name": "lt", "annotated": False})
    if not any(t["annotated"] for s in steps for t in s["tags"]):
        steps[rng.randrange(nsteps)]["tags"].append({"name": "at", "annotated": True})
    head = steps[-1]["br"] if rng.random() < 0.7 else "main"
    dirty = [
        {"o": "put", "path": d + "/untracked." + e, "k": "journal", "tag": new_tag(), "mode": "644", "add": False},
        {"o": "put", "path": d + "/staged." + e, "k": "journal", "tag": new_tag(), "mode": "644", "add": True},
        {"o": "put", "path": sel[0][0], "k": rng.choice(["journal", "bad"]), "tag": new_tag(), "mode": "644",
         "add": rng.random() < 0.5},
    ]
    if rng.random() < 0.5:
        dirty.append({"o": "rmwt", "path": "README.md"})
    hist = {"dir": d, "ext": e, "fork": fork, "steps": steps, "head": head, "dirty": dirty,
            "mid": rng.randrange(0, nsteps)}
    # a branch or lightweight tag whose *name* is the 7-digit abbreviation of commit `of` but which points at another
    # commit `at`: `--input.git.commit <abbreviation>` still means the commit (other refs must not matter)
    if nsteps >= 2 and opts.get("hexref", rng.random() < 0.6):
        of = rng.randrange(nsteps)
        at = rng.choice([k for k in range(nsteps) if k != of])
        hist["hexref"] = {"of": of, "at": at, "kind": rng.choice(["branch", "tag"])}
    return hist


def replay_states(hist):
    """the generator's own record: tree state (path -> entry) after every step"""
    states = []
    cur = {"main": {}, "side": None}
    forkstate = None
    for i, s in enumerate(hist["steps"]):
        br = s["br"]
        if br == "side" and cur["side"] is None:
            cur["side"] = {p: dict(v) for p, v in forkstate.items()}
        st = cur[br]
        for o in s["ops"]:
            if o["o"] == "put":
                st[o["path"]] = {"k": o["k"], "tag": o["tag"], "mode": o["mode"]}
            elif o["o"] == "rm":
                st.pop(o["path"], None)
            elif o["o"] == "mv":
                st[o["to"]] = st.pop(o["from"])
            elif o["o"] == "chmod":
                st[o["path"]] = dict(st[o["path"]])
                st[o["path"]]["mode"] = o["mode"]
            elif o["o"] == "ln":
                st[o["path"]] = {"k": "link", "target": o["target"], "tag": 0, "mode": "link"}
            elif o["o"] == "gitlink":
                st[o["path"]] = {"k": "gitlink", "tag": 0, "mode": "160000"}
        states.append({p: dict(v) for p, v in st.items()})
        if i == hist["fork"]:
            forkstate = {p: dict(v) for p, v in cur["main"].items()}
    return states


def chains(hist):
    """first-parent chain (list of step indices, oldest first) ending at every step"""
    out = []
    last = {"main": None, "side": None}
    forktip = None
    for i, s in enumerate(hist["steps"]):
        br = s["br"]
        if br == "side" and last["side"] is None:
            parent = forktip
        else:
            parent = last[br]
        out.append((out[parent] if parent is not None else []) + [i])
        last[br] = i
        if i == hist["fork"]:
            forktip = i
    return out


# ---------------------------------------------------------------------------------------------
# building a repository from a history

_build_lock = threading.Lock()
_repos = {}


def hist_key(hist):
    return hashlib.sha256(json.dumps(hist, sort_keys=True, ensure_ascii=False).encode()).hexdigest()[:20]


def apply_ops(wt, ops):
    for o in ops:
        if o["o"] == "put":
            p = os.path.join(wt, o["path"])
            os.makedirs(os.path.dirname(p), exist_ok=True)
            if os.path.islink(p):
                os.remove(p)
            with open(p, "wb") as f:
                f.write(content(o))
            os.chmod(p, 0o755 if o["mode"] == "755" else 0o644)
        elif o["o"] in ("rm", "rmwt"):
            p = os.path.join(wt, o["path"])
            if os.path.isdir(p) and not os.path.islink(p):
                os.rmdir(p)
            elif os.path.lexists(p):
                os.remove(p)
        elif o["o"] == "mv":
            a, b = os.path.join(wt, o["from"]), os.path.join(wt, o["to"])
            os.makedirs(os.path.dirname(b), exist_ok=True)
            os.rename(a, b)
        elif o["o"] == "chmod":
            os.chmod(os.path.join(wt, o["path"]), 0o755 if o["mode"] == "755" else 0o644)
        elif o["o"] == "ln":
            p = os.path.join(wt, o["path"])
            os.makedirs(os.path.dirname(p), exist_ok=True)
            os.symlink(o["target"], p)
        elif o["o"] == "gitlink":
            os.makedirs(os.path.join(wt, o["path"]), exist_ok=True)


def ls_tree(repo, commit):
    out = git(repo, "ls-tree", "-r", "-t", "-z", commit).decode("utf-8")
    ents = []
    for rec in out.split("\0"):
        if not rec:
            continue
        meta, path = rec.split("\t", 1)
        mode, typ, oid = meta.split(" ")
        ents.append({"mode": mode, "type": typ, "oid": oid, "path": path})
    return ents


def build_repo(hist):
    """-> info dict: repo, mid (snapshot after step hist['mid']), ids[], trees[], checkouts[]"""
    key = hist_key(hist)
    with _build_lock:
        if key in _repos:
            return _repos[key]
    base = os.path.join(ROOT, key)
    marker = os.path.join(base, "info.json")
    if os.path.exists(marker):
        info = json.load(open(marker))
        with _build_lock:
            _repos[key] = info
        return info
    if os.path.exists(base):
        shutil.rmtree(base)
    repo = os.path.join(base, "repo")
    os.makedirs(repo)
    git(repo, "init", "-q", "-b", "main", ".")
    git(repo, "config", "user.name", "gen")
    git(repo, "config", "user.email", "gen@example.org")
    git(repo, "config", "core.quotepath", "false")
    git(repo, "config", "commit.gpgsign", "false")
    git(repo, "config", "tag.gpgsign", "false")
    ids = []
    cur = "main"
    side_made = False
    fork_id = None
    mid = None
    for i, s in enumerate(hist["steps"]):
        br = s["br"]
        if br != cur:
            if br == "side" and not side_made:
                git(repo, "checkout", "-q", "-b", "side", fork_id)
                side_made = True
            else:
                git(repo, "checkout", "-q", br)
            cur = br
        apply_ops(repo, s["ops"])
        git(repo, "add", "-A")
        for o in s["ops"]:
            if o["o"] == "gitlink":     # a submodule entry (mode 160000) without a submodule
                git(repo, "update-index", "--add", "--cacheinfo", "160000,%s,%s" % ("1" * 40, o["path"]))
        git(repo, "commit", "-q", "--allow-empty", "-m", s["msg"], date=BASE_DATE + 60 * i)
        cid = git(repo, "rev-parse", "HEAD").decode().strip()
        ids.append(cid)
        for t in s["tags"]:
            if t["annotated"]:
                git(repo, "tag", "-a", "-m", "annotated " + t["name"], t["name"], cid, date=BASE_DATE + 60 * i + 1)
            else:
                git(repo, "tag", t["name"], cid)
        if i == hist["fork"]:
            fork_id = cid
        if i == hist["mid"]:
            mid = os.path.join(base, "mid")
            shutil.copytree(repo, mid, symlinks=True)
    if hist["head"] != cur:
        git(repo, "checkout", "-q", hist["head"])
    # dirty work tree and index
    for o in hist["dirty"]:
        apply_ops(repo, [o])
        if o.get("add"):
            git(repo, "add", "--", o["path"])
    trees, checkouts = [], []
    for i, cid in enumerate(ids):
        trees.append(ls_tree(repo, cid))
        co = os.path.join(base, "co", str(i))
        os.makedirs(co)
        tar = git(repo, "archive", "--format=tar", cid)
        p = subprocess.run(["tar", "-x", "-f", "-", "-C", co], input=tar, stdout=subprocess.PIPE, stderr=subprocess.PIPE)
        if p.returncode != 0:
            raise RuntimeError("tar failed: " + p.stderr.decode("utf-8", "replace"))
        checkouts.append(co)
    heads = {}
    for br in ("main", "side"):
        r = git(repo, "rev-parse", "-q", "--verify", "refs/heads/" + br, check=False).decode().strip()
        if r:
            heads[br] = r
    short = []
    for cid in ids:
        # unique abbreviations (among all objects) of at least the wanted length
        short.append({str(n): git(repo, "rev-parse", "--short=%d" % n, cid).decode().strip() for n in (7, 9, 12)})
    hx = hist.get("hexref")
    if hx:
        # created last (no new objects, so the abbreviations above stay unique); absent from the mid snapshot
        name = short[hx["of"]]["7"]
        if hx["kind"] == "tag":
            git(repo, "tag", name, ids[hx["at"]])
        else:
            git(repo, "branch", "-q", name, ids[hx["at"]])
    info = {"key": key, "repo": repo, "mid": mid, "ids": ids, "trees": trees, "checkouts": checkouts, "heads": heads,
            "short": short}
    # self-check of the generator: git's tree of every commit is the recorded state
    states = replay_states(hist)
    for i, st in enumerate(states):
        want = {}
        for p, v in st.items():
            want[p] = "120000" if v["k"] == "link" else "160000" if v["k"] == "gitlink" else (
                "100755" if v["mode"] == "755" else "100644")
        got = {t["path"]: t["mode"] for t in trees[i] if t["type"] != "tree"}
        if want != got:
            raise RuntimeError("generator self-check failed at step %d: recorded %s, git has %s" % (
                i, sorted(set(want.items()) - set(got.items())), sorted(set(got.items()) - set(want.items()))))
    with open(marker, "w") as f:
        json.dump(info, f)
    with _build_lock:
        _repos[key] = info
    return info


# ---------------------------------------------------------------------------------------------
# selectors

def selector_forms(hist, idx, stage):
    """symbolic selector forms that denote commit `idx` (resolved to text in `resolve_selector`)"""
    forms = [{"how": "id"}, {"how": "abbrev", "n": 7}, {"how": "abbrev", "n": 12}, {"how": "refid"},
             {"how": "refabbrev", "n": 9}]
    steps = hist["steps"]
    last = len(steps) - 1 if stage == "final" else hist["mid"]
    ch = chains(hist)
    tips = {}
    for i in range(last + 1):
        tips[steps[i]["br"]] = i
    for br, tip in tips.items():
        chain = ch[tip]
        if idx in chain:
            k = len(chain) - 1 - chain.index(idx)
            if k == 0:
                forms.append({"how": "ref", "name": br})
                forms.append({"how": "ref", "name": "refs/heads/" + br})
            else:
                forms.append({"how": "ref", "name": "%s~%d" % (br, k)})
                if k == 1:
                    forms.append({"how": "ref", "name": br + "^"})
    if stage == "final" and tips.get(hist["head"]) == idx:
        forms.append({"how": "ref", "name": "HEAD"})
    for i in range(last + 1):
        for t in steps[i]["tags"]:
            chain = ch[i]
            if i == idx:
                forms.append({"how": "ref", "name": t["name"], "tag": "annotated" if t["annotated"] else "lightweight"})
                forms.append({"how": "ref", "name": "refs/tags/" + t["name"],
                              "tag": "annotated" if t["annotated"] else "lightweight"})
            elif idx in chain and chain.index(idx) == len(chain) - 2:
                forms.append({"how": "ref", "name": t["name"] + "~1", "tag": "annotated" if t["annotated"] else "lightweight"})
    return forms


def resolve_selector(form, cid, short=None):
    h = form["how"]
    if h == "id":
        return {"commit": cid}
    if h == "abbrev":
        return {"commit": (short or {}).get(str(form["n"]), cid[:form["n"]])}
    if h == "refid":
        return {"ref": cid}
    if h == "refabbrev":
        return {"ref": (short or {}).get(str(form["n"]), cid[:form["n"]])}
    return {"ref": form["name"]}


# ---------------------------------------------------------------------------------------------

def settings_for(rng, d, e):
    """(dir, ext, class) settings worth asking of one commit"""
    out = [(d, e, "plain"), (d + "/", e, "trailing-slash")]
    pool = [
        (d + "//", e, "double-slash"), (d + "/.", e, "trailing-dot"), (d + "/sub", e, "subdir"),
        (d + "/sub/", e, "subdir-slash"), ("", e, "root"), (d[:-1], e, "dir-name-prefix"), (d + "2", e, "sibling"),
        (d + "/a." + e, e, "dir-is-file"), ("nonexistent", e, "missing-dir"), (d + "/sub/deep", e, "deep"),
        (d, "." + e, "dotted-ext"), (d, e[1:], "ext-suffix"), (d, "", "empty-ext"), (d, "no" + e, "longer-ext"),
        (d, e + ".bak", "compound-ext"), (d, "bak", "other-ext"), (d, e.swapcase(), "ext-case"),
        (d + "/dir." + e, e, "dir-with-ext"), ("other", e, "other-dir"), (d.replace("/", "//"), e, "inner-double-slash"),
        # not plain repository paths: outside the oracle's domain, inside the tie's
        ("./" + d, e, "nonclean:leading-dot"), ("/" + d, e, "nonclean:absolute"), (d + "/../" + d, e, "nonclean:dotdot"),
        (".", e, "nonclean:dot"),
    ]
    out += rng.sample(pool, 7)
    return out


CLI_CFG = """[kernel]
strict = false
audit = { mode = false, hash = "SHA-256" }
timestamp = { default-time = 00:00:00, timezone = { name = "UTC" } }
input = { storage = %(storage)s, fs = { path = %(checkout)s, dir = %(dir)s, suffix = %(ext)s }, git = { repo = %(repo)s, ref = %(ref)s, dir = %(dir)s, suffix = %(ext)s } }
[transaction]
accounts = { path = "none" }
commodities = { path = "none" }
tags = { path = "none" }
[report]
report-timezone = "UTC"
scale = { min = 0, max = 28 }
targets = [ "balance" ]
balance = { title = "BALANCE" }
balance-group = { title = "BALANCE GROUP", group-by = "month" }
register = { title = "REGISTER", timestamp-style = "full" }
[export]
targets = [ "identity" ]
equity = { equity-account = "Equity:Balance" }
"""

CLI_ROUTES_VIA = ["git-cfg+commit-or-ref", "git-storage-cfg", "fs-storage-cfg"]
CLI_ROUTES_DIRECT = ["git-args", "fs-args"]
_cli_seq = [0]


def toml_s(s):
    return json.dumps(s, ensure_ascii=False)


def run_cli(ic):
    """run the real binary for one implementation case that carries a `cli` route; -> dict(rc, identity, meta)"""
    route = ic["cli"]
    with _build_lock:
        _cli_seq[0] += 1
        n = _cli_seq[0]
    work = os.path.join(ROOT, "cli", "%d-%d" % (os.getpid(), n))
    out = os.path.join(work, "out")
    os.makedirs(out)
    sel = ic["sel"]
    cfg = CLI_CFG % {
        "storage": toml_s("fs" if route.startswith("fs") else "git"),
        "checkout": toml_s(ic["checkout"]), "dir": toml_s(ic["dir"]), "ext": toml_s(ic["ext"]),
        "repo": toml_s(ic["repo"]), "ref": toml_s(sel.get("ref", "HEAD")),
    }
    cfgp = os.path.join(work, "tackler.toml")
    with open(cfgp, "w", encoding="utf-8") as f:
        f.write(cfg)
    args = [common.TK_CLI, "--config", cfgp, "--output.dir", out, "--output.prefix", "p"]
    selarg = ["--input.git.commit", sel["commit"]] if "commit" in sel else ["--input.git.ref", sel["ref"]]
    if route == "git-args":
        args += ["--input.git.repository", ic["repo"], "--input.git.dir", ic["dir"]] + selarg
    elif route == "git-cfg+commit-or-ref":
        args += selarg
    elif route == "git-storage-cfg":
        args += ["--input.storage", "git"]
    elif route == "fs-args":
        args += ["--input.fs.dir", os.path.join(ic["checkout"], ic["dir"]) if ic["dir"] else ic["checkout"],
                 "--input.fs.ext", ic["ext"]]
    elif route == "fs-storage-cfg":
        args += ["--input.storage", "fs"]
    e = dict(os.environ)
    e["RUST_BACKTRACE"] = "0"
    p = subprocess.run(args, cwd=work, env=e, stdout=subprocess.PIPE, stderr=subprocess.PIPE, timeout=120)
    res = {"rc": p.returncode, "identity": None, "meta": {}, "stderr": p.stderr.decode("utf-8", "replace")[-300:]}
    ip = os.path.join(out, "p.identity.txn")
    if os.path.exists(ip):
        res["identity"] = open(ip, encoding="utf-8").read()
    bp = os.path.join(out, "p.bal.txt")
    if os.path.exists(bp):
        for ln in open(bp, encoding="utf-8").read().split("\n"):
            if ln.startswith("BALANCE"):
                break
            if " : " in ln:
                k, v = ln.split(" : ", 1)
                res["meta"].setdefault(k.strip(), v)
    shutil.rmtree(work, ignore_errors=True)
    return res


def identity_descs(text):
    out = []
    for ln in (text or "").split("\n"):
        if ln and not ln.startswith(" ") and " '" in ln:
            out.append(ln.split(" '", 1)[1])
    return sorted(out)


def is_tag_ancestor_form(case):
    """`<annotated tag>~1`: gix 0.70 does not peel the tag object before walking to the ancestor"""
    f = case.get("sel", {})
    return f.get("how") == "ref" and f.get("tag") == "annotated" and f.get("name", "").endswith("~1")


class C08(PropBase):
    id = "C08"
    needs_cli = True
    _cleaned = False

    def run_impl(self, impl_cases):
        """library side through the harness; cases that carry a `cli` route are also run through the real binary"""
        from concurrent.futures import ThreadPoolExecutor
        ans = common.run_driver([common.TK_IMPL], impl_cases, jobs=4)
        idx = [i for i, c in enumerate(impl_cases) if c.get("cli")]

        def one(i):
            try:
                return run_cli(impl_cases[i])
            except Exception as ex:   # noqa: BLE001
                return {"rc": None, "error": str(ex)[:300], "identity": None, "meta": {}}
        with ThreadPoolExecutor(max_workers=4) as ex:
            for i, r in zip(idx, ex.map(one, idx)):
                if isinstance(ans[i], dict):
                    ans[i]["cli"] = r
        return ans

    def __init__(self):
        super().__init__()
        self.dist = {"repositories": set(), "commits": set(), "selector_forms": {}, "tree_classes": {}, "via_settings": 0,
                     "commits_with_symlink": set(), "git_err": 0, "git_ok": 0, "cli_routes": {}, "cli_ok": 0, "cli_refused": 0}

    def tally(self, case, impl):
        d = self.dist
        k = hist_key(case["hist"])
        ck = (k, case["commit"])
        d["repositories"].add(k)
        f = case["sel"]
        form = f["how"]
        if form == "ref":
            n = f["name"]
            form = ("tag-" + f["tag"] if f.get("tag") else "HEAD" if n == "HEAD" else "branch") + (
                "~n" if "~" in n or "^" in n else "") + (" (refs/..)" if n.startswith("refs/") else "")
        d["selector_forms"][form] = d["selector_forms"].get(form, 0) + 1
        if case.get("via_settings"):
            d["via_settings"] += 1
        g = impl.get("git", {}) if isinstance(impl, dict) else {}
        d["git_ok" if g.get("r") == "OK" else "git_err"] += 1
        if case.get("cli") and isinstance(impl, dict) and impl.get("cli"):
            d["cli_routes"][case["cli"]] = d["cli_routes"].get(case["cli"], 0) + 1
            d["cli_ok" if impl["cli"].get("rc") == 0 else "cli_refused"] += 1
        if ck not in d["commits"]:
            d["commits"].add(ck)
            state = replay_states(case["hist"])[case["commit"]]
            hd, he = case["hist"]["dir"], case["hist"]["ext"]
            cl = dict(near_miss_paths(hd, he) + selected_paths(hd, he))
            for p, v in state.items():
                c = cl.get(p)
                if v["k"] == "link":
                    c = "symlink"
                    d["commits_with_symlink"].add(ck)
                elif v["k"] == "gitlink":
                    c = "submodule-entry"
                elif c and v["mode"] == "755" and c != "executable":
                    c = c + "+x"
                if c:
                    d["tree_classes"][c] = d["tree_classes"].get(c, 0) + 1

    def last_samples(self):
        d = self.dist
        dist = {"kind": "distribution", "repositories": len(d["repositories"]), "commits": len(d["commits"]),
                "commits_with_symlink": len(d["commits_with_symlink"]), "selector_forms": d["selector_forms"],
                "tree_classes (commits containing a file of the class)": d["tree_classes"],
                "via_settings": d["via_settings"], "git_ok": d["git_ok"], "git_err": d["git_err"],
                "cli_runs_by_route": d["cli_routes"], "cli_exit_0": d["cli_ok"], "cli_exit_nonzero": d["cli_refused"]}
        return self._samples + [dist]

    # -- generation
    def gen(self, rng, tier, focus=None):
        nrepo = 12 if tier == "quick" else 200
        if focus:
            nrepo = 4 if tier == "quick" else 20
        # stale repositories of earlier runs are not needed (a replay rebuilds from the history)
        # (once per process: `gen` may be called several times in one run - the source-drift rounds of bin/check - and the
        # repositories of the earlier rounds are still needed when the cases are run)
        if not focus and os.path.isdir(ROOT) and not C08._cleaned:
            C08._cleaned = True
            for n in os.listdir(ROOT):
                shutil.rmtree(os.path.join(ROOT, n), ignore_errors=True)
        out = []
        for r in range(nrepo):
            opts = {}
            if r == 0:
                opts = {"names": ("txns", "txn"), "links": False}
            elif r == 1:
                opts = {"names": ("data/txns", "txn"), "links": True, "nsteps": 5}
            hist = gen_history(rng, opts)
            out += self.cases_of(rng, hist, tier)
        # build in parallel (at most 4 jobs: the machine is shared)
        hs = {}
        for c in out:
            hs[hist_key(c["hist"])] = c["hist"]
        from concurrent.futures import ThreadPoolExecutor
        with ThreadPoolExecutor(max_workers=4) as ex:
            list(ex.map(build_repo, hs.values()))
        return out

    def cases_of(self, rng, hist, tier):
        out = []
        n = len(hist["steps"])
        d, e = hist["dir"], hist["ext"]
        for idx in range(n):
            for stage in (["final", "mid"] if idx <= hist["mid"] else ["final"]):
                forms = selector_forms(hist, idx, stage)
                settings = settings_for(rng, d, e) if stage == "final" else settings_for(rng, d, e)[:2]
                for (sd, se, cls) in settings:
                    # every setting by id; plus two other selector forms
                    chosen = [forms[0]] + rng.sample(forms[1:], min(2, len(forms) - 1))
                    if cls != "plain":
                        chosen = rng.sample(chosen, 2)
                    hx = hist.get("hexref")
                    hexcase = bool(hx) and hx["of"] == idx and stage == "final" and cls == "plain"
                    if hexcase and forms[1] not in chosen:
                        chosen.append(forms[1])      # the 7-digit abbreviation that is also the name of a ref
                    for f in chosen:
                        via = rng.random() < 0.3 or cls == "dotted-ext" and rng.random() < 0.7
                        out.append({
                            "op": "git", "kind": cls + ("@mid-snapshot" if stage == "mid" else "") + (
                                "+abbrev-is-refname" if hexcase and f is forms[1] else ""),
                            "hist": hist, "commit": idx, "stage": stage, "sel": f, "dir": sd, "ext": se,
                            "via_settings": via, "repo_form": rng.choice(["worktree", "dotgit"]), "cfg": {},
                        })
        # a few of them also through the real binary (every route of cli_args::get_input_type)
        ncli = 8 if tier == "quick" else 6
        via_cases = [c for c in out if c["via_settings"]]
        direct_cases = [c for c in out if not c["via_settings"]]
        picked = rng.sample(via_cases, min(ncli // 2, len(via_cases))) + rng.sample(direct_cases, min(ncli // 2, len(direct_cases)))
        for c in picked:
            eff = norm_suffix(c["ext"]) if c["via_settings"] else c["ext"]
            if c["via_settings"]:
                routes = ["git-cfg+commit-or-ref", "fs-storage-cfg"]
                if c["sel"]["how"] == "ref":
                    routes.append("git-storage-cfg")     # the configured ref must be a reference form
                    routes.append("git-storage-cfg")
                if c["ext"] == "txn":
                    routes.append("git-args")
            else:
                routes = ["fs-args"]
                if eff == "txn":
                    routes += ["git-args", "git-args"]   # --input.git.* has the fixed extension `txn`
            c["cli"] = rng.choice(routes)
            c["kind"] = c["kind"] + "+cli:" + c["cli"]
        return out

    # -- the two sides
    def impl_case(self, case):
        info = build_repo(case["hist"])
        cid = info["ids"][case["commit"]]
        repo = info["repo"] if case.get("stage", "final") == "final" else info["mid"]
        if case.get("repo_form") == "dotgit":
            repo = os.path.join(repo, ".git")
        return {"op": "git", "repo": repo, "dir": case["dir"], "ext": case["ext"],
                "sel": resolve_selector(case["sel"], cid, info["short"][case["commit"]]), "checkout": info["checkouts"][case["commit"]],
                "via_settings": bool(case.get("via_settings")), "cfg": case.get("cfg", {}),
                "want": ["txns", "identity", "meta"], "cli": case.get("cli")}

    def model_case(self, case):
        info = build_repo(case["hist"])
        tree = info["trees"][case["commit"]]
        state = replay_states(case["hist"])[case["commit"]]
        blobs = {}
        for t in tree:
            if t["type"] != "blob":
                continue
            ent = state.get(t["path"])
            if ent and ent["k"] == "journal":
                blobs[t["oid"]] = journal_ast(ent["tag"])
            elif t["oid"] not in blobs:
                blobs[t["oid"]] = None
        return {"op": "gitsel", "tree": [{"mode": t["mode"], "path": t["path"], "oid": t["oid"]} for t in tree],
                "dir": case["dir"], "ext": case["ext"], "via_settings": bool(case.get("via_settings")),
                "blobs": blobs, "cfg": model_cfg(case.get("cfg", {}))}

    # -- judgement
    @staticmethod
    def loaded_paths(case, txns):
        """which files were loaded: descriptions carry the version tag, the commit's state maps it to the path"""
        state = replay_states(case["hist"])[case["commit"]]
        by_tag = {v["tag"]: p for p, v in state.items() if v["k"] not in ("link", "gitlink")}
        out = set()
        for t in txns:
            d = (t.get("desc") or "")
            try:
                tag = int(d.split("|")[0][1:])
            except ValueError:
                tag = None
            out.add(by_tag.get(tag, "?" + d))
        return sorted(out)

    def compare(self, case, impl, model):
        if impl.get("r") != "OK" or model.get("r") != "OK":
            return "driver problem: impl=%s model=%s %s %s" % (impl.get("r"), model.get("r"), impl.get("msg", ""), model.get("msg", ""))
        ig, mg = impl["git"], model["git"]
        if ig.get("r") in ("CFGERR", "BADCASE"):
            return "driver problem: %s" % ig
        if mg["r"] == "UNDEF":
            return "skip"
        if ig["r"] == "ERR" and is_tag_ancestor_form(case):
            return "skip"   # selector resolution (gix) is not modelled; the oracle reports it (known finding K1)
        if ig["r"] != mg["r"]:
            return "git load status differs: impl=%s model=%s (%s)" % (ig["r"], mg["r"], (ig.get("msg") or "")[:300])
        if ig["r"] == "OK":
            tx = ig["out"]["txns"]
            if tx.get("r") != "OK":
                return "txns output: %s" % tx.get("r")
            # which files were loaded, as the multiset of their content versions (two files may hold identical bytes)
            state = replay_states(case["hist"])[case["commit"]]
            cnt = {}
            for t_ in tx["v"]:
                d_ = t_.get("desc") or ""
                try:
                    tg = int(d_.split("|")[0][1:])
                except ValueError:
                    tg = "?" + d_
                cnt[tg] = cnt.get(tg, 0) + 1
            lt = sorted(str(tg) for tg, c_ in cnt.items() for _ in range(c_ // (1 + tg % 2) if isinstance(tg, int) else c_))
            mt = sorted(str(state[p_]["tag"]) if p_ in state else "?" + p_ for p_ in mg["sel"])
            if lt != mt:
                return "git selection differs: impl loaded versions %s (%s), model selects %s" % (
                    lt, self.loaded_paths(case, tx["v"]), mg["sel"])
            if tx["v"] != mg["txns"]:
                return "loaded transactions differ (same files): impl=%s model=%s" % (str(tx["v"])[:400], str(mg["txns"])[:400])
        ifs, mfs = impl.get("fs"), model["fs"]
        if ifs is None or mfs["r"] == "UNDEF":
            return None
        if ifs.get("r") in ("CFGERR", "BADCASE"):
            return "driver problem: %s" % ifs
        walk_err = ifs["r"] == "ERR" and ifs.get("at") == "walk"
        if (mfs["r"] == "ERR") != walk_err:
            return "fs walk status differs: impl=%s model=%s (%s)" % (ifs["r"], mfs["r"], (ifs.get("msg") or "")[:300])
        if mfs["r"] == "OK" and ifs.get("paths") != mfs["paths"]:
            return "fs selection differs: impl %s, model %s" % (ifs.get("paths"), mfs["paths"])
        return None

    def expected(self, case):
        """the property read directly off the generator's record of the commit.
        -> dict(domain, links, files [(path, kind)], descs (sorted) | None when a selected file is no journal,
                dir_exists)"""
        hist = case["hist"]
        state = replay_states(hist)[case["commit"]]
        ext = norm_suffix(case["ext"]) if case.get("via_settings") else case["ext"]
        parts = dir_parts(case["dir"])
        links = any(v["k"] == "link" for v in state.values())
        if parts is None:
            return {"domain": False, "links": links}
        files = []
        exists = parts == []
        for p, v in sorted(state.items()):
            if under(parts, p):
                exists = True
                if v["k"] not in ("link", "gitlink") and real_ext(p.split("/")[-1]) == ext:
                    files.append((p, v["k"], v["tag"]))
        descs = []
        ok = True
        for p, k, tag in files:
            if k != "journal":
                ok = False
            else:
                descs += [t["desc"] for t in journal_ast(tag)]
        return {"domain": True, "links": links, "files": files, "descs": sorted(descs) if ok else None,
                "dir_exists": exists, "ext": ext}

    def oracle(self, case, impl):
        r = self.oracle_lib(case, impl)
        if r is None and case.get("cli"):
            r = self.oracle_cli(case, impl)
        return r

    def oracle_cli(self, case, impl):
        """the real binary: same data as the library on the same input route, metadata names the selected commit"""
        cli = impl.get("cli")
        route = case["cli"]
        if not cli or cli.get("rc") is None:
            return {"sig": "cli-not-run", "what": "CLI run missing: %s" % str(cli)[:200]}
        side = impl["git"] if route.startswith("git") else impl.get("fs")
        if route == "fs-args" and case["ext"] != norm_suffix(case["ext"]):
            # since the fix of F24 (804634a) `--input.fs.ext .txn` is normalised like the configured suffix, so the
            # binary is not comparable with a library call that passes the dotted extension verbatim: judge it
            # against the generator's record of the commit with the normalised extension
            exp = self.expected(dict(case, ext=norm_suffix(case["ext"])))
            if not exp.get("domain") or exp.get("links"):
                return None
            want = exp.get("descs")
            if want:
                if cli["rc"] != 0:
                    return {"sig": "cli-failed", "what": "route fs-args (dotted extension): %d journal files selected, binary exits %s" % (len(exp["files"]), cli["rc"])}
                if identity_descs(cli["identity"]) != want:
                    return {"sig": "cli-ne-lib", "what": "route fs-args (dotted extension): binary loads %s, expected %s" % (identity_descs(cli["identity"])[:8], want[:8])}
            elif cli["rc"] == 0:
                return {"sig": "cli-ok-lib-not", "what": "route fs-args (dotted extension): binary succeeds where nothing (or a non-journal file) is selected"}
            return None
        info = build_repo(case["hist"])
        cid = info["ids"][case["commit"]]
        lib_ok = side is not None and side.get("r") == "OK"
        if lib_ok and side.get("n", 0) > 0:
            if cli["rc"] != 0:
                return {"sig": "cli-failed", "what": "route %s: library loads %d txns, binary exits %s: %s" % (
                    route, side.get("n"), cli["rc"], cli.get("stderr", "")[-200:])}
            if cli["identity"] != side["out"]["identity"].get("v"):
                return {"sig": "cli-ne-lib", "what": "route %s: identity export of the binary differs from the library's (%s vs %s)" % (
                    route, identity_descs(cli["identity"])[:8], identity_descs(side["out"]["identity"].get("v"))[:8])}
            if route.startswith("git"):
                if cli["meta"].get("commit") != cid:
                    return {"sig": "cli-meta-commit", "what": "route %s: report metadata commit %s, selected %s" % (
                        route, cli["meta"].get("commit"), cid)}
            elif "commit" in cli["meta"]:
                return {"sig": "cli-fs-has-git-meta", "what": "fs route reports git metadata"}
        else:
            if cli["rc"] == 0:
                return {"sig": "cli-ok-lib-not", "what": "route %s: binary succeeds (%s) where the library fails or loads nothing (%s)" % (
                    route, identity_descs(cli["identity"])[:8], str(side)[:200])}
        return None

    def oracle_lib(self, case, impl):
        if impl.get("r") != "OK":
            return {"sig": "driver", "what": "harness answer %s" % str(impl)[:300]}
        g, f = impl["git"], impl.get("fs")
        if g.get("r") in ("CFGERR", "BADCASE", "PANIC"):
            return {"sig": "git-" + g["r"], "what": "git side: %s" % str(g)[:300]}
        info = build_repo(case["hist"])
        cid = info["ids"][case["commit"]]
        exp = self.expected(case)
        self.remember(case)
        self.tally(case, impl)
        sel = resolve_selector(case["sel"], cid, info["short"][case["commit"]])
        if g["r"] == "ERR" and is_tag_ancestor_form(case) and "ancestor" in (g.get("msg") or ""):
            return {"sig": "K1:annotated-tag-ancestor", "what": "revision %r (annotated tag + ~1) is not resolved: %s" % (
                sel["ref"], (g.get("msg") or "")[:200])}
        # --- metadata: the commit id reported is the commit selected (git rev-parse), reference as given
        if g["r"] == "OK":
            md = g["out"]["meta"]
            if md.get("r") != "OK" or not md.get("v"):
                return {"sig": "no-metadata", "what": "git load without git metadata: %s" % str(md)[:200]}
            fields = {}
            for ln in md["v"].split("\n"):
                if " : " in ln:
                    k, v = ln.split(" : ", 1)
                    fields.setdefault(k.strip(), v)
            if fields.get("commit") != cid:
                return {"sig": "meta-commit", "what": "metadata commit %s, selected commit %s (%s)" % (fields.get("commit"), cid, sel)}
            want_ref = "FIXED by commit" if "commit" in sel or cid.startswith(sel["ref"]) else sel["ref"]
            if fields.get("reference") != want_ref:
                return {"sig": "meta-reference", "what": "metadata reference %r, expected %r" % (fields.get("reference"), want_ref)}
            want_ext = norm_suffix(case["ext"]) if case.get("via_settings") else case["ext"]
            if fields.get("directory") != case["dir"] or fields.get("suffix") != "." + want_ext:
                return {"sig": "meta-dir-suffix", "what": "metadata directory/suffix %r %r" % (fields.get("directory"), fields.get("suffix"))}
            if fields.get("message") != case["hist"]["steps"][case["commit"]]["msg"]:
                return {"sig": "meta-message", "what": "metadata message %r" % fields.get("message")}
        if not exp["domain"]:
            return None
        if exp["links"]:
            # symbolic links in the commit: git storage refuses them (documented); if it answers, it must agree with fs
            if g["r"] == "OK" and f and f.get("r") == "OK" and g["out"]["identity"].get("v") != f["out"]["identity"].get("v"):
                return {"sig": "link-commit-differs", "what": "commit with symbolic links loaded by git storage differently from its checkout"}
            return None
        # --- exactly the files under dir (by components) with the real extension ext, of that commit
        if exp["descs"] is None:
            if g["r"] == "OK":
                return {"sig": "bad-file-accepted", "what": "a selected file is no journal but the git load succeeded: %s" % exp["files"]}
            if f and f.get("r") == "OK":
                return {"sig": "bad-file-accepted-fs", "what": "a selected file is no journal but the fs load succeeded: %s" % exp["files"]}
            return None
        if g["r"] != "OK":
            return {"sig": "git-load-failed", "what": "git load failed although every selected file is a journal (%s): %s" % (
                [p for p, _, _ in exp["files"]], (g.get("msg") or "")[:300])}
        tx = g["out"]["txns"]
        got = sorted((t.get("desc") or "") for t in tx.get("v", []))
        if got != exp["descs"]:
            extra = sorted(set(got) - set(exp["descs"]))
            missing = sorted(set(exp["descs"]) - set(got))
            cls = ("extra" if extra else "") + ("missing" if missing else "") or "multiplicity"
            return {"sig": "git-set:" + cls, "what": "git load of commit %d, dir %r ext %r: extra %s, missing %s" % (
                case["commit"], case["dir"], exp["ext"], extra[:6], missing[:6])}
        # --- the same set that filesystem storage yields on a checkout of that commit
        if f is not None:
            if not exp["dir_exists"]:
                if not (f.get("r") == "ERR" and f.get("at") == "walk"):
                    return {"sig": "fs-missing-dir", "what": "checkout has no %r but the fs walk answered %s" % (case["dir"], f.get("r"))}
            else:
                if f.get("r") != "OK":
                    return {"sig": "fs-load-failed", "what": "fs load of the checkout failed: %s" % (f.get("msg") or "")[:300]}
                if f.get("paths") != sorted(p for p, _, _ in exp["files"]):
                    return {"sig": "fs-set", "what": "fs selection %s, expected %s" % (f.get("paths"), [p for p, _, _ in exp["files"]])}
                if g["out"]["identity"].get("v") != f["out"]["identity"].get("v") or g["out"]["identity"].get("r") != "OK":
                    return {"sig": "git-ne-fs", "what": "identity export of the git load differs from the fs load of the checkout"}
        return None

    def nontrivial(self, case, impl):
        exp = self.expected(case)
        if not exp.get("domain"):
            return False
        state = replay_states(case["hist"])[case["commit"]]
        others = len(state) - len(exp["files"])
        return len(exp["files"]) > 0 and others > 0

    def sample(self, case):
        if "hist" not in case:
            return case
        c = {k: v for k, v in case.items() if k not in ("hist",)}
        c["hist_key"] = hist_key(case["hist"])
        c["paths_at_commit"] = sorted(replay_states(case["hist"])[case["commit"]].keys())
        return c

    def rule(self):
        return ("generated repository histories (2-6 commits on two branches, lightweight + annotated tags, adds/changes/"
                "removes/renames/mode changes, near-miss names around the configured directory and extension: sibling dir "
                "sharing a prefix, file sharing the prefix, no-dot suffix, longer extension, hidden files, nested dirs, "
                "executables, symlinks, submodule entries; dirty work tree and index; a snapshot of the repository "
                "mid-history), every commit "
                "x selector forms (full/abbreviated id, branch, tag, refs/.., ~n, HEAD) x directory/extension settings "
                "(with/without trailing slash, sub-directory, root, prefix of the name, dotted suffix through "
                "Settings::get_input_settings, ...); ~8 cases per repository also through the real binary on every input "
                "route of cli_args::get_input_type; non-trivial = the commit has both selected and non-selected files; "
                "distinct = sha256 of the implementation case line")

    def trusted_base(self):
        return super().trusted_base() + [
            "the `git` CLI (builds the repositories, `ls-tree`, `archive`, `rev-parse`) and `tar`",
            "not modelled (covered by the tie and the oracle only): gix object store, reference resolution, tag peeling, "
            "index/work tree isolation; walkdir (modelled as: yields every entry at or below the base); the journal "
            "grammar (the model reads the generated AST of every blob)"]

    def assumptions(self):
        return ["directory settings are plain repository paths (normal components; `./x`, `/x`, `x/..` are outside the "
                "fs-equivalence statement: the operating system resolves them, git tree paths never contain them)",
                "symbolic links: git storage refuses any commit containing one (kept as is); fs storage follows them; the "
                "equivalence is stated for link-free trees",
                "Unix path semantics (`/` separator, byte-transparent file names)"]


PROP = C08()

"""Direct contract tie of the decimal layer (op `dec`).

Every numeric theorem rests on `Model/Dec.lean` (`add`, `mul`, `sum`, `negate`, comparison by value, `ofString?`,
`toString`) and `Print.divQuot` being what `rust_decimal` computes on the exact domain.  The journal-level ties exercise
them through reports; this mix-in compares them *operation by operation* on generated operand pairs (boundary classes:
zero short-cuts with every scale combination, negative zero, aligned sums that cancel, results one above / below
2^96-1, products whose scale is exactly 28 / 29, coefficients of 28 / 29 digits, exact and inexact quotients).

Three answers are compared per case:
* impl  – `rust_decimal` as locked by the repository (`checked_add`, `checked_mul`, `Iterator::sum`, `try_fold`, `Neg`,
          `Ord`, `from_str_exact`, `Display`, `checked_div`);
* model – the Lean definitions (answer `INEXACT` where the model does not predict the library: it rounds there);
* oracle – python integers (no Lean): wherever the exact result is representable (coefficient < 2^96 at the scale the
          library documents for the exact path) the library's answer must *be* the exact result, in value and in stored
          scale; an `OVERFLOW` must have an integer part beyond 2^96-1.
"""
from fractions import Fraction as F

MAX96 = 2 ** 96 - 1


def parse(t):
    """(neg, coeff, scale) of an operand text (leading '~' = negate after parsing)"""
    flip = t.startswith("~")
    if flip:
        t = t[1:]
    neg = t.startswith("-")
    body = t[1:] if neg else t
    ip, _, fp = body.partition(".")
    coeff = int(ip + fp)
    neg = neg and coeff != 0          # from_str_exact: a zero result is positive
    if flip:
        neg = not neg
    return (neg, coeff, len(fp))


def val(d):
    return F(-d[1] if d[0] else d[1], 10 ** d[2])


def show(d):
    neg, coeff, scale = d
    ds = str(coeff).rjust(scale + 1, "0")
    ip, fp = (ds[:len(ds) - scale], ds[len(ds) - scale:]) if scale else (ds, "")
    return ("-" if neg else "") + ip + ("." + fp if scale else "")


def exact_add(a, b):
    """the documented exact path of Decimal::add: stored result, 'OVERFLOW', or None (library rounds)"""
    if a[1] == 0:
        return b
    if b[1] == 0:
        return a
    s = max(a[2], b[2])
    x = (-1 if a[0] else 1) * a[1] * 10 ** (s - a[2])
    y = (-1 if b[0] else 1) * b[1] * 10 ** (s - b[2])
    z = x + y
    if abs(z) <= MAX96:
        return (z < 0, abs(z), s)
    if abs(z) // 10 ** s > MAX96:
        return "OVERFLOW"
    return None


def exact_mul(a, b):
    if a[1] == 0 or b[1] == 0:
        return (False, 0, 0)
    if a[2] + b[2] <= 28 and a[1] * b[1] <= MAX96:
        return (a[0] != b[0], a[1] * b[1], a[2] + b[2])
    if (a[1] * b[1]) // 10 ** (a[2] + b[2]) > MAX96:
        return "OVERFLOW"
    return None


def exact_sum(l):
    acc = (False, 0, 0)
    for d in l:
        acc = exact_add(acc, d)
        if acc is None or acc == "OVERFLOW":
            return acc
    return acc


# ---------------------------------------------------------------------------------------------
# generators

def _coeff(rng):
    k = rng.random()
    if k < 0.15:
        return 0
    if k < 0.45:
        return rng.randrange(1, 1000)
    if k < 0.65:
        return rng.randrange(1, 10 ** rng.randrange(4, 20))
    if k < 0.8:
        return rng.randrange(10 ** 27, 10 ** 28)
    if k < 0.9:
        return MAX96 - rng.randrange(0, 4)
    return rng.choice([MAX96 // 2, MAX96 // 2 + 1, MAX96 // 10, MAX96 // 10 + 1, 10 ** 28, 5 * 10 ** 27, 2 ** 64, 2 ** 64 - 1, 2 ** 32])


def operand(rng, scale=None):
    c = _coeff(rng)
    s = rng.choice([0, 0, 1, 2, 2, 3, 8, 27, 28]) if scale is None else scale
    neg = rng.random() < 0.4
    t = show((neg, c, s))
    if c == 0 and neg:
        t = "~" + show((False, 0, s))      # negative zero only by negation
    return t


def gen(rng, fns, n):
    out = []
    for _ in range(n):
        f = rng.choice(fns)
        if f == "add":
            a = operand(rng)
            k = rng.random()
            if k < 0.2:        # cancels exactly, possibly at another scale
                d = parse(a)
                s2 = min(28, d[2] + rng.randrange(0, 3))
                if d[1] * 10 ** (s2 - d[2]) <= MAX96:
                    b = show((not d[0], d[1] * 10 ** (s2 - d[2]), s2))
                    if parse(b)[1] == 0:
                        b = show((False, 0, s2))
                else:
                    b = operand(rng)
            elif k < 0.35:     # lands around 2^96-1
                d = parse(a)
                b = show((d[0], min(MAX96, max(0, MAX96 - d[1] + rng.randrange(-2, 3))), d[2]))
            else:
                b = operand(rng)
            out.append({"op": "dec", "f": "add", "a": a, "b": b, "kind": "dec:add"})
        elif f == "mul":
            k = rng.random()
            if k < 0.3:        # scale sum 27 / 28 / 29, small coefficients
                s1 = rng.randrange(0, 29)
                s2 = max(0, min(28, rng.choice([27, 28, 29]) - s1))
                a = show((rng.random() < 0.5, rng.randrange(0, 500), s1))
                b = show((rng.random() < 0.5, rng.randrange(0, 500), s2))
                a, b = [("~" + x[1:]) if x.startswith("-") and parse(x)[1] == 0 else x for x in (a, b)]
            elif k < 0.5:      # product around 2^96-1
                x = rng.randrange(2, 2 ** 48)
                y = MAX96 // x + rng.randrange(-1, 3)
                a = show((rng.random() < 0.5, x, rng.randrange(0, 10)))
                b = show((rng.random() < 0.5, max(1, y), rng.randrange(0, 10)))
            else:
                a, b = operand(rng), operand(rng)
            out.append({"op": "dec", "f": "mul", "a": a, "b": b, "kind": "dec:mul"})
        elif f == "sum":
            m = rng.randrange(0, 7)
            if rng.random() < 0.3:
                s = rng.randrange(0, 6)
                l = [operand(rng, rng.randrange(0, s + 3)) for _ in range(m)]
            else:
                l = [operand(rng) for _ in range(m)]
            if l and rng.random() < 0.3:       # make it cancel
                ex = exact_sum([parse(x) for x in l])
                if ex not in (None, "OVERFLOW") and ex[1] != 0:
                    l.append(show((not ex[0], ex[1], ex[2])))
            out.append({"op": "dec", "f": "sum", "l": l, "kind": "dec:sum"})
        elif f == "cmp":
            a = operand(rng)
            k = rng.random()
            if k < 0.3:        # same value, other scale / sign of zero
                d = parse(a)
                s2 = min(28, d[2] + rng.randrange(0, 4))
                b = show((d[0], d[1] * 10 ** (s2 - d[2]), s2)) if d[1] * 10 ** (s2 - d[2]) <= MAX96 else a
                if parse(b)[1] == 0 and rng.random() < 0.5:
                    b = "~" + show((False, 0, s2))
                elif b.startswith("-") and parse(b)[1] == 0:
                    b = b[1:]
            elif k < 0.5:      # one unit of the finer scale apart
                d = parse(a)
                b = show((d[0], d[1] + 1, d[2])) if d[1] < MAX96 else a
            else:
                b = operand(rng)
            out.append({"op": "dec", "f": "cmp", "a": a, "b": b, "kind": "dec:cmp"})
        elif f == "neg":
            out.append({"op": "dec", "f": "neg", "a": operand(rng), "kind": "dec:neg"})
        elif f == "show":
            out.append({"op": "dec", "f": "show", "a": operand(rng), "kind": "dec:show"})
        elif f == "parse":
            k = rng.random()
            neg = "-" if rng.random() < 0.4 else ""
            if k < 0.25:       # 28 / 29 fraction digits
                fp = "".join(rng.choice("0123456789") for _ in range(rng.choice([27, 28, 29, 30])))
                t = neg + rng.choice(["0", "00", "7", "79"]) + "." + fp
            elif k < 0.5:      # coefficient around 2^96-1 with a point anywhere
                ds = str(MAX96 + rng.randrange(-3, 4))
                p = rng.randrange(0, len(ds))
                t = neg + (ds if p == 0 else (ds[:len(ds) - p] or "0") + "." + ds[len(ds) - p:])
            elif k < 0.65:     # leading / trailing zeros, zero with sign
                t = neg + "0" * rng.randrange(1, 5) + str(rng.randrange(0, 50)) + rng.choice(["", ".0", ".00", ".10", ".000"])
            else:
                d = parse(operand(rng).lstrip("~"))
                t = show(d)
            out.append({"op": "dec", "f": "parse", "a": t, "kind": "dec:parse"})
        elif f == "div":
            k = rng.random()
            if k < 0.6:        # t = a × p exactly (what Posting::fmt divides)
                a = (rng.random() < 0.5, rng.randrange(1, 10 ** rng.randrange(1, 10)), rng.randrange(0, 6))
                p = (False, rng.randrange(0, 10 ** rng.randrange(1, 8)), rng.randrange(0, 8))
                t = exact_mul(a, p)
                if t in (None, "OVERFLOW"):
                    t = (False, 0, 0)
                out.append({"op": "dec", "f": "div", "a": show(t) if not (t[0] and t[1] == 0) else "~" + show((False, 0, t[2])),
                            "b": show(a), "kind": "dec:div-exact"})
            else:
                b = operand(rng)
                if parse(b)[1] == 0:
                    b = "3"
                out.append({"op": "dec", "f": "div", "a": operand(rng), "b": b, "kind": "dec:div"})
    return out


# ---------------------------------------------------------------------------------------------
# judgement

def compare(case, impl, model):
    mr, ir = model.get("r"), impl.get("r")
    if mr == "BADCASE" or ir == "BADCASE":
        return "driver problem: impl=%s model=%s" % (impl, model)
    if mr == "INEXACT":
        return "skip"
    if mr != ir:
        return "dec %s: impl=%s model=%s" % (case["f"], impl, model)
    if mr != "OK":
        return None
    keys = ["cmp", "eq", "lt", "le"] if case["f"] == "cmp" else \
        (["v", "scale", "neg", "zero", "pos"] if case["f"] == "show" else ["v", "scale", "neg"])
    for k in keys:
        if impl.get(k) != model.get(k):
            return "dec %s: field %s differs: impl=%s model=%s" % (case["f"], k, impl, model)
    if case["f"] == "sum":
        bs = impl.get("by_sum") or {}
        if bs.get("r") != "OK" or bs.get("v") != impl.get("v"):
            return "dec sum: Iterator::sum and try_fold(checked_add) differ: %s" % impl
    return None


def oracle(case, impl):
    f = case["f"]
    r = impl.get("r")
    if r in ("BADCASE", "PANIC"):
        return {"sig": "dec-" + str(r).lower(), "what": "op dec %s answered %s on %s" % (f, impl, case)}
    if f in ("add", "mul", "sum"):
        if f == "sum":
            ex = exact_sum([parse(x) for x in case["l"]])
        else:
            ex = (exact_add if f == "add" else exact_mul)(parse(case["a"]), parse(case["b"]))
        if ex is None:
            return None            # the library rounds here (outside the exact domain, F17)
        if ex == "OVERFLOW":
            if r != "OVERFLOW":
                return {"sig": "dec-overflow-not-reported", "what": "%s of %s must overflow, library answers %s" % (f, case, impl)}
            return None
        if r != "OK" or impl.get("v") != show(ex):
            return {"sig": "dec-%s-not-exact" % f,
                    "what": "%s: exact result %s is representable, library answers %s (%s)" % (f, show(ex), impl, case)}
        return None
    if f == "cmp":
        a, b = val(parse(case["a"])), val(parse(case["b"]))
        want = (a > b) - (a < b)
        if r != "OK" or impl.get("cmp") != want or impl.get("eq") != (a == b) or impl.get("lt") != (a < b) or impl.get("le") != (a <= b):
            return {"sig": "dec-cmp-not-by-value", "what": "cmp %s vs %s: library answers %s" % (case["a"], case["b"], impl)}
        return None
    if f == "neg":
        d = parse(case["a"])
        if r != "OK" or impl.get("v") != show((not d[0], d[1], d[2])):
            return {"sig": "dec-neg", "what": "neg %s: library answers %s" % (case["a"], impl)}
        return None
    if f == "show":
        d = parse(case["a"])
        if r != "OK" or impl.get("v") != show(d) or impl.get("zero") != (d[1] == 0) or impl.get("neg") != d[0]:
            return {"sig": "dec-show", "what": "display %s: library answers %s" % (case["a"], impl)}
        return None
    if f == "parse":
        t = case["a"]
        neg = t.startswith("-")
        ip, _, fp = (t[1:] if neg else t).partition(".")
        ok = len(fp) <= 28 and int(ip + fp) <= MAX96
        if ok != (r == "OK"):
            return {"sig": "dec-parse-domain", "what": "from_str_exact(%s) answers %s; representable: %s" % (t, r, ok)}
        if ok and impl.get("v") != show(parse(t)):
            return {"sig": "dec-parse-value", "what": "from_str_exact(%s) is stored as %s" % (t, impl.get("v"))}
        return None
    if f == "div":
        a, b = parse(case["a"]), parse(case["b"])
        if b[1] == 0:
            return None
        q = val(a) / val(b)
        if r == "OK":
            got = val(parse(impl["v"]))
            fits = any((q * 10 ** k).denominator == 1 and abs((q * 10 ** k).numerator) <= MAX96 for k in range(29))
            if fits and got != q:
                return {"sig": "dec-div-not-exact",
                        "what": "%s / %s = %s exactly and representable, library answers %s" % (case["a"], case["b"], q, impl["v"])}
            if not fits and abs(got - q) > F(1, 10 ** (parse(impl["v"])[2])):
                return {"sig": "dec-div-off", "what": "%s / %s: library answers %s, exact %s" % (case["a"], case["b"], impl["v"], q)}
        return None
    return None


# ---------------------------------------------------------------------------------------------
# wiring into a property plug-in

def install(cls, fns, n_quick=600, n_thorough=30000):
    """extend the plug-in class `cls` with `dec` contract cases for the operations `fns` (its theorems rest on them)"""
    o_gen, o_cmp, o_orc = cls.gen, cls.compare, cls.oracle
    o_impl, o_model, o_nt, o_shr = cls.impl_case, cls.model_case, cls.nontrivial, cls.shrinkable
    o_tb = cls.trusted_base

    def gen_(self, rng, tier, focus=None):
        out = o_gen(self, rng, tier, focus)
        out.extend(gen(rng, fns, n_quick if tier == "quick" else n_thorough))
        return out

    def is_dec(case):
        return isinstance(case, dict) and case.get("op") == "dec"

    cls.gen = gen_
    cls.compare = lambda self, case, impl, model: compare(case, impl, model) if is_dec(case) else o_cmp(self, case, impl, model)
    cls.oracle = lambda self, case, impl: oracle(case, impl) if is_dec(case) else o_orc(self, case, impl)
    cls.impl_case = lambda self, case: case if is_dec(case) else o_impl(self, case)
    cls.model_case = lambda self, case: case if is_dec(case) else o_model(self, case)
    cls.nontrivial = lambda self, case, impl: (impl.get("r") in ("OK", "OVERFLOW", "ERR")) if is_dec(case) else o_nt(self, case, impl)
    cls.shrinkable = lambda self, case: False if is_dec(case) else o_shr(self, case)
    cls.trusted_base = lambda self: o_tb(self) + [
        "decimal layer: Model/Dec (%s) compared operation by operation with rust_decimal (op `dec`, python integer oracle); "
        "outside the exact domain the library rounds and the model answers INEXACT (skipped)" % ", ".join(fns)]

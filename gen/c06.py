"""C06 — the identity export re-parses to the same transactions and is a fixed point.

Tie: implementation and Lean model load the same journal text; compared: every field of every accepted
transaction and the identity export text byte for byte; the model also reports its own round trip
(export -> Syntax.parse -> load -> compare -> export).  Oracle (implementation alone): export -> load ->
compare field by field -> export again -> byte-equal."""
import itertools

import common
from propbase import PropBase, model_cfg, model_tscfg, cmp_status

U = "2c01d889-c928-477b-bf53-55e19887d34b"


def txn(ts="2024-01-01", code=None, desc=None, meta="", comments=(), posts=("a  1", "b")):
    hl = ts
    if code is not None:
        hl += " (%s)" % code
    if desc is not None:
        hl += " '%s" % desc
    return hl + "\n" + meta + "".join(" %s\n" % c for c in comments) + "".join(" %s\n" % p for p in posts)


class C06(PropBase):
    id = "C06"

    def mk(self, kind, text, cfg=None, **kw):
        c = {"op": "run", "kind": kind, "cfg": cfg or {}, "text": text, "want": ["txns", "identity"]}
        c.update(kw)
        return c

    def boundary(self, rng):
        out = []
        # header features in every combination
        codes = [None, "", " ", "c1", " c 1 ", "#12", "é ü", "a;b", "a#b", "a'b" if False else "a\"b", "\t x\t", "x" + chr(0xA0), chr(0x2003) + "y"]
        descs = [None, "", " ", "d", "  lead", "trail   ", "it's", "'quoted'", "a ; b", "a # b", "(x)", "tab\there", "x" + chr(0xA0), "ÄÖ€ 𝔘"]
        for c, d in itertools.product(codes, descs):
            out.append(self.mk("header:code-desc", txn(code=c, desc=d)))
        metas = {"u": " # uuid: %s\n" % U, "U": " # uuid: %s\n" % U.upper(), "l": " # location: geo:60.167,24.955\n", "L": " # location: geo:-60.5,-24.000,-5.50\n",
                 "z": " # location: geo:-0,-0.0,0\n", "m": " # location: geo:90,180,8848.86\n", "n": " # location: geo:-90,-180,-6378137\n",
                 "t": " # tags: a\n", "T": " # tags: b:c, a, é:ö:1\n", "w": " #\ttags:\tz ,y,  x:y \n"}
        for k in range(0, 4):
            for combo in itertools.permutations("ult", k):
                out.append(self.mk("header:meta", txn(meta="".join(metas[x] for x in combo), code="c", desc="d")))
        for combo in ["U", "L", "z", "m", "n", "T", "w", "UL", "LT", "wU", "zT", "nU", "TLU", "wLU"]:
            out.append(self.mk("header:meta", txn(meta="".join(metas[x] for x in combo))))
        comments = [";", "; ", ";  ", "; c", ";  lead", "; trail  ", ";\tc", "; a;b", "; ; x", "; # uuid: x", "; 'd", "; ü", ";\t\t", "; x" + chr(0xA0)]
        for c in comments:
            out.append(self.mk("comment:header", txn(comments=[c])))
            out.append(self.mk("comment:header", txn(comments=[c, "; second", c], meta=metas["u"])))
            out.append(self.mk("comment:posting", txn(posts=["a  1 " + c, "b " + c])))
            out.append(self.mk("comment:posting", txn(posts=["a  1 EUR" + c, "b  -1 EUR" + ("\t" + c)])))
            out.append(self.mk("comment:posting", txn(posts=["a  1 EUR @ 2 USD " + c, "b"])))
        # timestamps: notation, fraction, offsets, configured zone and default time
        tss = ["2024-01-01", "2024-02-29", "0001-01-01", "9999-12-31", "2024-01-01T00:00:00", "2024-01-01T23:59:59", "2024-06-30T12:34:56.5",
               "2024-06-30T12:34:56.500", "2024-06-30T12:34:56.000000001", "2024-06-30T12:34:56.123456789", "2024-06-30T12:34:56.120",
               "2024-06-30T12:34:56.0", "2024-06-30T12:34:56.000000000", "2024-06-30T12:34:56Z", "2024-06-30T12:34:56.7Z", "2024-06-30T12:34:56+00:00",
               "2024-06-30T12:34:56-00:00", "2024-06-30T12:34:56+02:00", "2024-06-30T12:34:56-05:30", "2024-06-30T12:34:56+05:45",
               "2024-06-30T12:34:56+14:00", "2024-06-30T12:34:56-12:00", "2024-06-30T12:34:56+23:59", "2024-06-30T12:34:56-23:59",
               "2024-06-30T12:34:56+25:59", "2024-06-30T12:34:56-25:59", "2024-06-30T12:34:56+00:01", "2024-06-30T12:34:56-00:01",
               "2024-01-01T00:00:00+02:00", "2024-12-31T23:59:59.999999999-11:00", "0001-01-01T00:00:00+10:00", "9999-12-31T23:59:59-10:00",
               "1900-01-01", "1969-12-31T23:59:59.999999999Z", "1970-01-01T00:00:00Z", "1600-02-29T01:02:03.04+01:00", "2000-02-29", "2100-02-28T23:59:59.9"]
        cfgs = [{}, {"tz": {"offset": "+02:00"}}, {"tz": {"offset": "-05:30"}, "default_time": "12:34:56"}, {"tz": {"offset": "+14:00"}, "default_time": "23:59:59.999999999"},
                {"tz": {"offset": "-12:00"}, "default_time": "00:00:00.5"}, {"tz": {"offset": "+00:00"}, "default_time": "08:00:00"}]
        for ts in tss:
            for cfg in cfgs:
                out.append(self.mk("ts", txn(ts=ts), cfg=dict(cfg)))
        # amounts and value positions
        amounts = ["1", "-1", "0.1", "-0.1", "1.0", "1.50", "001.500", "-000.001", "100", "1000000", "0.0000000000000000000000000001", "79228162514264337593543950335",
                   "-79228162514264337593543950335", "7.9228162514264337593543950335", "12345678901234.12345678901234", "0.10", "10.0", "3.14159"]
        for a in amounts:
            out.append(self.mk("amount", txn(posts=["a  " + a, "b"])))
            out.append(self.mk("amount", txn(posts=["a  " + a + " EUR", "b"])))
            out.append(self.mk("amount", txn(posts=["a  " + a + " EUR", "b  " + common.neg_text(a) + " EUR"])))
        prices = ["1", "2", "0.5", "0.25", "1.00", "2.50", "0.333", "3", "7", "0.1", "0.01", "120", "1.2345", "0.0001", "1000000", "0.125", "0"]
        for a, p in itertools.product(["1", "-1", "2", "3", "0.5", "1.50", "-2.25", "10", "0.3", "7.00", "-0.007", "123.456"], prices):
            out.append(self.mk("price:unit", txn(posts=["a  %s ACME @ %s EUR" % (a, p), "b"])))
            if p != "0":
                out.append(self.mk("price:unit", txn(posts=["a  %s ACME @ %s EUR ; c" % (a, p), "b  1 EUR", "c"])))
        for a, t in itertools.product(["1", "-1", "3", "-3", "1.50", "0.3", "7"], ["1", "10", "0.5", "1.00", "100.000", "7", "0", "0.00", "3.33"]):
            tt = ("-" + t) if a.startswith("-") else t
            out.append(self.mk("price:total", txn(posts=["a  %s ACME = %s EUR" % (a, tt), "b"])))
            out.append(self.mk("price:total", txn(posts=["a  %s ACME = %s EUR" % (a, tt), "b  %s EUR" % common.neg_text(tt) if D0(tt) else "b"])))
        for o in ["{1 EUR}", "{ 1.50 USD }", "{0 EUR}", "{120 ACME}"]:
            out.append(self.mk("price:opening", txn(posts=["a  1 ACME %s" % o, "b  -1 ACME"])))
            out.append(self.mk("price:opening", txn(posts=["a  1 ACME %s @ 2 EUR" % o, "b"])))
            out.append(self.mk("price:opening", txn(posts=["a  -1 ACME %s = -2.0 EUR" % o, "b"])))
        # accounts / commodities with unusual characters
        for acct in ["a", "a:b:c", "é:ö", "a-b:c_d", "a:1", "a:1st:2", "A·B", "$:¢:£", "a" + chr(0x300) + ":b", "µ:°", "x" * 200, ":".join("p%d" % i for i in range(60)), "a:" + chr(0x1680) + "b"]:
            out.append(self.mk("names", txn(posts=[acct + "  1 He·bar", "b"])))
            out.append(self.mk("names", txn(posts=["b  1 €", acct])))
        # several transactions: order, equal keys, blank lines
        t1 = txn(ts="2024-03-01", code="b", posts=["a 1", "b"])
        t2 = txn(ts="2024-03-01", code="a", posts=["a 2", "b"])
        t3 = txn(ts="2024-03-01", posts=["a 3", "b"])
        t4 = txn(ts="2024-02-01T00:00:00+02:00", desc="x", posts=["a 4", "b"])
        for perm in itertools.permutations([t1, t2, t3, t4], 4):
            out.append(self.mk("order", "\n".join(perm)))
        out.append(self.mk("order", t3 + "\n" + t3 + "\n\n\n" + t3))
        out.append(self.mk("order", "\n \t\n" + t1 + " \n\t\n" + t2 + "\n"))
        out.append(self.mk("order", (t1 + "\n" + t2).replace("\n", "\r\n")))
        # settings
        for cfg in ({"strict": True, "accounts": ["a", "b", "c"], "commodities": ["EUR", "ACME"], "tags": ["a", "b:c"]}, {"audit": True}):
            out.append(self.mk("settings", txn(meta=metas["u"] + metas["t"], posts=["a  1 ACME @ 2 EUR", "b"]), cfg=dict(cfg)))
            out.append(self.mk("settings", txn(meta=metas["u"], posts=["a  1", "b"]), cfg=dict(cfg)))
        # F13: a named journal zone whose offset had seconds (outside the model)
        for ts in ["1900-01-01", "1921-04-30T12:00:00", "2024-01-01"]:
            out.append(self.mk("named-zone", txn(ts=ts), cfg={"tz": {"name": "Europe/Helsinki"}}))
        out.extend(self.design_classes())
        return out

    def design_classes(self):
        """the boundary classes DESIGN section 5 lists for C06, each under its own `kind` so that the evidence
        (`input_classes`) shows how many cases of each class a run held"""
        out = []
        loc0 = ["geo:-0,-0", "geo:-0.0,0,-0", "geo:0,-0.000", "geo:-0,-0,-0.0", "geo:-0.0000000000000000000000000000,-0"]
        # empty code `()`, empty description `'`, alone / together / with metadata, comments and blanks around them
        for hl in ["()", "( )", "(\t)", "'", "' ", "'\t ", "() '", "( ) ' ", "()\t'", "() 'd", "(c) '", "()  ", "'  "]:
            for meta in ["", " # uuid: %s\n" % U]:
                out.append(self.mk("b:empty-code-desc", "2024-01-01 " + hl + "\n" + meta + " a  1\n b\n"))
                out.append(self.mk("b:empty-code-desc", "2024-01-01T10:00:00Z " + hl + "\n" + meta + " ;\n a  1 ;\n b ;\n"))
        # empty comment `;` and comments with leading / trailing blanks, on header, posting and last posting
        for c in [";", "; ", ";  ", ";\t", "; \t ", ";  lead", "; trail  ", ";   both   ", ";\tlead-tab", "; trail-tab\t", "; ;", ";  ; "]:
            kind = "b:empty-comment" if c.strip() == ";" else "b:comment-blanks"
            out.append(self.mk(kind, txn(comments=[c])))
            out.append(self.mk(kind, txn(comments=[c, c])))
            out.append(self.mk(kind, txn(code="", desc="", comments=[c], posts=["a  1 " + c, "b " + c])))
            out.append(self.mk(kind, txn(posts=["a  1 EUR " + c, "b  -1 EUR" + c])))
            out.append(self.mk(kind, txn(posts=["a  2 ACME @ 1.50 EUR " + c, "b\t" + c])))
            out.append(self.mk(kind, txn(posts=["a  -2 ACME = -3.00 EUR" + c, "b"])))
        # `=` totals with negative amounts (sign rule: total and amount have the same sign)
        for a, t in itertools.product(["-1", "-3", "-0.5", "-2.50", "-7.000", "-123.456", "-0.0000001"],
                                      ["-1", "-10", "-0.5", "-4.50", "-100.000", "-0.01", "-79228162514264337593543950335"]):
            out.append(self.mk("b:total-negative", txn(posts=["a  %s ACME = %s EUR" % (a, t), "b"])))
            out.append(self.mk("b:total-negative", txn(posts=["a  %s ACME = %s EUR ; c" % (a, t), "b  %s EUR" % t[1:]])))
        for a, t in [("-1", "1"), ("1", "-1"), ("-1", "0"), ("-1", "-0"), ("-1", "-0.00")]:
            out.append(self.mk("b:total-negative", txn(posts=["a  %s ACME = %s EUR" % (a, t), "b"])))
        # locations with `-0` coordinates (a negative zero is read as zero and printed without the sign)
        for l in loc0:
            out.append(self.mk("b:geo-neg-zero", txn(meta=" # location: %s\n" % l)))
            out.append(self.mk("b:geo-neg-zero", txn(meta=" # uuid: %s\n # location: %s\n # tags: a\n" % (U, l), code="", desc="")))
            out.append(self.mk("b:geo-neg-zero", txn(meta=" #  location:   %s  \n" % l.replace(",", " , "))))
        # amounts, prices and totals with trailing zeros (the stored scale is what the export prints)
        for a in ["1.0", "1.00", "-1.000", "10.10", "0.10", "-0.0100", "100.0000000000", "1.0000000000000000000000000000", "-2.50"]:
            out.append(self.mk("b:trailing-zeros", txn(posts=["a  " + a, "b"])))
            out.append(self.mk("b:trailing-zeros", txn(posts=["a  " + a + " EUR", "b  " + common.neg_text(a) + " EUR"])))
            for pr in ["2.0", "2.50", "1.000", "0.500"]:
                if len(a) < 20:
                    out.append(self.mk("b:trailing-zeros", txn(posts=["a  %s ACME @ %s EUR" % (a, pr), "b"])))
            tot = ("-" if a.startswith("-") else "") + "3.00"
            out.append(self.mk("b:trailing-zeros", txn(posts=["a  %s ACME = %s EUR" % (a, tot), "b"])))
        # CRLF input: every kind of line ends with \r\n
        full = txn(ts="2024-05-05T05:05:05.5+05:45", code="", desc="", meta=" # uuid: %s\n # location: geo:-0,-0.0,0\n # tags: a, b:c\n" % U,
                   comments=[";", ";  x  "], posts=["a  -2 ACME = -3.00 EUR ;", "b  1.50 ACME @ 2.0 EUR ;  c ", "c ;"])
        plain = txn(ts="2024-05-06", posts=["a  1.00", "b"])
        for text in [full, plain, full + "\n" + plain, plain + "\n\n" + full + "\n", "\n" + full + " \n\t\n" + plain]:
            out.append(self.mk("b:crlf", text.replace("\n", "\r\n")))
            out.append(self.mk("b:crlf", text.replace("\n", "\r\n", 3)))           # mixed line endings
        for c, d in itertools.product(["", "c"], ["", "d ", " d"]):
            out.append(self.mk("b:crlf", txn(code=c, desc=d, comments=[";", "; x "]).replace("\n", "\r\n")))
        # offsets: -00:00 / +00:00 / Z, +14:00 / -12:00, the extremes, minutes above 59 (accepted by the code)
        for off in ["-00:00", "+00:00", "Z", "+14:00", "-12:00", "+13:45", "-09:30", "+25:59", "-25:59", "+00:59", "-00:59", "+00:99", "-24:99", "+26:00", "-26:00", "+25:60"]:
            for ts in ["2024-06-30T12:34:56", "2024-01-01T00:00:00", "2024-12-31T23:59:59.999999999", "0000-01-01T00:00:00", "9999-12-30T21:00:00"]:
                out.append(self.mk("b:offset", txn(ts=ts + off)))
        # nanosecond fractions: 1..9 digits, leading / trailing zeros, extremes
        for fr in ["0", "1", "9", "000000001", "999999999", "123456789", "100000000", "000000000", "10", "01", "5000", "000000010", "1234567890"]:
            for tail in ["", "Z", "+02:00", "-00:00"]:
                out.append(self.mk("b:ns-fraction", txn(ts="2024-06-30T12:34:56." + fr + tail)))
            out.append(self.mk("b:ns-fraction", txn(ts="1969-12-31T23:59:59." + fr + "Z")))
        # years 0000 and 9999, also across the year boundary through offset, configured zone and default time
        ycfgs = [{}, {"tz": {"offset": "+14:00"}}, {"tz": {"offset": "-12:00"}, "default_time": "23:59:59.999999999"}, {"tz": {"offset": "+05:45"}, "default_time": "00:00:00.000000001"}]
        for ts in ["0000-01-01", "0000-12-31", "0000-02-29", "0000-01-01T00:00:00", "0000-01-01T00:00:00Z", "0000-01-01T00:00:00+14:00", "0000-01-01T00:00:00-12:00",
                   "0000-01-01T00:00:00.000000001+25:59", "0000-12-31T23:59:59.999999999-25:59", "9999-01-01", "9999-12-30", "9999-12-31", "9999-12-30T22:00:00.999999999Z",
                   "9999-12-30T22:00:01Z", "9999-12-31T23:59:59+25:59", "9999-12-31T23:59:59.999999999+14:00", "9999-12-31T00:00:00+02:00", "9999-12-30T00:00:00-25:59",
                   "0001-01-01T00:00:00+00:01", "0000-12-31T23:59:59.999999999-00:01"]:
            for cfg in ycfgs:
                out.append(self.mk("b:year-0000-9999", txn(ts=ts), cfg=dict(cfg)))
        # F13, fixed-offset form: a *configured* offset with seconds (`%:z` accepts `+HH:MM:SS`) is printed with seconds
        for off in ["+01:39:49", "-00:00:01", "+00:00:59"]:
            for ts in ["2024-01-01", "2024-01-01T12:00:00", "2024-01-01T12:00:00+02:00"]:
                out.append(self.mk("cfg-offset-seconds", txn(ts=ts), cfg={"tz": {"offset": off}}))
        return out

    def repo_examples(self):
        """the journals the repository ships (examples/*/txns/*.txn): read from the tree under test on every run"""
        import glob
        import os
        out = []
        root = os.path.realpath(os.environ.get("TK_REPO", "/repo"))
        for f in sorted(glob.glob(os.path.join(root, "examples", "*", "txns", "*.txn"))):
            try:
                text = open(f, encoding="utf-8").read()
            except (OSError, UnicodeDecodeError):
                continue
            out.append(self.mk("repo-example", text))
        return out

    def gen_large(self, rng):
        """a journal larger than any plausible batch size of a writer (1025 .. 2100 transactions): the export is one
        transaction after the other with a blank line between any two, whatever the size"""
        import datetime
        n = rng.choice([1025, 1030, 2049, 2100])
        base = common.civil_to_ns(2024, 1, 1, 0, 0, 0, 0, 0)
        parts = []
        for i in range(n):
            dt = common.EPOCH + datetime.timedelta(seconds=base // 10 ** 9 + i * 600)
            parts.append("%s (%d) 'n%d\n e:x  %d.%02d\n a:cash\n" % (dt.strftime("%Y-%m-%dT%H:%M:%SZ"), i, i % 9, 1 + i % 50, i % 100))
        return self.mk("large:%d" % n, "\n".join(parts))

    def gen(self, rng, tier, focus=None):
        out = list(self.boundary(rng)) + self.repo_examples()
        for _ in range(1 if tier == "quick" else 6):
            out.append(self.gen_large(rng))
        n = 700 if tier == "quick" else 25000
        for i in range(n):
            cfg = {}
            r = rng.random()
            if r < 0.3:
                cfg["tz"] = {"offset": rng.choice(["+02:00", "-05:30", "+00:00", "+14:00", "-12:00", "+05:45"])}
            if rng.random() < 0.2:
                cfg["default_time"] = rng.choice(["12:34:56", "23:59:59", "00:00:01", "08:00:00"])
            opts = {"p_invalid": 0.0, "big": rng.random() < 0.08, "p_price": rng.choice([0.0, 0.3, 0.6]), "p_opening": rng.choice([0.0, 0.2]),
                    "comms": common.COMMS[:rng.randrange(1, 7)], "p_code": 0.5, "p_desc": 0.6, "p_uuid": 0.6, "p_loc": 0.4,
                    "p_tags": 0.5, "p_comments": 0.5, "p_comm": 0.7}
            txns = common.gen_journal(rng, cfg, opts)
            text = common.render_journal(txns, common.gen_layout(rng))
            out.append(self.mk("random", text, cfg=cfg, txns=txns, astcheck=True))
        return out

    # ---- running
    def impl_case(self, case):
        return {k: v for k, v in case.items() if k not in ("txns", "astcheck", "kind")}

    def model_case(self, case):
        ts = model_tscfg(case.get("cfg", {}))
        if ts is None:
            return None
        c = {k: v for k, v in case.items() if k not in ("kind",)}
        c["cfg"] = model_cfg(case.get("cfg", {}))
        off = (case.get("cfg", {}).get("tz") or {}).get("offset", "")
        if off.count(":") == 2:                    # `+HH:MM:SS` (model_tscfg reads hours and minutes only)
            sec = int(off.split(":")[2])
            ts = dict(ts, offset=ts["offset"] + (-sec if off.startswith("-") else sec))
        c["tscfg"] = ts
        c["want"] = ["txns", "identity", "roundtrip"]
        return c

    def run_impl(self, impl_cases):
        """load; then load the identity export again and export that"""
        first = common.run_driver([common.TK_IMPL], impl_cases)
        second, where = [], []
        for i, (c, a) in enumerate(zip(impl_cases, first)):
            if isinstance(a, dict) and a.get("r") == "OK":
                ident = a.get("out", {}).get("identity", {})
                if ident.get("r") == "OK":
                    second.append({"op": "run", "cfg": c.get("cfg", {}), "text": ident["v"], "want": ["txns", "identity"]})
                    where.append(i)
        for i, a in zip(where, common.run_driver([common.TK_IMPL], second)):
            first[i]["reparse"] = a
        return first

    # ---- judgement
    def compare(self, case, impl, model):
        d = cmp_status(impl, model)
        if d:
            return d
        if case.get("astcheck") and model.get("ast") != "same":
            return "Syntax.parseJournal(text) vs generator AST: %s" % model.get("ast")
        if impl.get("r") != "OK":
            return None
        a, b = impl["out"]["txns"], model["out"]["txns"]
        if a.get("r") != "OK" or b.get("r") != "OK":
            return "txns output status impl=%s model=%s" % (a.get("r"), b.get("r"))
        if a["v"] != b["v"]:
            for x, y in zip(a["v"], b["v"]):
                if x != y:
                    return "accepted transactions differ: impl=%s model=%s" % (str(x)[:700], str(y)[:700])
            return "number of accepted transactions differs"
        ia, ib = impl["out"]["identity"], model["out"]["identity"]
        if ib.get("r") == "UNDEF":
            return "skip"
        if ia.get("r") != "OK" or ib.get("r") != "OK":
            return "identity output status impl=%s model=%s" % (ia.get("r"), ib.get("r"))
        if ia["v"] != ib["v"]:
            return "identity export differs: impl=%r model=%r" % (first_diff(ia["v"], ib["v"]))
        rt = model["out"]["roundtrip"]
        if rt.get("r") == "UNDEF":
            return "skip"
        if has_offset_seconds(ib["v"]):
            # F13 inside the model (a configured offset with seconds): model and implementation print the same
            # `+HH:MM:SS`, and the model, too, does not read it back (Props/C06b `offset_seconds_not_tsOK`)
            v = rt.get("v", {})
            if rt.get("r") == "OK" and v.get("reparse") == "OK":
                return "the model re-parses an offset with seconds: %s" % v
            return None
        if rt.get("r") != "OK":
            return "model round trip status %s" % rt.get("r")
        v = rt["v"]
        if v.get("reparse") != "OK" or not v.get("same_txns") or not v.get("same_text"):
            return "the model's own round trip fails: %s (export %r)" % (v, ib["v"][:300])
        return None

    def oracle(self, case, impl):
        if impl.get("r") != "OK":
            return None          # rejected journals (and crashes: C15's business) are outside the quantifier
        out = impl["out"]
        tx, ident = out.get("txns", {}), out.get("identity", {})
        if tx.get("r") != "OK" or ident.get("r") != "OK":
            return {"sig": "output:%s/%s" % (tx.get("r"), ident.get("r")), "what": "accepted set cannot be listed/exported"}
        self.remember(case)
        rp = impl.get("reparse")
        if rp is None:
            return {"sig": "no-reparse", "what": "identity export was not re-loaded"}
        if rp.get("r") != "OK":
            if has_offset_seconds(ident["v"]):
                return {"sig": "F13:offset-seconds", "what": "export prints an offset with seconds, which the grammar rejects"}
            if inexact(tx["v"]):
                return {"sig": "F17:inexact-arithmetic", "what": "export of a journal with inexact price arithmetic does not load again"}
            return {"sig": "export-rejected", "what": "identity export is not accepted again: %s" % str(rp.get("msg"))[:300]}
        a, b = tx["v"], rp["out"]["txns"]["v"]
        if len(a) != len(b):
            return {"sig": "count", "what": "accepted %d transactions, the export holds %d" % (len(a), len(b))}
        for x, y in zip(a, b):
            for k in ("ts", "code", "desc", "uuid", "loc", "tags", "comments"):
                if x[k] != y[k]:
                    return {"sig": "field:" + k, "what": "%s differs after export/re-load: %r vs %r" % (k, x[k], y[k])}
            if len(x["posts"]) != len(y["posts"]):
                return {"sig": "field:posts", "what": "posting count differs"}
            for p, q in zip(x["posts"], y["posts"]):
                for k in ("acct", "comm", "amount", "txn_comm", "is_total", "comment"):
                    if p[k] != q[k]:
                        return {"sig": "field:posting." + k, "what": "posting %s differs after export/re-load: %r vs %r" % (k, p, q)}
                if common.D(p["txn_amount"]) != common.D(q["txn_amount"]):
                    if inexact([x]):
                        return {"sig": "F17:inexact-arithmetic", "what": "transaction amount changes after export/re-load (inexact unit price)"}
                    return {"sig": "field:posting.txn_amount", "what": "transaction amount differs after export/re-load: %r vs %r" % (p, q)}
        i2 = rp["out"].get("identity", {})
        if i2.get("r") != "OK":
            return {"sig": "output2:%s" % i2.get("r"), "what": "re-loaded set cannot be exported"}
        if i2["v"] != ident["v"]:
            return {"sig": "not-a-fixpoint", "what": "export of the re-loaded journal differs: %r vs %r" % first_diff(ident["v"], i2["v"])}
        return None

    def nontrivial(self, case, impl):
        return impl.get("r") == "OK"

    def rule(self):
        return ("journal texts: boundary classes (code x description incl. empty/blank/quote/Unicode-space forms, metadata in all orders and "
                "spacings, empty and blank-padded comments on headers and postings, the three timestamp notations with 1-9 fraction digits, "
                "offsets -25:59..+25:59, configured zone offset and default time, amounts with leading/trailing zeros and 28/29 digits, '@' "
                "prices and '=' totals over amount/price grids, opening positions, unusual account/commodity names, equal-key orderings, "
                "CRLF, strict/audit settings, a named zone (F13); and, one kind each (b:*), the classes of DESIGN section 5: empty code '()', empty "
                "description, empty comment ';', comments with leading/trailing blanks, '=' totals with negative amounts, '-0' coordinates, "
                "trailing zeros, CRLF and mixed line endings, offsets -00:00/+14:00/extremes/minutes > 59, 1-9 digit nanosecond fractions, "
                "years 0000 and 9999 across offsets and configured zones, a configured offset with seconds (F13, fixed-offset form)) "
                "and random journal ASTs with every header feature rendered in random "
                "layouts; non-trivial = accepted by the implementation; distinct = sha256 of the implementation case line")

    def trusted_base(self):
        return super().trusted_base() + [
            "rust_decimal division is a parameter of the printer (contract DivExact); the driver's Dec.divQuot covers exact integer "
            "quotients, other unit prices are UNDEF (skipped by the tie, still checked by the oracle)",
            "for the model's own division Dec.divQuot the contract DivExact is a theorem on every accepted posting "
            "(Props/C06b accepted_unit_price_div_exact); that rust_decimal's Div agrees with it is what the tie checks: the printed "
            "unit price of every generated '@' posting is compared byte for byte",
            "civil-date arithmetic of Model/Time (civilAt / daysFromCivil) is validated by the tie; its inverse law is proved for all "
            "instants (Lemmas/Time), so the timestamp round trip has no per-instant hypothesis (Props/C06b tsOK_of_resolved)"]

    def assumptions(self):
        return ["journal zone is a fixed offset of whole minutes (named zones and configured offsets with seconds: F13, known finding)",
                "unit-price products are exact (ExactDomain); otherwise F17"]


def D0(t):
    return common.D(t) != 0


def first_diff(a, b):
    i = 0
    while i < min(len(a), len(b)) and a[i] == b[i]:
        i += 1
    return a[max(0, i - 40):i + 40], b[max(0, i - 40):i + 40]


def has_offset_seconds(text):
    import re
    return re.search(r"^\d{4}-\d\d-\d\dT\d\d:\d\d:\d\d(\.\d+)?[+-]\d\d:\d\d:\d\d", text, re.M) is not None


def inexact(txns):
    for t in txns:
        for p in t["posts"]:
            if p["comm"] != p["txn_comm"] and not p["is_total"]:
                a, ta = common.D(p["amount"]), common.D(p["txn_amount"])
                q = ta / a
                if not common.dec_fits(q) or q * a != ta:
                    return True
    return False


import deccontract  # noqa: E402
deccontract.install(C06, ["div", "show", "parse"])
PROP = C06()

"""C01 — accepted transactions are balanced in one commodity; others are rejected."""
from decimal import Decimal as D

import common
from propbase import PropBase, model_cfg, cmp_status

BOUNDARY = ["implicit_zero", "opening_only", "zero_posting", "mixed_comm", "price_same_comm", "neg_unit_price",
            "total_sign", "unbalanced", "neg_opening", "written_cancel"]


def sum_chain_exact(texts):
    """does the left fold 0 + t1 + t2 + ... stay inside rust_decimal's exact domain (aligned to the larger
    scale, coefficient within 96 bits)?"""
    acc = D(0)
    acc_scale = 0
    first = True
    for t in texts:
        d = D(t)
        sc = common.dec_scale(t)
        if acc == 0:
            acc, acc_scale = d, sc
            continue
        if d == 0:
            continue
        s = max(acc_scale, sc)
        z = acc + d
        if abs(int(z.scaleb(s))) > common.MAX96:
            return False
        acc, acc_scale = z, s
    return True


def must_reject(rt):
    """the rejection classes of the property statement that can be read off one written transaction"""
    total = D(0)
    exact = True
    for p in rt["posts"]:
        amt = D(p["amount"])
        if amt == 0:
            return "zero_posting"
        u = p.get("unit") or {}
        cl = u.get("closing")
        if cl:
            if cl["c"] == u.get("comm"):
                return "price_same_comm"
            v = D(cl["v"])
            if cl["k"] == "@":
                if v < 0:
                    return "neg_unit_price"
                total += amt * v
            else:
                if (v < 0) != (amt < 0):
                    return "total_sign"
                total += v
        else:
            total += amt
        if not common.dec_fits(total):
            exact = False
    if rt.get("last") and exact and total == 0 and sum_chain_exact([x["amount"] for x in rt["posts"]]) \
            and not any((x.get("unit") or {}).get("closing") for x in rt["posts"]):
        return "implicit_zero"
    return None


class C01(PropBase):
    id = "C01"

    def gen(self, rng, tier, focus=None):
        n = 1500 if tier == "quick" else 60000
        out = []
        # boundary classes: one fault kind at a time on small journals
        for kind in BOUNDARY:
            for _ in range(25 if tier == "quick" else 400):
                cfg = {}
                txns = common.gen_journal(rng, cfg, {"p_invalid": 1.0, "fault": kind, "n_txns": rng.choice([1, 1, 2, 3]),
                                                      "p_price": 0.3, "p_opening": 0.2})
                out.append(self.mk(rng, cfg, txns, "fault:" + kind))
        # explicit amounts whose running sum leaves the 96-bit range (checked arithmetic: the transaction must be
        # rejected, never accepted with an unchecked or ignored sum); both signs, with and without fraction digits
        for _ in range(30 if tier == "quick" else 400):
            out.append(self.mk(rng, {}, [self.overflow_txn(rng)], "overflow-explicit"))
        # amount x unit price beyond the 96-bit range: an error, never a clamped or wrapped value that happens to be
        # balanced by the other postings (or handed to an amount-less last posting)
        for _ in range(20 if tier == "quick" else 300):
            out.append(self.mk(rng, {}, [self.overflow_product_txn(rng)], "overflow-product"))
        for i in range(n):
            cfg = {}
            big = rng.random() < 0.1
            opts = {"p_invalid": 0.12, "big": big, "p_price": rng.choice([0.0, 0.25, 0.5]),
                    "p_opening": rng.choice([0.0, 0.15]), "comms": common.COMMS[:rng.randrange(1, 5)]}
            txns = common.gen_journal(rng, cfg, opts)
            out.append(self.mk(rng, cfg, txns, "big" if big else "random"))
        return out

    def overflow_product_txn(self, rng):
        M = 2 ** 96 - 1
        amt = rng.choice([M, M - 1, M // 2 + 1, 5 * 10 ** 28, 4 * 10 ** 28])
        price = rng.choice(["2", "3", "10", "1.5", "2.0"])
        neg = rng.random() < 0.3
        t = common.gen_header(rng, {}, {"p_uuid": 0.0, "p_loc": 0.0, "p_tags": 0.0, "p_comments": 0.0})
        t["posts"] = [{"acct": "e:big", "amount": ("-" if neg else "") + str(amt), "comment": None,
                       "unit": {"comm": "ACME", "opening": None, "closing": {"k": "@", "v": price, "c": "EUR"}}}]
        shape = rng.choice(["implicit", "max", "max", "two"])
        eur = {"comm": "EUR", "opening": None, "closing": None}
        if shape == "implicit":
            t["last"] = {"acct": "a:cash", "comment": None}
        elif shape == "max":
            t["posts"].append({"acct": "a:cash", "amount": ("" if neg else "-") + str(M), "unit": eur, "comment": None})
            t["last"] = None
        else:
            t["posts"].append({"acct": "a:cash", "amount": ("" if neg else "-") + str(M - 7), "unit": eur, "comment": None})
            t["posts"].append({"acct": "a:fee", "amount": ("" if neg else "-") + "7", "unit": eur, "comment": None})
            t["last"] = None
        return t

    def overflow_txn(self, rng):
        M = 2 ** 96 - 1
        sc = rng.choice([0, 0, 1, 3])
        sgn = rng.choice([1, -1])

        def txt(v):
            s = str(abs(v)).rjust(sc + 1, "0")
            return ("-" if v < 0 else "") + (s if sc == 0 else s[:-sc] + "." + s[-sc:])
        first = sgn * (M - rng.randrange(0, 3))
        second = sgn * rng.randrange(1, 10)
        rest = rng.choice([[-sgn * rng.randrange(1, 10)], [-first, -second], [-sgn * rng.randrange(1, 10), -sgn * 2]])
        vals = [first, second] + rest
        if rng.random() < 0.3:
            vals = [second, first] + rest
        comm = rng.choice(["", "EUR"])
        unit = {"comm": comm, "opening": None, "closing": None} if comm else None
        return {"ts": {"ns": str(1704067200 * 10 ** 9), "off": 0, "text": "2024-01-01T00:00:00Z"}, "code": None, "desc": None,
                "uuid": None, "loc": None, "tags": None, "comments": None, "last": None,
                "posts": [{"acct": "o:%s" % "abcdef"[i], "amount": txt(v), "unit": unit, "comment": None} for i, v in enumerate(vals)]}

    def mk(self, rng, cfg, txns, kind):
        layout = common.gen_layout(rng)
        text = common.render_journal(txns, layout)
        return {"op": "run", "kind": kind, "cfg": cfg, "txns": txns, "text": text, "layout": layout, "want": ["txns"]}

    def impl_case(self, case):
        return {k: v for k, v in case.items() if k != "txns"}

    def model_case(self, case):
        c = {k: v for k, v in case.items() if k != "text"}
        c["cfg"] = model_cfg(case.get("cfg", {}))
        return c

    def compare(self, case, impl, model):
        d = cmp_status(impl, model)
        if d:
            return d
        if impl.get("r") != "OK":
            return None
        a = impl["out"]["txns"]
        b = model["out"]["txns"]
        if a.get("r") != "OK" or b.get("r") != "OK":
            return "txns output status impl=%s model=%s" % (a.get("r"), b.get("r"))
        if a["v"] != b["v"]:
            for x, y in zip(a["v"], b["v"]):
                if x != y:
                    return "accepted transactions differ: impl=%s model=%s" % (str(x)[:600], str(y)[:600])
            return "number of accepted transactions differs"
        return None

    def oracle(self, case, impl):
        """the property on the implementation alone: every accepted transaction is balanced in one commodity"""
        r = impl.get("r")
        if r in ("PANIC", "ABORT", "TIMEOUT"):
            return None     # C15's business
        if r != "OK":
            return None
        txns = impl["out"]["txns"]
        if txns.get("r") != "OK":
            return {"sig": "txns-output", "what": "accepted set cannot be listed: %s" % txns.get("r")}
        self.remember(case)
        for t in txns["v"]:
            posts = t["posts"]
            comms = {p["txn_comm"] for p in posts}
            if len(comms) != 1:
                return {"sig": "mixed-txn-commodity", "what": "accepted transaction with transaction commodities %s" % sorted(comms), "txn": t}
            total = sum(D(p["txn_amount"]) for p in posts)
            for p in posts:
                if D(p["amount"]) == 0:
                    return {"sig": "zero-posting", "what": "accepted transaction has a zero posting on %s" % p["acct"], "txn": t}
                if p["comm"] == p["txn_comm"] and D(p["amount"]) != D(p["txn_amount"]):
                    return {"sig": "own-commodity-value", "what": "posting in the transaction commodity valued differently from its amount", "txn": t}
            if total != 0:
                # F17 is silent *rounding*: each rounded addition is off by at most half a unit, so the exact sum of a
                # transaction accepted because of it is smaller than the number of postings; anything larger is not F17
                if not sum_chain_exact([p["txn_amount"] for p in posts]) and abs(total) < len(posts):
                    return {"sig": "F17:inexact-arithmetic", "what": "accepted transaction sums to %s (a partial sum is not representable, rust_decimal rounded silently)" % total, "txn": t}
                return {"sig": "nonzero-sum", "what": "accepted transaction sums to %s" % total, "txn": t}
        # relation to the written journal (exact domain only): closing prices and the implicit posting
        src = {}
        for rt in case.get("txns", []):
            src.setdefault((rt["ts"]["ns"], rt.get("code"), rt.get("desc"), rt.get("uuid")), []).append(rt)
        for t in txns["v"]:
            k = (t["ts"]["ns"], t.get("code"), t.get("desc"), t.get("uuid"))
            cands = src.get(k, [])
            if len(cands) != 1:
                continue
            rt = cands[0]
            posts = t["posts"]
            for rp, p in zip(rt["posts"], posts):
                if p["comm"] != p["txn_comm"]:
                    u = rp.get("unit") or {}
                    cl = u.get("closing")
                    if not cl or cl["c"] != p["txn_comm"]:
                        return {"sig": "foreign-unpriced", "what": "posting in %s inside a %s transaction without a closing price" % (p["comm"], p["txn_comm"]), "txn": t}
                    exact = D(rp["amount"]) * D(cl["v"]) if cl["k"] == "@" else D(cl["v"])
                    if common.dec_fits(exact) and D(p["txn_amount"]) != exact:
                        return {"sig": "price-value", "what": "priced posting valued %s, expected %s" % (p["txn_amount"], exact), "txn": t}
                    if abs(int(exact)) > 2 ** 96 - 1:
                        # the value is beyond the 96-bit range whatever the scale: no stored number can stand for it, so a
                        # transaction containing it cannot have been accepted as balanced
                        return {"sig": "price-value-overflow",
                                "what": "priced posting %s %s @ %s is worth %s, beyond the number range, yet accepted with value %s" % (
                                    rp["amount"], p["comm"], cl["v"], exact, p["txn_amount"]), "txn": t}
            if rt.get("last") and len(posts) == len(rt["posts"]) + 1:
                others = sum(D(p["txn_amount"]) for p in posts[:-1])
                lp = posts[-1]
                if D(lp["amount"]) != -others and not sum_chain_exact([p["txn_amount"] for p in posts[:-1]]):
                    return {"sig": "F17:inexact-arithmetic", "what": "implicit posting %s is not the exact negated sum %s (rounded partial sum)" % (lp["amount"], -others), "txn": t}
                if D(lp["amount"]) != -others or lp["comm"] != lp["txn_comm"]:
                    return {"sig": "implicit-last", "what": "implicit posting %s %s, expected %s" % (lp["amount"], lp["comm"], -others), "txn": t}
        # a journal that contains a transaction of a class the property names must not be accepted
        # (judged from the written content, not from the generator's tag, so that shrinking stays sound)
        for rt in case.get("txns", []):
            f = must_reject(rt)
            if f:
                return {"sig": "accepted-fault:" + f, "what": "journal with a %s transaction was accepted" % f}
        return None

    def nontrivial(self, case, impl):
        ts = case.get("txns", [])
        feats = 0
        for t in ts:
            if t.get("last"):
                feats += 1
            for p in t["posts"]:
                u = p.get("unit")
                if u and (u.get("closing") or u.get("opening")):
                    feats += 1
            if t.get("fault"):
                feats += 1
        return feats > 0

    def rule(self):
        return ("journal ASTs from gen/common.py (accounts from a generated tree, 0-4 commodities, amounts incl. "
                "trailing zeros and near-2^96 values, closing '@'/'=' and opening '{..}' positions, implicit last "
                "posting, one injected semantic fault with p=0.12, plus one boundary class per fault kind), rendered "
                "with a random layout; non-trivial = uses an implicit last posting, a value position or an injected "
                "fault; distinct = sha256 of the implementation case line")

    def trusted_base(self):
        return super().trusted_base() + [
            "modelled, not verified: rust_decimal add/mul outside the exact domain (model answers UNDEF, case skipped); "
            "the text grammar (the model reads the generated AST, the implementation reads its rendering)"]

    def assumptions(self):
        return ["parsed numbers have scale <= 28 (RawWF; established by Dec.ofToken, theorem ofToken_wf)",
                "inexact decimal arithmetic is outside the modelled domain (DESIGN.md F17, known finding)"]


import deccontract  # noqa: E402
deccontract.install(C01, ["mul", "parse", "neg"])
PROP = C01()

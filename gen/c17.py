"""C17 — report figures round half-away-from-zero to the configured scale, display only.

Two case shapes:
* op `fmt`: one figure `d` and a scale.  The implementation is driven through the *real reporters*: a one-pair
  journal ` e:own  d / x:bal` is loaded and the figure is read off every printed position (balance own / tree /
  delta, balance-group own / tree / delta, register amount / running total, for d and -d), plus the direct
  contract test of `Scale::get_precision` + `round_dp_with_strategy` + `{:.prec$}`.  The model answers with
  `shown sc d`.
* op `run` on generated journals at a random scale (journal-level tie): the model's `balanceReport`,
  `registerReport` and `balgrpReport` (engine figures through `shown`; output kinds `baltxt`, `regtxt`,
  `balgrptxt`) against the figures parsed from the real balance, register and balance-group report texts at the
  same scale, row by row.

Oracle (no Lean involved): python `decimal` with ROUND_HALF_UP applied to the *exact* figures (the figure `d`
itself, or the same journal reported at scale 0..28, which prints every figure as stored; those in turn are
re-computed from the accepted postings), decimals within [min, max], parts-vs-total relation.
"""
import decimal
from decimal import Decimal as D

import common
from propbase import PropBase, model_cfg, cmp_status

MAXS = 28


# ---------------------------------------------------------------------------------------------
# independent arithmetic (python decimal)

def py_precision(text, mn, mx):
    return max(min(common.dec_scale(text), mx), mn)


def unsign_zero(t):
    """'-0.00' and '0.00' denote the same value; the property does not fix the sign of a zero"""
    if t.startswith("-") and D(t) == 0:
        return t[1:]
    return t


def py_shown(text, mn, mx):
    """the exact figure `text` (stored form) as the property wants it printed"""
    p = py_precision(text, mn, mx)
    q = D(text).quantize(D(1).scaleb(-p), rounding=decimal.ROUND_HALF_UP)
    return unsign_zero(format(q, "f"))


def is_number(t):
    body = t[1:] if t.startswith("-") else t
    parts = body.split(".")
    return 1 <= len(parts) <= 2 and all(x.isdigit() and x.isascii() for x in parts)


def check_figure(where, shown, exact, mn, mx):
    """None or a finding: the printed figure `shown` against the exact figure `exact` (stored-form text)"""
    if not is_number(shown):
        return {"sig": "figure-not-a-number", "what": "%s: printed %r is not a plain decimal" % (where, shown)}
    dec = common.dec_scale(shown)
    if dec < mn or dec > mx:
        return {"sig": "decimals-out-of-bounds",
                "what": "%s: %s has %d decimals, scale is %d..%d (exact figure %s)" % (where, shown, dec, mn, mx, exact)}
    e = D(exact)
    unit = D(1).scaleb(-mx)
    fits = (e / unit) == (e / unit).to_integral_value()
    if fits and D(shown) != e:
        return {"sig": "fitting-figure-not-exact",
                "what": "%s: %s needs no more than %d decimals but is printed as %s" % (where, exact, mx, shown)}
    want = e.quantize(unit, rounding=decimal.ROUND_HALF_UP)
    if D(shown) != want:
        other = {"half-even": decimal.ROUND_HALF_EVEN, "truncated": decimal.ROUND_DOWN, "half-down": decimal.ROUND_HALF_DOWN,
                 "floor": decimal.ROUND_FLOOR, "ceiling": decimal.ROUND_CEILING, "up": decimal.ROUND_UP}
        how = "other"
        for name, mode in other.items():
            if D(shown) == e.quantize(unit, rounding=mode):
                how = name
                break
        return {"sig": "not-half-away:" + how,
                "what": "%s: exact %s printed as %s, half-away-from-zero at %d decimals is %s (looks %s)" % (
                    where, exact, shown, mx, format(want, "f"), how)}
    if unsign_zero(shown) != py_shown(exact, mn, mx):
        return {"sig": "text-form",
                "what": "%s: exact %s printed as %s, expected %s" % (where, exact, shown, py_shown(exact, mn, mx))}
    return None


# ---------------------------------------------------------------------------------------------
# report text -> figures (blank-separated tokens; widths and alignment are not compared)

def parse_blocks(text):
    """balance-shaped reports -> list of blocks (title, rows [(comm, acct, own, tree)], deltas [(comm, sum)]).
    A block starts at a non-indented line followed by a ruler of '-'; rows are the indented lines up to the '='
    ruler, deltas the indented lines after it."""
    lines = text.split("\n")
    blocks = []
    i = 0
    while i + 1 < len(lines):
        ln, nx = lines[i], lines[i + 1]
        if ln and not ln.startswith(" ") and nx and set(nx) == {"-"}:
            title = ln
            rows, deltas = [], []
            j = i + 2
            in_d = False
            while j < len(lines):
                l2 = lines[j]
                if l2.startswith("="):
                    in_d = True
                elif l2.startswith(" ") and l2.strip():
                    tok = l2.split()
                    if in_d:
                        deltas.append((tok[1] if len(tok) > 1 else "", tok[0]))
                    elif len(tok) == 3:
                        rows.append(("", tok[2], tok[0], tok[1]))
                    elif len(tok) == 4:
                        rows.append((tok[2], tok[3], tok[0], tok[1]))
                    else:
                        rows.append(("?", l2, "?", "?"))
                else:
                    break
                j += 1
            blocks.append((title, rows, deltas))
            i = j
        else:
            i += 1
    return blocks


def block_lines(text):
    """the lines of the first balance-shaped block after its title and underline, exactly as written
    (rows, the '=' ruler, delta lines)"""
    lines = text.split("\n")
    i = 0
    while i + 1 < len(lines):
        ln, nx = lines[i], lines[i + 1]
        if ln and not ln.startswith(" ") and nx and set(nx) == {"-"}:
            out = []
            j = i + 2
            while j < len(lines) and (lines[j].startswith("=") or (lines[j].startswith(" ") and lines[j].strip())):
                out.append(lines[j])
                j += 1
            return out
        i += 1
    return []


def parse_register(text):
    """-> list of entries, each a list of (acct, amount, total, comm) (no price conversion)"""
    lines = text.split("\n")
    try:
        i = lines.index("REGISTER")
    except ValueError:
        return None
    entries, cur = [], None
    for ln in lines[i + 2:]:
        if not ln:
            continue
        if set(ln) == {"-"}:
            if cur is not None:
                entries.append(cur)
            cur = None
        elif not ln.startswith(" "):
            cur = []
        else:
            t = ln.strip()
            if t.startswith("#") or t.startswith(";"):
                continue
            tok = t.split()
            if cur is None:
                cur = []
            if len(tok) == 3:
                cur.append((tok[0], tok[1], tok[2], ""))
            elif len(tok) == 4:
                cur.append((tok[0], tok[1], tok[2], tok[3]))
            else:
                cur.append((ln, "?", "?", "?"))
    return entries


def report_crashed(ans):
    """a report of op `run` panicked"""
    for k, o in sorted((ans.get("out") or {}).items()):
        if isinstance(o, dict) and o.get("r") == "PANIC":
            return {"sig": "report-crashed", "what": "%s report panics: %s" % (k, (o.get("msg") or "")[:160])}
    return None


def out_text(ans, key):
    """text of an output of op `run`, or None"""
    o = (ans.get("out") or {}).get(key)
    if not o or o.get("r") != "OK":
        return None
    return o.get("v")


GROUP_BYS = ["year", "month", "date", "iso-week", "iso-week-date"]


def split_reg_row(line, accts):
    """a posting line of the register report whose account name touches the amount column (a name of 33 or more
    characters followed by a negative figure that fills its column): split it with the help of the known account
    names -> (acct, amount, total, comm) or None"""
    body = line.strip()
    for a in sorted(accts, key=len, reverse=True):
        if body.startswith(a):
            tok = body[len(a):].split()
            if len(tok) == 2 and is_number(tok[0]) and is_number(tok[1]):
                return (a, tok[0], tok[1], "")
            if len(tok) == 3 and is_number(tok[0]) and is_number(tok[1]):
                return (a, tok[0], tok[1], tok[2])
    return None


def repair_reg_rows(rows, accts):
    """rows of `common.parse_register_report` / `parse_register`: re-split the unreadable ones"""
    out = []
    for r in rows:
        if r[1] == "?" or r[0] == "?":
            line = r[1] if r[0] == "?" else r[0]
            out.append(split_reg_row(line, accts) or r)
        else:
            out.append(r)
    return out


def period_key(ns, group_by):
    """the period text of an instant in UTC (python datetime; independent of the Lean model)"""
    import datetime
    dt = datetime.datetime(1970, 1, 1) + datetime.timedelta(seconds=int(ns) // 10 ** 9)
    if group_by == "year":
        return "%04d" % dt.year
    if group_by == "month":
        return "%04d-%02d" % (dt.year, dt.month)
    if group_by == "date":
        return "%04d-%02d-%02d" % (dt.year, dt.month, dt.day)
    iy, iw, iwd = dt.isocalendar()
    if group_by == "iso-week":
        return "%04d-W%02d" % (iy, iw)
    return "%04d-W%02d-%d" % (iy, iw, iwd)


# ---------------------------------------------------------------------------------------------
# figures

def mk_dec(coeff, scale, neg=False):
    digits = str(coeff).rjust(scale + 1, "0")
    t = digits[:-scale] + "." + digits[-scale:] if scale else digits
    return ("-" if neg else "") + t


def gen_scale(rng):
    r = rng.random()
    if r < 0.12:
        return 0, 0
    if r < 0.2:
        return 28, 28
    if r < 0.35:
        m = rng.randrange(0, 29)
        return m, m
    if r < 0.5:
        return 2, rng.choice([2, 3, 7])
    mx = rng.randrange(0, 29)
    return rng.randrange(0, mx + 1), mx


def fig_midpoint(rng, mn, mx):
    """exact midpoint at mx decimals, or 1 ulp (of a deeper scale) next to it"""
    if mx >= MAXS:
        return None
    extra = rng.choice([1, 1, 1, 2, 3, min(5, MAXS - mx), MAXS - mx])
    extra = max(1, min(extra, MAXS - mx))
    k = rng.choice([0, 0, 1, 2, 9, 10, 99, rng.randrange(0, 10 ** rng.randrange(1, 8))])
    coeff = k * 10 ** extra + 5 * 10 ** (extra - 1)
    which = rng.choice(["mid", "mid", "mid-ulp", "mid+ulp"])
    if which == "mid-ulp":
        if extra == 1:
            extra += 1 if mx + extra < MAXS else 0
            coeff = k * 10 ** extra + 5 * 10 ** (extra - 1)
        coeff -= 1
    elif which == "mid+ulp":
        if extra == 1 and mx + extra < MAXS:
            extra += 1
            coeff = k * 10 ** extra + 5 * 10 ** (extra - 1)
        coeff += 1
    if coeff == 0:
        coeff = 5 * 10 ** (extra - 1)
    return which, mk_dec(coeff, mx + extra, rng.random() < 0.5)


def fig_scale_rel(rng, mn, mx):
    """stored scale <, =, > min and max"""
    opts = []
    if mn > 0:
        opts.append(("scale<min", rng.randrange(0, mn)))
    opts.append(("scale=min", mn))
    if mx > mn + 1:
        opts.append(("min<scale<max", rng.randrange(mn + 1, mx)))
    opts.append(("scale=max", mx))
    if mx < MAXS:
        opts.append(("scale>max", rng.randrange(mx + 1, MAXS + 1)))
        opts.append(("scale=max+1", mx + 1))
    kind, s = rng.choice(opts)
    nd = rng.randrange(1, 12)
    coeff = rng.randrange(1, 10 ** nd)
    return kind, mk_dec(coeff, s, rng.random() < 0.5)


def fig_trailing_zeros(rng, mn, mx):
    if mx >= MAXS:
        return None
    s0 = rng.randrange(0, mx + 1)
    coeff = rng.randrange(1, 10 ** rng.randrange(1, 9))
    z = rng.randrange(1, MAXS - mx + 1)
    return "trailing-zeros>max", mk_dec(coeff * 10 ** (mx - s0 + z), mx + z, rng.random() < 0.5)


def fig_neg_to_zero(rng, mn, mx):
    if mx >= MAXS:
        return None
    extra = rng.randrange(1, MAXS - mx + 1)
    half = 5 * 10 ** (extra - 1)
    coeff = rng.choice([1, half - 1, max(1, half // 2), max(1, rng.randrange(1, half) if half > 1 else 1)])
    if coeff >= half:
        coeff = max(1, half - 1)
    if coeff >= half:          # extra = 1, half = 5: 1..4 all fine; half - 1 = 4
        coeff = 1
    return "neg-to-zero", mk_dec(coeff, mx + extra, True)


def fig_carry(rng, mn, mx):
    if mx >= MAXS:
        return None
    extra = rng.randrange(1, min(4, MAXS - mx) + 1)
    nines = rng.randrange(1, 10)
    coeff = int("9" * (nines + mx)) * 10 ** extra + rng.choice([5, 6, 9]) * 10 ** (extra - 1)
    return "carry", mk_dec(coeff, mx + extra, rng.random() < 0.5)


def fig_big(rng, mn, mx):
    base = rng.choice([common.MAX96, common.MAX96 - 1, common.MAX96 // 10, common.MAX96 // 2, 10 ** 28, 10 ** 28 - 1,
                       5 * 10 ** 27, 5 * 10 ** 27 - 1, 5 * 10 ** 27 + 1])
    s = rng.choice([0, 1, mx, min(MAXS, mx + 1), MAXS, rng.randrange(0, MAXS + 1)])
    return "big", mk_dec(base, s, rng.random() < 0.5)


def fig_random(rng, mn, mx):
    t = common.gen_amount_text(rng)
    return "random", t


def fig_ok(f):
    """representable as a rust_decimal: coefficient within 96 bits, scale <= 28"""
    if f is None:
        return None
    t = f[1].lstrip("-")
    if common.dec_scale(t) > MAXS or int(t.replace(".", "")) > common.MAX96:
        return None
    return f


FIGS = [fig_midpoint, fig_midpoint, fig_scale_rel, fig_scale_rel, fig_trailing_zeros, fig_neg_to_zero, fig_carry,
        fig_big, fig_random]


# ---------------------------------------------------------------------------------------------

def plain_header(rng, y, mo, d):
    ns = common.civil_to_ns(y, mo, d)
    return {"ts": {"ns": str(ns), "off": 0, "text": "%04d-%02d-%02d" % (y, mo, d)}, "code": None, "desc": None,
            "uuid": None, "loc": None, "tags": None, "comments": None}


def post(acct, amount, comm=""):
    unit = {"comm": comm, "opening": None, "closing": None} if comm else None
    return {"acct": acct, "amount": amount, "unit": unit, "comment": None}


def close_txn(t, last_acct):
    """balance the transaction with an amount-less last posting, unless its postings already add up to zero
    (a zero last posting is rejected)"""
    if sum((D(p["amount"]) for p in t["posts"]), D(0)) == 0:
        t["last"] = None
    else:
        t["last"] = {"acct": last_acct, "comment": None}
    return t


class C17(PropBase):
    id = "C17"

    # -- generation -------------------------------------------------------------------------
    def gen(self, rng, tier, focus=None):
        quick = tier == "quick"
        out = []
        # (a) single figures at every printed position
        n_fig = 2000 if quick else 150000
        for _ in range(n_fig):
            mn, mx = gen_scale(rng)
            f = None
            while f is None:
                f = fig_ok(rng.choice(FIGS)(rng, mn, mx))
            out.append(self.mk_fmt(f[1], mn, mx, f[0]))
        # scale edge cases 0/0, 28/28, min = max with every figure class
        for (mn, mx) in [(0, 0), (28, 28), (0, 28), (5, 5), (2, 2)]:
            for g in FIGS:
                for _ in range(3 if quick else 40):
                    f = fig_ok(g(rng, mn, mx))
                    if f:
                        out.append(self.mk_fmt(f[1], mn, mx, "%s@edge-scale" % f[0]))
        # zero figures (no journal: a zero posting is rejected; zeros of reports come from the journals below)
        for t in ["0", "0.0", "0.000", "-0", "-0.0000", "0." + "0" * 28]:
            for (mn, mx) in [(0, 0), (2, 2), (0, 28), (2, 7), (28, 28), (1, 3)]:
                out.append(self.mk_fmt(t, mn, mx, "zero", journal=False))
        # every (min, max) pair
        if not quick:
            for mx in range(0, 29):
                for mn in range(0, mx + 1):
                    for g in FIGS:
                        for _ in range(8):
                            f = fig_ok(g(rng, mn, mx))
                            if f:
                                out.append(self.mk_fmt(f[1], mn, mx, "allpairs:" + f[0]))
        else:
            for mx in range(0, 29):
                for mn in range(0, mx + 1):
                    f = None
                    while f is None:
                        f = fig_ok(rng.choice(FIGS)(rng, mn, mx))
                    out.append(self.mk_fmt(f[1], mn, mx, "allpairs:" + f[0], journal=(rng.random() < 0.35)))
        # scales `Scale::from` rejects
        for (mn, mx) in [(3, 2), (29, 29), (0, 29), (28, 27), (1, 0), (30, 40)]:
            out.append(self.mk_fmt("1.5", mn, mx, "bad-scale", journal=False))
        # (b) whole reports
        n_parts = 120 if quick else 5000
        for _ in range(n_parts):
            out.append(self.mk_parts_total(rng))
        n_j = 400 if quick else 20000
        for _ in range(n_j):
            out.append(self.mk_journal(rng))
        for _ in range(60 if quick else 3000):
            out.append(self.mk_priced(rng))
        # (c) register / balance-group boundary journals (journal-level tie of `regtxt` / `balgrptxt`)
        n_rb = 160 if quick else 6000
        for _ in range(n_rb):
            out.append(self.mk_reg_boundary(rng))
        n_gb = 160 if quick else 6000
        for _ in range(n_gb):
            out.append(self.mk_grp_boundary(rng))
        return out

    def mk_fmt(self, d, mn, mx, kind, journal=True):
        c = {"op": "fmt", "kind": "fig:" + kind, "d": d, "scale": {"min": mn, "max": mx},
             "cfg": {"scale_min": mn, "scale_max": mx, "sel_balgrp": ["e:own"]}}
        if journal and D(d) != 0:
            c["text"] = "2024-01-01\n e:own  %s\n x:bal\n" % d
            c["want"] = ["balance", "balgrp", "register"]
        return c

    def mk_parts_total(self, rng):
        """parts whose shown values round up while their exact total rounds down (or the other way round):
        children of one parent (tree sum), one account over several transactions (running total), and a
        selector that lists only the parts (delta)"""
        mx = rng.randrange(0, 12)
        mn = rng.randrange(0, mx + 1)
        extra = rng.randrange(1, 5)
        unit = 10 ** extra          # one unit of the last shown digit, in units of the stored scale mx+extra
        up = rng.random() < 0.8
        while True:
            n = rng.randrange(2, 5)
            res = [rng.randrange(unit // 2, unit) if up else rng.randrange(1, max(2, unit // 2)) for _ in range(n)]
            tot = sum(res) % unit
            if up and tot < unit // 2:
                break
            if not up and tot >= unit // 2 and all(2 * r < unit for r in res):
                break
        neg = rng.random() < 0.3
        comm = rng.choice(["", "", "EUR"])
        parts = [mk_dec(rng.randrange(0, 50) * unit + r, mx + extra, neg) for r in res]
        shape = rng.choice(["children", "running", "both"])
        txns = []
        if shape in ("children", "both"):
            t = plain_header(rng, 2024, 1, 1)
            t["posts"] = [post("p:c%d" % i, a, comm) for i, a in enumerate(parts)]
            t["last"] = {"acct": "q", "comment": None}
            txns.append(t)
        if shape in ("running", "both"):
            for i, a in enumerate(parts):
                t = plain_header(rng, 2024, 2, 1 + i)
                t["posts"] = [post("r:acc", a, comm)]
                t["last"] = {"acct": "q", "comment": None}
                txns.append(t)
        sel = None
        if rng.random() < 0.6:
            sel = ["p:c%d" % i for i in range(len(parts))] + ["r:acc"]
        return self.mk_run(rng, {}, txns, mn, mx, "parts-%s-total-%s:%s" % ("up" if up else "down", "down" if up else "up", shape), sel,
                           sel_reg=sel if rng.random() < 0.5 else None, sel_grp=sel if rng.random() < 0.5 else None,
                           group_by=rng.choice(GROUP_BYS))

    def mk_journal(self, rng):
        mn, mx = gen_scale(rng)
        if rng.random() < 0.6:
            mx = rng.randrange(0, 6)
            mn = rng.randrange(0, mx + 1)
        cfg = {}
        opts = {"p_invalid": 0.0, "p_price": rng.choice([0.0, 0.0, 0.3]), "p_opening": 0.0,
                "comms": common.COMMS[:rng.randrange(1, 4)], "p_code": 0.1, "p_desc": 0.2, "p_uuid": 0.1, "p_loc": 0.0,
                "p_tags": 0.0, "p_comments": 0.1, "n_accts": rng.choice([2, 3, 6])}
        txns = common.gen_journal(rng, cfg, opts)
        sel = None
        if rng.random() < 0.4:
            names = sorted({p["acct"] for t in txns for p in t["posts"]} | {t["last"]["acct"] for t in txns if t.get("last")})
            names = [n for n in names if all(ch.isascii() and (ch.isalnum() or ch in ":_") for ch in n)]
            if names:
                sel = rng.sample(names, rng.randrange(1, len(names) + 1))
        sel_reg = sel_grp = None
        if sel is not None or rng.random() < 0.4:
            names = sorted({p["acct"] for t in txns for p in t["posts"]} | {t["last"]["acct"] for t in txns if t.get("last")})
            names = [n for n in names if all(ch.isascii() and (ch.isalnum() or ch in ":_") for ch in n)]
            if names and rng.random() < 0.6:
                sel_reg = rng.sample(names, rng.randrange(1, len(names) + 1))
            if names and rng.random() < 0.6:
                sel_grp = rng.sample(names, rng.randrange(1, len(names) + 1))
        return self.mk_run(rng, cfg, txns, mn, mx, "journal" + ("+sel" if (sel or sel_reg or sel_grp) else ""), sel,
                           sel_reg=sel_reg, sel_grp=sel_grp, group_by=rng.choice(GROUP_BYS))

    def mk_priced(self, rng):
        """rounding is display only also under price conversion: the converted figures (amount x rate, which needs more
        decimals than either factor) are summed exactly inside the kernel and rounded once, when printed"""
        mn, mx = gen_scale(rng)
        if rng.random() < 0.7:
            mx = rng.randrange(0, 8)
            mn = rng.randrange(0, mx + 1)
        da, dr = rng.randrange(0, 4), rng.randrange(1, 7)
        rate = "%d.%s" % (rng.randrange(0, 40), "".join(rng.choice("123456789") for _ in range(dr)))
        accts = ["a:%s" % x for x in "pqrs"[:rng.randrange(1, 4)]]
        txns = []
        for i in range(rng.randrange(1, 6)):
            h = common.gen_header(rng, {}, {"p_uuid": 0.0, "p_loc": 0.0, "p_tags": 0.0, "p_comments": 0.0, "p_code": 0.0, "p_desc": 0.0})
            amt = "%d%s" % (rng.randrange(1, 500), ("." + "".join(rng.choice("123456789") for _ in range(da))) if da else "")
            if rng.random() < 0.3:
                amt = "-" + amt
            neg = amt[1:] if amt.startswith("-") else "-" + amt
            unit = {"comm": "XAG", "opening": None, "closing": None}
            h["posts"] = [{"acct": rng.choice(accts), "amount": amt, "unit": unit, "comment": None},
                          {"acct": "e:x", "amount": neg, "unit": unit, "comment": None}]
            h["last"] = None
            txns.append(h)
        cfg = {"price": {"db": "P 2019-01-01T00:00:00Z XAG %s EUR\n" % rate, "lookup": "last-price"}, "report_commodity": "EUR"}
        c = self.mk_run(rng, cfg, txns, mn, mx, "priced", None, group_by=rng.choice(GROUP_BYS))
        c["rate"] = rate
        return c

    def mk_run(self, rng, cfg, txns, mn, mx, kind, sel, sel_reg=None, sel_grp=None, group_by="month"):
        cfg = dict(cfg)
        cfg["scale_min"], cfg["scale_max"] = mn, mx
        cfg["group_by"] = group_by
        c = {"op": "run", "kind": kind, "cfg": cfg, "scale": {"min": mn, "max": mx}, "txns": txns,
             "text": common.render_journal(txns, common.gen_layout(rng)), "mgroup_by": group_by}
        if sel:
            cfg["sel_balance"] = list(sel)          # whole-name match of plain names (C11)
            c["msel_balance"] = list(sel)
        if sel_reg:
            cfg["sel_register"] = list(sel_reg)
            c["msel_register"] = list(sel_reg)
        if sel_grp:
            cfg["sel_balgrp"] = list(sel_grp)
            c["msel_balgrp"] = list(sel_grp)
        return c

    # -- boundary journals of the register and the balance-group report ---------------------
    def boundary_scale(self, rng):
        """(min, max, extra): a scale and the number of stored decimals beyond max (0 when max = 28)"""
        r = rng.random()
        if r < 0.1:
            mn, mx = 0, 0
        elif r < 0.18:
            mn, mx = 28, 28
        elif r < 0.4:
            mx = rng.randrange(0, 13)
            mn = mx
        elif r < 0.5:
            mn, mx = 2, rng.choice([2, 4, 7])
        else:
            mx = rng.randrange(0, 13)
            mn = rng.randrange(0, mx + 1)
        extra = 0 if mx >= MAXS else rng.randrange(1, min(4, MAXS - mx) + 1)
        return mn, mx, extra

    def chain(self, rng, cls, mn, mx, extra):
        """amounts (stored-form texts) posted one after the other to one account; `cls` names what sits on a
        rounding boundary: the amounts, the running totals (= the account / tree sums of a group), or neither"""
        unit = 10 ** extra                     # one unit of the last shown digit, in units of the stored scale
        s = mx + extra
        half = unit // 2
        k = lambda: rng.randrange(0, 40) * unit
        if extra == 0:
            # max = 28: nothing is rounded; figures of different stored scales (padding to min only), small enough
            # for every sum of the journal to be exact at 28 decimals (< 10^-1 each: 27 digits at scale 28)
            out = []
            for _ in range(rng.randrange(2, 5)):
                si = rng.randrange(2, MAXS + 1)
                out.append(mk_dec(rng.randrange(1, 10 ** min(6, si - 1)), si, rng.random() < 0.4))
            return out
        if cls == "mid-amounts":
            # every amount is an exact midpoint; two of them add up to a multiple of the unit, three to a midpoint
            n = rng.randrange(2, 6)
            sg = rng.random() < 0.5
            return [mk_dec(k() + half, s, sg if rng.random() < 0.8 else not sg) for _ in range(n)]
        if cls == "mid-totals":
            # no amount is a midpoint, every running total is one (up to sign)
            # (the first amount is its own total: it is kept off the boundary, the totals after it are on it)
            sg = -1 if rng.random() < 0.5 else 1
            r0 = rng.choice([r for r in range(1, unit) if r != half])
            tot = sg * (k() + r0)
            out = [mk_dec(abs(tot), s, tot < 0)]
            for i in range(rng.randrange(1, 5)):
                while True:
                    want = sg * (k() + half) if rng.random() < 0.85 else -sg * (k() + half)
                    a = want - tot
                    if a != 0 and abs(a) % unit != half:
                        break
                out.append(mk_dec(abs(a), s, a < 0))
                tot = want
            return out
        if cls == "total-other-way":
            up = rng.random() < 0.5
            while True:
                n = rng.randrange(2, 5)
                res = [rng.randrange(half, unit) if up else rng.randrange(1, max(2, half)) for _ in range(n)]
                tot = sum(res) % unit
                if (up and tot < half) or (not up and tot >= half and all(2 * r < unit for r in res)):
                    break
            sg = rng.random() < 0.3
            return [mk_dec(k() + r, s, sg) for r in res]
        if cls == "neg-zero":
            # totals that return to zero (a zero with a stored scale), and negative totals that round to zero
            y = rng.randrange(1, max(2, half))
            x = k() + rng.randrange(1, unit)
            pat = rng.choice(["x,-x,-y,y", "-y,y,-x,x", "-x,x-y,y", "y,-2y,y", "-y,-x,x+y"])
            vals = {"x": x, "-x": -x, "y": y, "-y": -y, "x-y": x - y, "-2y": -2 * y, "x+y": x + y}
            out = []
            for t in pat.split(","):
                v = vals[t]
                if v != 0:
                    out.append(mk_dec(abs(v), s, v < 0))
            return out
        if cls == "own-precision":
            # amounts and totals with different stored scales: each figure has its own precision
            out = []
            for i in range(rng.randrange(2, 5)):
                si = rng.choice([0, 0, max(0, mn - 1), mn, min(MAXS, mn + 1), mx, s, rng.randrange(0, s + 1)])
                out.append(mk_dec(rng.randrange(1, 10 ** rng.randrange(1, 7)), si, rng.random() < 0.4))
            return out
        return [common.gen_amount_text(rng) for _ in range(rng.randrange(2, 5))]

    CHAINS = ["mid-amounts", "mid-totals", "total-other-way", "neg-zero", "own-precision", "random"]

    def mk_reg_boundary(self, rng):
        """one account (sometimes twice in a transaction, sometimes in two commodities) over several transactions:
        midpoints in the amounts vs in the running totals, totals whose parts round the other way, totals that
        return to zero or round to zero from below, own precision of each figure; scales 0/0, 28/28, min = max"""
        mn, mx, extra = self.boundary_scale(rng)
        cls = rng.choice(self.CHAINS)
        amounts = self.chain(rng, cls, mn, mx, extra)
        comm = rng.choice(["", "", "EUR"])
        txns, i, day = [], 0, 1
        while i < len(amounts):
            t = plain_header(rng, 2024, rng.choice([1, 1, 2]), min(28, day))
            day += rng.randrange(0, 3)
            n = 2 if (rng.random() < 0.3 and i + 1 < len(amounts)) else 1
            tc = comm if rng.random() < 0.85 else "USD"       # one commodity per transaction
            t["posts"] = [post("r:acc", a, tc) for a in amounts[i:i + n]]
            if rng.random() < 0.3:
                t["posts"].append(post("r:other", rng.choice(amounts), tc))
            txns.append(close_txn(t, rng.choice(["q", "q", "r"])))
            i += n
        rng.shuffle(txns)
        sel_reg = rng.choice([None, None, ["r:acc"], ["r:acc", "r:other"], ["q"]])
        sel_bal = rng.choice([None, None, ["r:acc", "r:other"]])
        return self.mk_run(rng, {}, txns, mn, mx, "reg:%s%s" % (cls, "@max28" if extra == 0 else ""), sel_bal,
                           sel_reg=sel_reg, sel_grp=sel_bal if rng.random() < 0.5 else None,
                           group_by=rng.choice(GROUP_BYS))

    def mk_grp_boundary(self, rng):
        """several periods; in each, children `p:c<i>` of one parent receive the amounts of a chain: the account
        sums, the tree sum of `p` and (with a selector listing only the children) the delta of every group sit on
        the boundary the chain was built for"""
        mn, mx, extra = self.boundary_scale(rng)
        group_by = rng.choice(GROUP_BYS)
        comm = rng.choice(["", "", "EUR"])
        txns = []
        kinds = []
        for per in range(rng.randrange(1, 4)):
            cls = rng.choice(self.CHAINS)
            kinds.append(cls)
            amounts = self.chain(rng, cls, mn, mx, extra)
            y, mo, d0 = 2021 + per, rng.randrange(1, 13), rng.randrange(1, 25)
            spread = rng.random() < 0.4          # the parts on several days: one group per month, several per date
            one_txn = rng.random() < 0.4
            if one_txn:
                t = plain_header(rng, y, mo, d0)
                t["posts"] = [post("p:c%d" % i, a, comm) for i, a in enumerate(amounts)]
                txns.append(close_txn(t, "q"))
            else:
                same_acct = rng.random() < 0.3     # the account sum of one child is the chain's total
                for i, a in enumerate(amounts):
                    t = plain_header(rng, y, mo, d0 + (rng.randrange(0, 4) if spread else 0))
                    t["posts"] = [post("p:c0" if same_acct else "p:c%d" % i, a, comm)]
                    t["last"] = {"acct": rng.choice(["q", "q", "p"]), "comment": None}
                    txns.append(t)
        rng.shuffle(txns)
        parts = sorted({p["acct"] for t in txns for p in t["posts"]})
        sel_grp = rng.choice([None, parts, parts, parts + ["p"], ["p"], ["q"]])
        sel_bal = rng.choice([None, parts])
        return self.mk_run(rng, {}, txns, mn, mx, "grp:%s%s" % ("+".join(sorted(set(kinds))), "@max28" if extra == 0 else ""),
                           sel_bal, sel_reg=rng.choice([None, parts]), sel_grp=sel_grp, group_by=group_by)

    # -- drivers ----------------------------------------------------------------------------
    def impl_case(self, case):
        if case["op"] == "fmt":
            return {k: v for k, v in case.items() if k not in ("scale",)}
        c = {k: v for k, v in case.items() if k not in ("txns", "scale", "msel_balance", "msel_register", "msel_balgrp",
                                                        "mgroup_by")}
        c["want"] = ["balance", "register", "balgrp", "txns"]
        return c

    def model_case(self, case):
        if case["op"] == "fmt":
            return {"op": "fmt", "d": case["d"], "scale": case["scale"]}
        if case.get("kind") == "priced":
            return None     # price conversion belongs to C07's model; here the implementation is judged by the oracle
        c = {k: v for k, v in case.items() if k not in ("text",)}
        c["cfg"] = model_cfg(case.get("cfg", {}))
        c["want"] = ["baltxt", "regtxt", "balgrptxt"]
        return c

    def run_impl(self, impl_cases):
        """journal cases are run twice: at the case's scale and at scale 0..28 (every figure printed as stored)"""
        exp, back = [], []
        for i, c in enumerate(impl_cases):
            exp.append(c)
            back.append((i, False))
            if c.get("op") == "run":
                e = dict(c)
                e["cfg"] = dict(c["cfg"])
                e["cfg"]["scale_min"], e["cfg"]["scale_max"] = 0, MAXS
                e["want"] = ["balance", "register", "balgrp"]
                exp.append(e)
                back.append((i, True))
        ans = common.run_driver([common.TK_IMPL], exp, jobs=min(4, common.NCPU))
        out = [None] * len(impl_cases)
        for (i, is_exact), a in zip(back, ans):
            if is_exact:
                out[i]["exact"] = a
            else:
                out[i] = a
        return out

    # -- tie ---------------------------------------------------------------------------------
    def positions(self, case, impl):
        """fmt case: [(position, which, printed figure)] read off the real reports; which in d / neg / zero"""
        run = impl.get("run")
        if not run:
            return []
        if run.get("r") != "OK":
            return [("load", "d", "status:" + str(run.get("r")))]
        pos = []
        for key, pfx in (("balance", "balance"), ("balgrp", "balgrp")):
            txt = out_text(run, key)
            if txt is None:
                pos.append((pfx, "d", "missing"))
                continue
            blocks = [b for b in parse_blocks(txt) if b[1] or b[2]]
            if len(blocks) != 1:
                pos.append((pfx, "d", "blocks:%d" % len(blocks)))
                continue
            _, rows, deltas = blocks[0]
            want_rows = {"balance": ["e", "e:own", "x", "x:bal"], "balgrp": ["e:own"]}[key]
            if [r[1] for r in rows] != want_rows or len(deltas) != 1:
                pos.append((pfx, "d", "rows:%s" % [r[1] for r in rows]))
                continue
            for (_, acct, own, tree) in rows:
                w = "d" if acct.startswith("e") else "neg"
                pos.append((pfx + ".own:" + acct, "zero0" if acct in ("e", "x") else w, own))
                pos.append((pfx + ".tree:" + acct, w, tree))
            pos.append((pfx + ".delta", "zero_same" if key == "balance" else "d", deltas[0][1]))
        reg = out_text(run, "register")
        ent = parse_register(reg) if reg is not None else None
        if not ent or len(ent) != 1 or [p[0] for p in ent[0]] != ["e:own", "x:bal"]:
            pos.append(("register", "d", "entries:%s" % str(ent)[:200]))
        else:
            for (acct, amount, total, _) in ent[0]:
                w = "d" if acct == "e:own" else "neg"
                pos.append(("register.amount:" + acct, w, amount))
                pos.append(("register.total:" + acct, w, total))
        return pos

    def compare(self, case, impl, model):
        if case["op"] == "fmt":
            mi, ii = model.get("r"), impl.get("r")
            if mi == "UNDEF":
                return "skip"
            if mi == "BADCASE" or ii in ("BADCASE", "GARBLED", "ABORT", "PANIC"):
                return "driver problem: impl=%s model=%s %s %s" % (ii, mi, impl.get("msg", ""), model.get("msg", ""))
            if ii != mi:
                return "scale acceptance differs: impl=%s model=%s" % (ii, mi)
            if ii != "OK":
                return None
            dr = impl["direct"]
            if dr.get("r") != "OK":
                return "direct formatting failed: %s" % dr
            for k in ("prec", "rounded", "neg_rounded"):
                if dr["v"][k] != model[k]:
                    return "direct %s: impl=%s model=%s" % (k, dr["v"][k], model[k])
            exp = {"d": model["shown"], "neg": model["neg"], "zero0": model["zero"], "zero_same": model["zero_same"]}
            for (where, which, fig) in self.positions(case, impl):
                if fig != exp[which]:
                    return "%s: report prints %s, model %s" % (where, fig, exp[which])
            return None
        d = cmp_status(impl, model)
        if d:
            return d
        if impl.get("r") != "OK":
            return None
        skipped = False
        for f in (self.compare_balance, self.compare_register, self.compare_balgrp):
            d = f(case, impl, model)
            if d == "skip":
                skipped = True
            elif d:
                return d
        return "skip" if skipped else None

    def compare_balance(self, case, impl, model):
        mo = model["out"]["baltxt"]
        if mo.get("r") == "UNDEF":
            return "skip"
        txt = out_text(impl, "balance")
        if txt is None or mo.get("r") != "OK":
            return "balance output status impl=%s model=%s" % ((impl["out"].get("balance") or {}).get("r"), mo.get("r"))
        blocks = parse_blocks(txt)
        rows, deltas = (blocks[0][1], blocks[0][2]) if blocks else ([], [])
        irows = [list(r) for r in rows]
        ideltas = [list(x) for x in deltas]
        if irows != mo["v"]["rows"]:
            for a, b in zip(irows, mo["v"]["rows"]):
                if a != b:
                    return "balance row differs: impl=%s model=%s" % (a, b)
            return "number of balance rows differs: impl=%d model=%d" % (len(irows), len(mo["v"]["rows"]))
        if ideltas != mo["v"]["deltas"]:
            return "balance deltas differ: impl=%s model=%s" % (ideltas, mo["v"]["deltas"])
        mlines = mo["v"].get("lines")
        if mlines is not None:                   # column layout, character for character (Model/BalanceLayout)
            ilines = block_lines(txt)
            if ilines != mlines:
                for a, b in zip(ilines, mlines):
                    if a != b:
                        return "balance line layout differs: impl=%r model=%r" % (a, b)
                return "number of balance lines differs: impl=%d model=%d" % (len(ilines), len(mlines))
        return None

    def compare_register(self, case, impl, model):
        """`regtxt` (model: `registerReport` at the case's scale) against the real register report text, entry by
        entry (instant, code, description, uuid) and row by row (account, amount as shown, running total as shown,
        commodity)"""
        mo = (model.get("out") or {}).get("regtxt")
        if mo is None:
            return None                      # an old corpus / replay case without the output kind
        if mo.get("r") == "UNDEF":
            return "skip"
        io = (impl["out"].get("register") or {})
        if io.get("r") != "OK" or mo.get("r") != "OK":
            if io.get("r") == "ERR" and mo.get("r") == "ERR":
                return None
            return "register output status impl=%s model=%s" % (io.get("r"), mo.get("r"))
        es = common.parse_register_report(io["v"])
        if es is None:
            return "register report without its title"
        ment = mo["v"]
        if len(es) != len(ment):
            return "register: %d entries printed, model has %d" % (len(es), len(ment))
        accts = {r[0] for e in ment for r in e["rows"]}
        for k, (e, m) in enumerate(zip(es, ment)):
            if e.get("garbled") is not None or e["ts"] is None:
                return "register entry %d unreadable: %s" % (k, str(e.get("garbled"))[:120])
            hi = (str(common.register_ts_ns(e["ts"])), e["code"], e["desc"], e["uuid"])
            hm = (m["ns"], m["code"], m["desc"], m["uuid"])
            if hi != hm:
                return "register entry %d header differs: impl=%s model=%s" % (k, hi, hm)
            irows = [list(r) for r in repair_reg_rows(e["rows"], accts)]
            if irows != m["rows"]:
                for a, b in zip(irows, m["rows"]):
                    if a != b:
                        return "register entry %d row differs (acct, amount, total, comm): impl=%s model=%s" % (k, a, b)
                return "register entry %d: %d rows printed, model has %d" % (k, len(irows), len(m["rows"]))
        return None

    def compare_balgrp(self, case, impl, model):
        """`balgrptxt` (model: `balgrpReport` at the case's scale) against the real balance-group report text, group
        by group (title), row by row and delta by delta"""
        mo = (model.get("out") or {}).get("balgrptxt")
        if mo is None:
            return None
        if mo.get("r") == "UNDEF":
            return "skip"
        io = (impl["out"].get("balgrp") or {})
        if io.get("r") != "OK" or mo.get("r") != "OK":
            if io.get("r") == "ERR" and mo.get("r") == "ERR":
                return None
            return "balance-group output status impl=%s model=%s" % (io.get("r"), mo.get("r"))
        gs = common.parse_balgrp_report(io["v"])
        if gs is None:
            return "balance-group report without its title"
        mg = mo["v"]
        if [g["title"] for g in gs] != [g["title"] for g in mg]:
            return "balance-group titles differ: impl=%s model=%s" % ([g["title"] for g in gs][:12], [g["title"] for g in mg][:12])
        for g, m in zip(gs, mg):
            if g.get("garbled") is not None:
                return "balance group %s unreadable: %s" % (g["title"], str(g["garbled"])[:120])
            irows = [list(r) for r in g["rows"]]
            if irows != m["rows"]:
                for a, b in zip(irows, m["rows"]):
                    if a != b:
                        return "balance group %s row differs (comm, acct, own, tree): impl=%s model=%s" % (g["title"], a, b)
                return "balance group %s: %d rows printed, model has %d" % (g["title"], len(irows), len(m["rows"]))
            idel = [list(x) for x in g["deltas"]]
            if idel != m["deltas"]:
                return "balance group %s deltas differ: impl=%s model=%s" % (g["title"], idel, m["deltas"])
        return None

    # -- oracle ------------------------------------------------------------------------------
    def oracle(self, case, impl):
        mn, mx = case["scale"]["min"], case["scale"]["max"]
        valid = mn <= mx <= MAXS
        if case["op"] == "fmt":
            r = impl.get("r")
            if r in ("PANIC", "ABORT", "TIMEOUT"):
                return {"sig": "formatting-crashed", "what": "op fmt: %s" % r}
            if not valid:
                if r == "OK":
                    return {"sig": "bad-scale-accepted", "what": "scale %d..%d accepted" % (mn, mx)}
                return None
            if r != "OK":
                return {"sig": "valid-scale-rejected", "what": "scale %d..%d rejected: %s" % (mn, mx, impl.get("msg"))}
            self.remember(case)
            d = case["d"]
            d = unsign_zero(d) if D(d) == 0 else d            # from_str_exact: a zero is positive
            nd = common.neg_text(d)
            dr = impl["direct"]
            if dr.get("r") != "OK":
                return {"sig": "formatting-crashed", "what": "direct: %s" % dr}
            if dr["v"]["prec"] != py_precision(d, mn, mx):
                return {"sig": "precision", "what": "get_precision(%s) at %d..%d = %s" % (d, mn, mx, dr["v"]["prec"])}
            for (k, x) in (("rounded", d), ("neg_rounded", nd)):
                p = py_precision(x, mn, mx)
                want = D(x).quantize(D(1).scaleb(-p), rounding=decimal.ROUND_HALF_UP) if common.dec_scale(x) > p else D(x)
                got = dr["v"][k]
                if not is_number(got) or D(got) != want or common.dec_scale(got) != min(p, common.dec_scale(x)):
                    return {"sig": "round-dp", "what": "round_dp_with_strategy(%s, %d) = %s, expected %s" % (x, p, got, want)}
            crashed = report_crashed(impl.get("run") or {})
            if crashed:
                return crashed
            for (where, which, fig) in self.positions(case, impl):
                if which in ("d", "neg"):
                    f = check_figure(where, fig, d if which == "d" else nd, mn, mx)
                else:
                    f = None
                    if not is_number(fig) or D(fig) != 0 or not (mn <= common.dec_scale(fig) <= mx):
                        f = {"sig": "zero-figure", "what": "%s: a zero sum is printed as %s at scale %d..%d" % (where, fig, mn, mx)}
                if f:
                    return f
            return None
        return self.oracle_journal(case, impl, mn, mx)

    def oracle_journal(self, case, impl, mn, mx):
        r = impl.get("r")
        ex = impl.get("exact") or {}
        if r != "OK" or ex.get("r") != "OK":
            if r != ex.get("r"):
                return {"sig": "scale-changes-load", "what": "load status %s at scale %d..%d but %s at 0..28" % (r, mn, mx, ex.get("r"))}
            return None
        self.remember(case)
        crashed = report_crashed(impl)
        if crashed:
            return crashed
        txns = (impl["out"].get("txns") or {})
        txns = txns["v"] if txns.get("r") == "OK" else None
        if case.get("kind") == "priced":
            # the register of a converted run shows the original amount beside the converted total (two commodities per
            # row): judged by C07; here the balance figures against the exact converted sums
            return self.oracle_balance(case, impl, ex, txns, mn, mx) or self.oracle_register_priced(case, impl, ex, mn, mx)
        return self.oracle_balance(case, impl, ex, txns, mn, mx) or \
            self.oracle_register(case, impl, ex, txns, mn, mx) or \
            self.oracle_balgrp(case, impl, ex, txns, mn, mx)

    def check_block(self, where, srows, sdel, erows, edel, posts, mn, mx):
        """one balance-shaped block (the balance report, or one group of the balance-group report): the figures at
        the case's scale (`srows`, `sdel`) against the same block at scale 0..28 (`erows`, `edel`, every figure as
        stored), and those against the sums of `posts` = [(comm, acct, amount text)] (None: not available)"""
        if [r[:2] for r in srows] != [r[:2] for r in erows] or [x[0] for x in sdel] != [x[0] for x in edel]:
            return {"sig": "scale-changes-rows", "what": "%s: the listed rows / deltas differ between scale %d..%d and 0..28" % (where, mn, mx)}
        for s, e in zip(srows, erows):
            f = check_figure("%s.own:%s %s" % (where, s[1], s[0]), s[2], e[2], mn, mx) or \
                check_figure("%s.tree:%s %s" % (where, s[1], s[0]), s[3], e[3], mn, mx)
            if f:
                return f
        for s, e in zip(sdel, edel):
            f = check_figure("%s.delta:%s" % (where, s[0]), s[1], e[1], mn, mx)
            if f:
                return f
        if posts is None:
            return None
        # ---- the exact figures are the unrounded sums of the accepted postings
        own = {}
        for (comm, acct, amount) in posts:
            k = (comm, acct)
            own[k] = own.get(k, D(0)) + D(amount)
        for (comm, acct, eo, etr) in erows:
            if D(eo) != own.get((comm, acct), D(0)):
                return {"sig": "exact-own-sum", "what": "%s: account sum of %s %s at scale 0..28 is %s, postings sum to %s" % (
                    where, acct, comm, eo, own.get((comm, acct), D(0)))}
            sub = sum((v for (c, a), v in own.items() if c == comm and (a == acct or a.startswith(acct + ":"))), D(0))
            if D(etr) != sub:
                return {"sig": "exact-tree-sum", "what": "%s: tree sum of %s %s at scale 0..28 is %s, postings sum to %s" % (where, acct, comm, etr, sub)}
        for (comm, ed) in edel:
            tot = sum((D(r[2]) for r in erows if r[0] == comm), D(0))
            if D(ed) != tot:
                return {"sig": "exact-delta", "what": "%s: delta of %s at scale 0..28 is %s, listed account sums add to %s" % (where, comm, ed, tot)}
        # the displayed total is the rounded exact total (it may differ from the sum of displayed parts)
        for (comm, sd), (_, ed) in zip(sdel, edel):
            tot = sum((D(r[2]) for r in erows if r[0] == comm), D(0))
            want = tot.quantize(D(1).scaleb(-mx), rounding=decimal.ROUND_HALF_UP)
            if D(sd) != want:
                return {"sig": "total-not-rounded-exact-total", "what": "%s: delta %s shown %s, exact total %s rounds to %s" % (where, comm, sd, tot, want)}
        return None

    def oracle_balance(self, case, impl, ex, txns, mn, mx):
        st, et = out_text(impl, "balance"), out_text(ex, "balance")
        if st is None or et is None:
            if (st is None) != (et is None):
                return {"sig": "scale-changes-report", "what": "balance report fails at one scale only"}
            return None     # e.g. arithmetic overflow inside the kernel: not C17's business
        sb, eb = parse_blocks(st), parse_blocks(et)
        srows, sdel = (sb[0][1], sb[0][2]) if sb else ([], [])
        erows, edel = (eb[0][1], eb[0][2]) if eb else ([], [])
        posts = None
        if txns is not None:
            posts = [(p["comm"], p["acct"], p["amount"]) for t in txns for p in t["posts"]]
        if case.get("rate") and posts is not None:
            # converted postings: exact value = amount x rate in the report commodity
            r_ = decimal.Decimal(case["rate"])
            with decimal.localcontext() as ctx:
                ctx.prec = 80
                posts = [("EUR", a, str(decimal.Decimal(v) * r_)) if c == "XAG" else (c, a, v) for c, a, v in posts]
        return self.check_block("balance", srows, sdel, erows, edel, posts, mn, mx)

    def oracle_register_priced(self, case, impl, ex, mn, mx):
        """the register of a converted run: a converted row reads `account  amount COMM @ rate  total TARGET`.  The two
        amounts of every row (the posting's own amount and the converted running total) are figures like any other:
        min..max decimals, the exact figure (the same row at scale 0..28) rounded half away from zero.  The rate is not
        an amount of the report and is left alone."""
        sr, er = out_text(impl, "register"), out_text(ex, "register")
        if sr is None or er is None:
            return None

        def rows(text):
            out = []
            for ln in text.split("\n"):
                if not ln.startswith(" " * 12) or ln[12:13] in (" ", "#", ";", ""):
                    continue
                tok = ln.split()
                if "@" in tok:
                    i = tok.index("@")
                    if i >= 2 and len(tok) >= i + 3:
                        out.append((tok[0], tok[i - 2], tok[i + 2]))
                elif len(tok) >= 3:
                    out.append((tok[0], tok[1], tok[-2] if len(tok) >= 5 else tok[2]))
            return out
        se, ee = rows(sr), rows(er)
        if [r[0] for r in se] != [r[0] for r in ee]:
            return None
        for s, e in zip(se, ee):
            for what, a, b in (("amount", s[1], e[1]), ("total", s[2], e[2])):
                if is_number(a) and is_number(b):
                    f = check_figure("register(converted).%s:%s" % (what, s[0]), a, b, mn, mx)
                    if f:
                        return f
        return None

    def oracle_register(self, case, impl, ex, txns, mn, mx):
        sr, er = out_text(impl, "register"), out_text(ex, "register")
        if sr is None or er is None:
            if (sr is None) != (er is None):
                return {"sig": "scale-changes-report", "what": "register report fails at one scale only"}
            return None
        se, ee = parse_register(sr), parse_register(er)
        if txns is not None and se is not None and ee is not None:
            accts = {p["acct"] for t in txns for p in t["posts"]}
            se = [repair_reg_rows(e, accts) for e in se]
            ee = [repair_reg_rows(e, accts) for e in ee]
        if se is None or ee is None or [[(p[0], p[3]) for p in e] for e in se] != [[(p[0], p[3]) for p in e] for e in ee]:
            return {"sig": "scale-changes-rows", "what": "register entries differ between scale %d..%d and 0..28" % (mn, mx)}
        # without a register selector every posting is listed: the amounts at scale 0..28 are the accepted postings',
        # as stored (so the running totals below are sums of the journal's own figures)
        if txns is not None and not case.get("msel_register"):
            shown_e = [sorted((p[0], p[3], p[1]) for p in e) for e in ee]
            posted = [sorted((p["acct"], p["comm"], p["amount"]) for p in t["posts"]) for t in txns]
            if shown_e != posted:
                return {"sig": "exact-amounts", "what": "register amounts at scale 0..28 are not the accepted postings' amounts"}
        full = not case.get("msel_register")      # with a selector hidden rows are accumulated too (C03)
        running = {}
        for s_ent, e_ent in zip(se, ee):
            for s, e in zip(s_ent, e_ent):
                f = check_figure("register.amount:%s" % s[0], s[1], e[1], mn, mx) or \
                    check_figure("register.total:%s" % s[0], s[2], e[2], mn, mx)
                if f:
                    return f
                k = (s[0], s[3])
                running[k] = running.get(k, D(0)) + D(e[1])
                if D(e[2]) != running[k]:
                    return {"sig": "exact-running-total", "what": "running total of %s at scale 0..28 is %s, amounts add to %s" % (s[0], e[2], running[k])}
                want = running[k].quantize(D(1).scaleb(-mx), rounding=decimal.ROUND_HALF_UP)
                if D(s[2]) != want:
                    return {"sig": "total-not-rounded-exact-total", "what": "running total of %s shown %s, exact %s rounds to %s" % (s[0], s[2], running[k], want)}
        return None

    def oracle_balgrp(self, case, impl, ex, txns, mn, mx):
        sg, eg = out_text(impl, "balgrp"), out_text(ex, "balgrp")
        if sg is None or eg is None:
            if (sg is None) != (eg is None):
                return {"sig": "scale-changes-report", "what": "balance-group report fails at one scale only"}
            return None
        sgs, egs = common.parse_balgrp_report(sg), common.parse_balgrp_report(eg)
        if sgs is None or egs is None or [g["title"] for g in sgs] != [g["title"] for g in egs]:
            return {"sig": "scale-changes-rows", "what": "balance-group titles differ between scale %d..%d and 0..28" % (mn, mx)}
        gb = case.get("mgroup_by") or case.get("cfg", {}).get("group_by", "month")
        members = None
        if txns is not None:
            members = {}
            for t in txns:
                members.setdefault(period_key(t["ts"]["ns"], gb), []).extend(
                    (p["comm"], p["acct"], p["amount"]) for p in t["posts"])
        for s, e in zip(sgs, egs):
            if s.get("garbled") is not None or e.get("garbled") is not None:
                return {"sig": "balgrp-parse", "what": "unreadable group %s" % s["title"]}
            posts = None
            if members is not None:
                if s["title"] not in members:
                    return {"sig": "group-without-members", "what": "group %s: no accepted transaction has this %s" % (s["title"], gb)}
                posts = members[s["title"]]
            f = self.check_block("balgrp[%s]" % s["title"], s["rows"], s["deltas"], e["rows"], e["deltas"], posts, mn, mx)
            if f:
                return f
        return None

    def nontrivial(self, case, impl):
        mn, mx = case["scale"]["min"], case["scale"]["max"]
        if case["op"] == "fmt":
            s = common.dec_scale(case["d"])
            return s > mx or s < mn
        for t in case.get("txns", []):
            for p in t["posts"]:
                if common.dec_scale(p["amount"]) > mx:
                    return True
        return False

    def rule(self):
        return ("(a) figures: exact midpoints at max decimals and their neighbours 1 ulp away (both signs), stored scale "
                "<, =, > min and max, trailing zeros beyond max, negative values rounding to zero, carries (9.99..5), "
                "coefficients near 2^96, random amounts, zeros; scales 0/0, 28/28, min = max, every (min, max) pair, and "
                "scales Scale::from rejects; each figure is put through the real balance, balance-group and register "
                "reporters by a one-pair journal and read off every printed position. (b) journals: parts that round up "
                "while the exact total rounds down (children of one parent, one account over several transactions, "
                "selector deltas) and random journals (1-3 commodities, optional '@'/'=' prices, optional account "
                "selectors for the balance, register and balance-group report, random group-by) at a random scale, each "
                "also reported at scale 0..28 for the exact figures. (c) register boundary journals: one account over "
                "several transactions (twice in one transaction, two commodities, hidden rows) whose amounts are exact "
                "midpoints while the running totals are not, whose running totals are midpoints while the amounts are "
                "not, whose amounts round one way and the totals the other, totals that return to zero or round to zero "
                "from below, amounts and totals of different stored scales (own precision of each figure); "
                "balance-group boundary journals: the same chains posted to the children of one parent in 1-3 periods "
                "(one transaction or several, same day or spread over days, so that the grouping decides which parts "
                "meet), with selectors listing only the parts (deltas); scales 0/0, 28/28, min = max throughout. For "
                "every journal the model's balance, register and balance-group figures at the case's scale are compared "
                "with the real report texts row by row. non-trivial = a figure has more decimals than max or fewer than "
                "min; distinct = sha256 of the implementation case line")

    def trusted_base(self):
        return super().trusted_base() + [
            "report text is tokenised at blanks (widths and alignment are not part of the property; a register line "
            "whose 33+ character account name touches a negative figure is split with the known account names); "
            "register and balance-group reports are modelled without price conversion (report commodity unset) and "
            "with the report zone UTC",
            "python decimal (ROUND_HALF_UP) as the independent arithmetic of the oracle"]

    def assumptions(self):
        return ["figures have a stored scale <= 28 (Dec.WF; established by Dec.ofToken and preserved by the kernels: "
                "theorems fromIter_figures, register_figures)",
                "0 <= min <= max <= 28 (Scale.WF; enforced by Scale::from, modelled as Scale.ofRaw, tied on rejected scales)"]


PROP = C17()

"""Shared machinery for the correspondence checks: PRNG-driven journal AST generator, renderer,
driver runner, canonicalisers, evidence writer.  Python stdlib only."""
import datetime
import decimal
import hashlib
import json
import os
import random
import subprocess
import sys
import time
from decimal import Decimal as D

VERIF = os.path.dirname(os.path.dirname(os.path.abspath(__file__)))
BUILD = os.path.join(VERIF, ".build")
TK_IMPL = os.path.join(BUILD, "cargo", "debug", "tk_impl")
TK_CLI = os.path.join(BUILD, "cargo", "debug", "tackler")
TK_MODEL = os.path.join(VERIF, "lean", ".lake", "build", "bin", "tk_model")
NCPU = int(os.environ.get("VERIF_JOBS") or 0) or os.cpu_count() or 4   # VERIF_JOBS caps the driver processes

decimal.getcontext().prec = 120
MAX96 = 2 ** 96 - 1


# ---------------------------------------------------------------------------------------------
# decimals as text (the stored representation matters: sign flag, digits, scale)

def dec_text_value(s):
    return D(s)


def dec_norm(s):
    """normalised value text: no trailing zeros, no -0"""
    d = D(s)
    if d == 0:
        return "0"
    t = format(d.normalize(), "f")
    return t


def dec_scale(s):
    return len(s.split(".")[1]) if "." in s else 0


def dec_fits(d):
    """is the python Decimal exactly representable as rust_decimal (96 bit, scale<=28)?"""
    if d == 0:
        return True
    t = d.as_tuple()
    scale = max(0, -t.exponent)
    if scale > 28:
        return False
    coeff = int(abs(d).scaleb(scale))
    return coeff <= MAX96


def fmt_dec(d, scale=None):
    """plain fixed text with exactly `scale` fraction digits (or the natural ones)"""
    if scale is None:
        t = format(d, "f")
        return t
    q = d.quantize(D(1).scaleb(-scale)) if scale > 0 else d.quantize(D(1))
    return format(q, "f")


# ---------------------------------------------------------------------------------------------
# names

ACCT_PARTS = ["a", "b", "c", "d", "e", "x", "y", "bc", "ab", "Assets", "Exp", "cash", "a-x", "a_1", "é", "1st", "2", "ö2"]
ROOT_PARTS = ["a", "b", "e", "x", "ab", "Assets", "Exp", "é", "a-x"]
COMMS = ["EUR", "USD", "ACME", "He·bar", "$", "£", "kWh"]
TAGS = ["t1", "t2", "trip:food", "x", "y:z"]
WORDS = ["hello", "world", "lunch", "rent", "a b", "x'y", "ÄÖ", "#1", "foo;bar", "  two"]


def gen_account(rng, depth_max=4, pool=None):
    if pool and rng.random() < 0.8:
        return rng.choice(pool)
    depth = 1 + min(rng.randrange(depth_max), rng.randrange(depth_max))
    parts = [rng.choice(ROOT_PARTS)]
    for _ in range(depth - 1):
        parts.append(rng.choice(ACCT_PARTS))
    return ":".join(parts)


def gen_account_pool(rng, n=6, depth_max=4):
    pool = []
    for _ in range(n):
        a = gen_account(rng, depth_max)
        pool.append(a)
        # sometimes add a descendant / sibling sharing a string prefix
        if rng.random() < 0.4:
            pool.append(a + ":" + rng.choice(ACCT_PARTS))
        if rng.random() < 0.15:
            pool.append(a + "c")
    return pool


# ---------------------------------------------------------------------------------------------
# amounts

def gen_amount_text(rng, nonzero=True, big=False):
    r = rng.random()
    if big and r < 0.08:
        base = rng.choice([MAX96, MAX96 // 10, MAX96 // 3, 10 ** 27])
        sc = rng.choice([0, 0, 1, 5, 28])
        digits = str(base)
        if sc:
            digits = digits.rjust(sc + 1, "0")
            t = digits[:-sc] + "." + digits[-sc:]
        else:
            t = digits
        return ("-" if rng.random() < 0.5 else "") + t
    if r < 0.35:
        n = rng.randrange(1, 60)
        t = str(n)
    elif r < 0.7:
        sc = rng.randrange(1, 5)
        n = rng.randrange(1, 10 ** rng.randrange(1, 6))
        digits = str(n).rjust(sc + 1, "0")
        t = digits[:-sc] + "." + digits[-sc:]
    elif r < 0.85:
        # trailing zeros / leading zeros
        n = rng.randrange(1, 500)
        t = str(n) + "." + "0" * rng.randrange(1, 4)
        if rng.random() < 0.2:
            t = "0" + t
    else:
        sc = rng.randrange(5, 12)
        n = rng.randrange(1, 10 ** rng.randrange(3, 14))
        digits = str(n).rjust(sc + 1, "0")
        t = digits[:-sc] + "." + digits[-sc:]
    if not nonzero and rng.random() < 0.3:
        t = rng.choice(["0", "0.00", "0.0"])
    if rng.random() < 0.45:
        t = "-" + t
    return t


def neg_text(t):
    return t[1:] if t.startswith("-") else "-" + t


# ---------------------------------------------------------------------------------------------
# timestamps

EPOCH = datetime.datetime(1970, 1, 1)


def civil_to_ns(y, mo, d, h=0, mi=0, s=0, frac_ns=0, off_s=0):
    dt = datetime.datetime(y, mo, d, h, mi, s)
    delta = dt - EPOCH
    secs = delta.days * 86400 + delta.seconds - off_s
    return secs * 10 ** 9 + frac_ns


def fmt_off(off_s, colon=True):
    sign = "+" if off_s >= 0 else "-"
    a = abs(off_s)
    return "%s%02d:%02d" % (sign, a // 3600, (a % 3600) // 60)


def gen_ts(rng, cfg, base_year=2024, cluster=None):
    """returns dict(ns=str, off=int, text=str); journal tz from cfg (fixed offset or UTC only)"""
    tz = cfg.get("tz") or {"name": "UTC"}
    if "offset" in tz:
        o = tz["offset"]
        sgn = -1 if o.startswith("-") else 1
        hh, mm = o[1:].split(":")
        cfg_off = sgn * (int(hh) * 3600 + int(mm) * 60)
    else:
        cfg_off = 0
    dt = cfg.get("default_time", "00:00:00")
    dh, dm, ds = [int(x) for x in dt.split(":")]
    if cluster is not None and rng.random() < 0.6:
        y, mo, d = cluster
    else:
        y = base_year + rng.randrange(-1, 2)
        mo = rng.randrange(1, 13)
        d = rng.randrange(1, 29)
    style = rng.random()
    if style < 0.3:
        text = "%04d-%02d-%02d" % (y, mo, d)
        ns = civil_to_ns(y, mo, d, dh, dm, ds, 0, cfg_off)
        return {"ns": str(ns), "off": cfg_off, "text": text}
    h, mi, s = rng.randrange(24), rng.randrange(60), rng.randrange(60)
    if rng.random() < 0.3:
        h, mi, s = rng.choice([(0, 0, 0), (23, 59, 59), (12, 0, 0)])
    text = "%04d-%02d-%02dT%02d:%02d:%02d" % (y, mo, d, h, mi, s)
    frac_ns = 0
    if rng.random() < 0.4:
        k = rng.randrange(1, 10)
        digits = "".join(rng.choice("0123456789") for _ in range(k))
        text += "." + digits
        frac_ns = int(digits) * 10 ** (9 - k)
    r = rng.random()
    if r < 0.35:
        off = cfg_off
    elif r < 0.5:
        off = 0
        text += "Z"
    else:
        off = rng.choice([0, 3600, 7200, -18000, 19800, 20700, -34200, 50400, -43200, 86340, -86340])
        text += fmt_off(off)
    ns = civil_to_ns(y, mo, d, h, mi, s, frac_ns, off)
    return {"ns": str(ns), "off": off, "text": text}


def gen_uuid(rng):
    h = "%032x" % rng.getrandbits(128)
    return "%s-%s-%s-%s-%s" % (h[:8], h[8:12], h[12:16], h[16:20], h[20:])


# ---------------------------------------------------------------------------------------------
# journal AST

def gen_header(rng, cfg, opts, cluster=None):
    h = {"ts": gen_ts(rng, cfg, cluster=cluster), "code": None, "desc": None, "uuid": None,
         "loc": None, "tags": None, "comments": None}
    if rng.random() < opts.get("p_code", 0.3):
        h["code"] = rng.choice(["c1", "#12", "", "x y", "A-1", "é"])
    if rng.random() < opts.get("p_desc", 0.4):
        h["desc"] = rng.choice(WORDS + [""]).rstrip()
    if rng.random() < opts.get("p_uuid", 0.4):
        h["uuid"] = gen_uuid(rng)
    if rng.random() < opts.get("p_loc", 0.15):
        lat = gen_coord(rng, 90)
        lon = gen_coord(rng, 180)
        alt = None
        if rng.random() < 0.4:
            alt = rng.choice(["0", "5", "-5.5", "8848", "-6378137", "120.25"])
        h["loc"] = {"lat": lat, "lon": lon, "alt": alt}
    if rng.random() < opts.get("p_tags", 0.25):
        k = rng.randrange(1, 4)
        h["tags"] = rng.sample(opts.get("tag_pool", TAGS), min(k, len(opts.get("tag_pool", TAGS))))
    if rng.random() < opts.get("p_comments", 0.2):
        h["comments"] = [rng.choice(["c", "", " lead", "trail ", "a;b", "ä"]) for _ in range(rng.randrange(1, 3))]
    return h


def gen_coord(rng, lim):
    r = rng.random()
    if r < 0.15:
        return rng.choice([str(lim), "-" + str(lim), "0", "-0", "0.0"])
    v = rng.randrange(0, lim * 1000)
    t = "%d.%03d" % (v // 1000, v % 1000)
    if rng.random() < 0.3:
        t = str(v // 1000)
    return ("-" if rng.random() < 0.5 else "") + t


def gen_txn(rng, cfg, opts, acct_pool, cluster=None):
    """one transaction AST; mostly valid.  opts['p_invalid'] = probability of a semantic fault."""
    comms = opts.get("comms", COMMS[:3])
    hdr = gen_header(rng, cfg, opts, cluster)
    p_comm = opts.get("p_comm", 0.5)
    c = rng.choice(comms) if rng.random() < p_comm else ""
    n = rng.choice([1, 2, 2, 2, 3, 3, 4, 5])
    posts = []
    total = D(0)   # in txn commodity
    big = opts.get("big", False)
    for i in range(n):
        acct = gen_account(rng, opts.get("depth", 4), acct_pool)
        amt = gen_amount_text(rng, nonzero=True, big=big)
        unit = None
        val = D(amt)
        if c:
            unit = {"comm": c, "opening": None, "closing": None}
            if rng.random() < opts.get("p_price", 0.25):
                # posting in another commodity with a closing price into c
                others = [x for x in comms if x != c]
                if others:
                    pc = rng.choice(others)
                    if rng.random() < 0.5:
                        price = gen_amount_text(rng).lstrip("-")
                        unit = {"comm": pc, "opening": None, "closing": {"k": "@", "v": price, "c": c}}
                        val = D(amt) * D(price)
                    else:
                        tot = gen_amount_text(rng).lstrip("-")
                        if amt.startswith("-"):
                            tot = "-" + tot
                        unit = {"comm": pc, "opening": None, "closing": {"k": "=", "v": tot, "c": c}}
                        val = D(tot)
            if rng.random() < opts.get("p_opening", 0.12):
                unit["opening"] = {"v": gen_amount_text(rng).lstrip("-"), "c": rng.choice(comms)}
        cm = None
        if rng.random() < 0.15:
            cm = rng.choice(["pc", "", " x", "note ; more"])
        posts.append({"acct": acct, "amount": amt, "unit": unit, "comment": cm})
        total += val
    last = None
    r = rng.random()
    if r < opts.get("p_last", 0.45) or n == 1:
        last = {"acct": gen_account(rng, opts.get("depth", 4), acct_pool), "comment": None}
        if rng.random() < 0.1:
            last["comment"] = "lc"
    else:
        # explicit balancing posting
        bal = -total
        if bal == 0 or not dec_fits(bal):
            last = {"acct": gen_account(rng, opts.get("depth", 4), acct_pool), "comment": None}
        else:
            unit = {"comm": c, "opening": None, "closing": None} if c else None
            posts.append({"acct": gen_account(rng, opts.get("depth", 4), acct_pool), "amount": fmt_dec(bal),
                          "unit": unit, "comment": None})
    t = dict(hdr)
    t["posts"] = posts
    t["last"] = last
    return t


def _posting_value(p):
    u = p.get("unit") or {}
    cl = u.get("closing")
    if cl:
        return (D(p["amount"]) * D(cl["v"]) if cl["k"] == "@" else D(cl["v"])), cl["c"]
    return D(p["amount"]), u.get("comm", "")


def _rebalance(t, i, comm):
    """rewrite the other postings so that the transaction would balance in `comm` given posting i's
    (possibly illegal) value position: only the injected fault is then wrong with it"""
    p = t["posts"]
    v, _ = _posting_value(p[i])
    unit = {"comm": comm, "opening": None, "closing": None} if comm else None
    others = [dict(q, unit=unit) for j, q in enumerate(p) if j != i][:1]
    if not others:
        others = [{"acct": "rb:x", "amount": "1", "unit": unit, "comment": None}]
    bal = -v
    if bal == 0 or not dec_fits(bal):
        t["posts"] = [p[i]] + [dict(others[0], amount="7"), dict(others[0], amount="-7", acct=others[0]["acct"] + ":n")]
    else:
        t["posts"] = [p[i], dict(others[0], amount=fmt_dec(bal))]
    t["last"] = None


FAULTS = ["unbalanced", "zero_posting", "mixed_comm", "price_same_comm", "neg_unit_price", "total_sign",
          "implicit_zero", "opening_only", "neg_opening", "dup_tags", "bad_geo", "written_cancel"]


def inject_fault(rng, t, comms, kind=None):
    kind = kind or rng.choice(FAULTS)
    t["fault"] = kind
    p = t["posts"]
    if kind == "unbalanced":
        t["last"] = None
        p[0]["amount"] = fmt_dec(D(p[0]["amount"]) + D("0.01"))
    elif kind == "written_cancel":
        # the *written* amounts cancel, the values in the transaction commodity do not: `10 ACME @ 2 EUR` / `-10 EUR`
        # (balance is a matter of the values after '@' / '=', whatever the number of postings)
        a, b = rng.sample(comms, 2) if len(comms) > 1 else (comms[0], "ZZZ")
        x = rng.choice(["10", "2.5", "0.01", "1200"])
        if rng.random() < 0.6:
            cl = {"k": "@", "v": rng.choice(["2", "0.5", "120", "1.01"]), "c": b}
        else:
            cl = {"k": "=", "v": fmt_dec(D(x) * D(rng.choice(["2", "3", "0.5"]))), "c": b}
        t["posts"] = [{"acct": p[0]["acct"], "amount": x, "unit": {"comm": a, "opening": None, "closing": cl}, "comment": None},
                      {"acct": p[0]["acct"] + ":c", "amount": "-" + x, "unit": {"comm": b, "opening": None, "closing": None}, "comment": None}]
        if rng.random() < 0.3:
            t["posts"].reverse()
        t["last"] = None
    elif kind == "zero_posting":
        i = rng.randrange(len(p))
        p[i]["amount"] = rng.choice(["0", "0.00", "-0", "-0.0"])
        # a zero amount combined with every value-position shape ('@', '=' with a non-zero total, '{..}')
        shape = rng.choice(["keep", "keep", "unit", "total", "opening", "opening+total"])
        if shape != "keep" and len(comms) > 1:
            a, b = rng.sample(comms, 2)
            tc = (p[i]["unit"] or {}).get("closing", {}) or {}
            if shape == "unit":
                p[i]["unit"] = {"comm": a, "opening": None, "closing": {"k": "@", "v": "2", "c": b}}
            elif shape == "total":
                p[i]["unit"] = {"comm": a, "opening": None, "closing": {"k": "=", "v": rng.choice(["5", "0", "-5"]), "c": b}}
                _rebalance(t, i, b)
            elif shape == "opening":
                u = dict(p[i]["unit"] or {"comm": a, "opening": None, "closing": None})
                u["opening"] = {"v": "3", "c": b}
                p[i]["unit"] = u
            else:
                p[i]["unit"] = {"comm": a, "opening": {"v": "3", "c": b}, "closing": {"k": "=", "v": "5", "c": b}}
                _rebalance(t, i, b)
    elif kind == "mixed_comm":
        i = rng.randrange(len(p))
        cur = p[i]["unit"]["comm"] if p[i]["unit"] else ""
        other = rng.choice([x for x in comms + [""] if x != cur])
        p[i]["unit"] = {"comm": other, "opening": None, "closing": None} if other else None
    elif kind == "price_same_comm":
        i = rng.randrange(len(p))
        cm = rng.choice(comms)
        opening = {"v": "1.2", "c": rng.choice(comms)} if rng.random() < 0.5 else None
        k = rng.choice("@=")
        p[i]["unit"] = {"comm": cm, "opening": opening, "closing": {"k": k, "v": "2", "c": cm}}
        if rng.random() < 0.6:
            # make the rest of the transaction consistent with the (illegal) price so that only this rule rejects it
            _rebalance(t, i, cm)
    elif kind == "neg_unit_price":
        i = rng.randrange(len(p))
        a, b = rng.sample(comms, 2) if len(comms) > 1 else (comms[0], "ZZZ")
        opening = {"v": "1.2", "c": rng.choice(comms)} if rng.random() < 0.4 else None
        p[i]["unit"] = {"comm": a, "opening": opening, "closing": {"k": "@", "v": rng.choice(["-2", "-0.5", "-0.001"]), "c": b}}
        if rng.random() < 0.6:
            _rebalance(t, i, b)
    elif kind == "total_sign":
        i = rng.randrange(len(p))
        a, b = rng.sample(comms, 2) if len(comms) > 1 else (comms[0], "ZZZ")
        amt = p[i]["amount"]
        # magnitudes: ordinary, and products |amount| x |total| that underflow 28 decimals or overflow 96 bits (the sign
        # rule is about the two signs, not about a computed product)
        mag = rng.random()
        if mag < 0.2:
            a_abs, t_abs = "0.000000000000000001", "0.000000000003"
        elif mag < 0.4:
            a_abs, t_abs = "50000000000000000000", "5000000000"
        elif mag < 0.5:
            a_abs, t_abs = "0.0000000000000000000000000001", rng.choice(["0.3", "0.04"])
        elif mag < 0.6:
            a_abs, t_abs = rng.choice(["0.3", "2"]), "0.0000000000000000000000000001"
        else:
            a_abs, t_abs = None, "5"
        if a_abs is not None:
            amt = ("-" if amt.startswith("-") else "") + a_abs
            p[i]["amount"] = amt
        tot = t_abs if amt.startswith("-") else "-" + t_abs
        opening = {"v": "1.2", "c": rng.choice(comms)} if rng.random() < 0.4 else None
        p[i]["unit"] = {"comm": a, "opening": opening, "closing": {"k": "=", "v": tot, "c": b}}
        if rng.random() < 0.6:
            _rebalance(t, i, b)
    elif kind == "implicit_zero":
        # the others already cancel, then an amount-less last posting (F1)
        c = p[0]["unit"]
        t["posts"] = [dict(p[0]), {"acct": p[0]["acct"] + ":z", "amount": neg_text(p[0]["amount"]), "unit": c, "comment": None}]
        if c and c.get("closing"):
            t["posts"][0]["unit"] = {"comm": c["comm"], "opening": None, "closing": None}
            t["posts"][1]["unit"] = t["posts"][0]["unit"]
        t["last"] = {"acct": "zero:sum", "comment": None}
    elif kind == "opening_only":
        # `{..}` without closing against a counter posting in another commodity (F2)
        a, b = rng.sample(comms, 2) if len(comms) > 1 else (comms[0], "ZZZ")
        counter = rng.choice(["", b, a])
        t["posts"] = [
            {"acct": "o:a", "amount": "1", "unit": {"comm": a, "opening": {"v": "120", "c": b}, "closing": None}, "comment": None},
            {"acct": "o:b", "amount": "-1", "unit": ({"comm": counter, "opening": None, "closing": None} if counter else None), "comment": None}]
        t["last"] = None
    elif kind == "neg_opening":
        i = rng.randrange(len(p))
        cm = p[i]["unit"]["comm"] if p[i]["unit"] else rng.choice(comms)
        u = p[i]["unit"] or {"comm": cm, "opening": None, "closing": None}
        u = dict(u)
        u["opening"] = {"v": "-1.5", "c": rng.choice(comms)}
        p[i]["unit"] = u
    elif kind == "dup_tags":
        t["tags"] = ["t1", "t2", "t1"]
    elif kind == "bad_geo":
        t["loc"] = rng.choice([{"lat": "90.0001", "lon": "0", "alt": None}, {"lat": "0", "lon": "-180.5", "alt": None},
                               {"lat": "1", "lon": "2", "alt": "-6378137.1"}, {"lat": "-91", "lon": "0", "alt": None}])


def gen_journal(rng, cfg, opts):
    n = opts.get("n_txns")
    if n is None:
        n = rng.choice([1, 1, 2, 3, 4, 6, 9])
    pool = gen_account_pool(rng, opts.get("n_accts", 6), opts.get("depth", 4))
    cluster = (2024, rng.randrange(1, 13), rng.randrange(1, 29))
    txns = [gen_txn(rng, cfg, opts, pool, cluster) for _ in range(n)]
    if rng.random() < opts.get("p_invalid", 0.1):
        inject_fault(rng, rng.choice(txns), opts.get("comms", COMMS[:3]), opts.get("fault"))
    return txns


# ---------------------------------------------------------------------------------------------
# rendering (AST -> journal text) with a random layout

def render_unit(u):
    if u is None:
        return ""
    s = " " + u["comm"]
    if u.get("opening"):
        s += " {%s %s}" % (u["opening"]["v"], u["opening"]["c"])
    if u.get("closing"):
        s += " %s %s %s" % (u["closing"]["k"], u["closing"]["v"], u["closing"]["c"])
    return s


def render_txn(t, rng=None, layout=None):
    layout = layout or {}
    ind = layout.get("indent", " ")
    sep = layout.get("sep", "  ")
    out = []
    hl = t["ts"]["text"]
    if t.get("code") is not None:
        hl += " (%s)" % t["code"]
    if t.get("desc") is not None:
        hl += " '%s" % t["desc"]
    out.append(hl)
    meta = []
    if t.get("uuid") is not None:
        u = t["uuid"]
        if layout.get("upper_uuid"):
            u = u.upper()
        meta.append("# uuid: %s" % u)
    if t.get("loc") is not None:
        g = t["loc"]
        meta.append("# location: geo:%s,%s%s" % (g["lat"], g["lon"], ("," + g["alt"]) if g.get("alt") is not None else ""))
    if t.get("tags") is not None:
        meta.append("# tags: %s" % ", ".join(t["tags"]))
    perm = layout.get("meta_perm")
    if perm and len(meta) > 1:
        # any order of uuid / location / tags is accepted by the grammar
        idx = sorted(range(len(meta)), key=lambda i: perm[i % len(perm)])
        meta = [meta[i] for i in idx]
    for m in meta:
        out.append(ind + m)
    for c in (t.get("comments") or []):
        out.append(ind + (";" if c == "" and layout.get("bare_empty_comment") else "; " + c))
    for p in t["posts"]:
        line = ind + p["acct"] + sep + p["amount"] + render_unit(p.get("unit"))
        if p.get("comment") is not None:
            line += " ; " + p["comment"]       # a comment runs to the end of the line: no trailing blanks
        else:
            line += layout.get("trail", "")
        out.append(line)
    if t.get("last"):
        line = ind + t["last"]["acct"]
        if t["last"].get("comment") is not None:
            line += " ; " + t["last"]["comment"]
        out.append(line)
    return "\n".join(out) + "\n"


def gen_layout(rng):
    return {
        "indent": rng.choice([" ", "  ", "   ", "\t", "    ", " \t"]),
        "sep": rng.choice([" ", "  ", "   ", "\t"]),
        "blank": rng.choice([1, 1, 2, 3]),
        "trail": rng.choice(["", "", "", " ", "\t"]),
        "upper_uuid": rng.random() < 0.3,
        "lead_blank": rng.choice([0, 0, 1, 2]),
        "bare_empty_comment": rng.random() < 0.5,
        "meta_perm": [rng.random() for _ in range(3)],
    }


def render_journal(txns, layout=None):
    layout = layout or {"indent": " ", "sep": "  ", "blank": 1, "trail": "", "lead_blank": 0}
    parts = []
    for t in txns:
        parts.append(render_txn(t, layout=layout))
    sep = "\n" * layout.get("blank", 1)
    return "\n" * layout.get("lead_blank", 0) + sep.join(parts) + ("\n" if layout.get("blank", 1) > 1 else "")


# ---------------------------------------------------------------------------------------------
# running the drivers

def _run_chunk(cmd, lines, env=None, timeout=600):
    data = ("\n".join(lines) + "\n").encode("utf-8")
    e = dict(os.environ)
    e["RUST_BACKTRACE"] = "0"
    e.setdefault("TK_TMP", os.path.join(BUILD, "tmp"))
    if env:
        e.update(env)
    p = subprocess.run(cmd, input=data, stdout=subprocess.PIPE, stderr=subprocess.PIPE, env=e, timeout=timeout)
    outs = p.stdout.decode("utf-8", errors="replace").split("\n")
    if outs and outs[-1] == "":
        outs.pop()
    return p.returncode, outs, p.stderr.decode("utf-8", errors="replace")


def run_driver(cmd, cases, jobs=None, env=None, timeout=900):
    """cases: list of dicts; returns list of answers (dict); a crashed chunk is bisected so that the
    crashing case is reported as {"r":"ABORT"}"""
    from concurrent.futures import ThreadPoolExecutor
    lines = [json.dumps(c, ensure_ascii=False) for c in cases]
    n = len(lines)
    if n == 0:
        return []
    jobs = jobs or NCPU
    size = max(1, (n + jobs - 1) // jobs)
    chunks = [(i, lines[i:i + size]) for i in range(0, n, size)]
    results = [None] * n

    def work(ch):
        i0, ls = ch
        pending = [(i0, ls)]
        while pending:
            j0, l = pending.pop()
            try:
                rc, outs, err = _run_chunk(cmd, l, env, timeout)
            except subprocess.TimeoutExpired:
                rc, outs, err = -9, [], "timeout"
            if len(outs) == len(l):
                for k, o in enumerate(outs):
                    try:
                        results[j0 + k] = json.loads(o)
                    except Exception:
                        results[j0 + k] = {"r": "GARBLED", "raw": o[:200]}
                continue
            # the process died: answers up to len(outs) are valid, the next case killed it
            for k, o in enumerate(outs):
                try:
                    results[j0 + k] = json.loads(o)
                except Exception:
                    results[j0 + k] = {"r": "GARBLED", "raw": o[:200]}
            k = len(outs)
            if k < len(l):
                results[j0 + k] = {"r": "ABORT" if err != "timeout" else "TIMEOUT", "rc": rc, "stderr": err[-300:]}
                if k + 1 < len(l):
                    pending.append((j0 + k + 1, l[k + 1:]))

    with ThreadPoolExecutor(max_workers=jobs) as ex:
        list(ex.map(work, chunks))
    return results


# ---------------------------------------------------------------------------------------------
# canonicalisers for report texts

def parse_balance_report(text, title="BALANCE"):
    """-> (rows [(comm, acct, own, tree)], deltas [(comm, sum)]) from BalanceReporter text.
    Only the part starting at the title line is read."""
    lines = text.split("\n")
    try:
        i = lines.index(title)
    except ValueError:
        return None
    rows, deltas = [], []
    j = i + 2
    in_deltas = False
    while j < len(lines):
        ln = lines[j]
        j += 1
        if ln.startswith("====="):
            in_deltas = True
            continue
        if ln.strip() == "":
            if in_deltas or rows:
                break
            continue
        tok = ln.split()
        if in_deltas:
            deltas.append((tok[1] if len(tok) > 1 else "", tok[0]))
        else:
            if len(tok) == 3:
                rows.append(("", tok[2], tok[0], tok[1]))
            elif len(tok) == 4:
                rows.append((tok[2], tok[3], tok[0], tok[1]))
            else:
                rows.append(("?", ln, "?", "?"))
    return rows, deltas


# ---------------------------------------------------------------------------------------------
# register report

_REG_HDR = None


def parse_register_report(text, title="REGISTER"):
    """-> list of entries {ts, code, desc, uuid, rows [(acct, amount, total, comm)]} from
    RegisterReporter text (no price conversion columns), or None when the title is missing.
    `ts` is the printed timestamp text (report zone); `code`/`desc`/`uuid` are None when not printed.
    Only the part after the title line is read."""
    global _REG_HDR
    import re
    if _REG_HDR is None:
        _REG_HDR = re.compile(r"^(\d{4,}-\d{2}-\d{2}(?: \d{2}:\d{2}:\d{2}(?:\.\d+)?)?)(?: \(([^)]*)\))?(?: '(.*))?$")
    lines = text.split("\n")
    try:
        i = lines.index(title)
    except ValueError:
        return None
    j = i + 2
    entries = []
    cur = None
    indent = " " * 12
    while j < len(lines):
        ln = lines[j]
        j += 1
        if cur is None:
            if ln == "":
                continue
            m = _REG_HDR.match(ln)
            if not m:
                entries.append({"ts": None, "code": None, "desc": None, "uuid": None, "rows": [], "garbled": ln})
                continue
            cur = {"ts": m.group(1), "code": m.group(2), "desc": m.group(3), "uuid": None, "rows": []}
            continue
        if ln.startswith(indent + "# uuid: "):
            cur["uuid"] = ln[len(indent) + 8:]
        elif ln.startswith(indent + "# ") or ln.startswith(indent + "; ") or ln == indent + ";":
            pass
        elif ln.startswith(indent):
            tok = ln.split()
            if len(tok) == 3:
                cur["rows"].append((tok[0], tok[1], tok[2], ""))
            elif len(tok) == 4:
                cur["rows"].append((tok[0], tok[1], tok[2], tok[3]))
            else:
                cur["rows"].append(("?", ln, "?", "?"))
        elif (ln and set(ln) == {"-"}) or (ln == "" and not cur["rows"]):
            # an entry ends with a rule as wide as its widest row (an entry without rows: an empty line)
            entries.append(cur)
            cur = None
        else:
            cur["garbled"] = ln
    if cur is not None:
        cur["garbled"] = "unterminated entry"
        entries.append(cur)
    return entries


def register_ts_ns(ts_text):
    """the instant (ns since the epoch) a printed register timestamp denotes in UTC"""
    date, _, rest = ts_text.partition(" ")
    y, mo, d = [int(x) for x in date.split("-")]
    h = mi = s = frac = 0
    if rest:
        hms, _, f = rest.partition(".")
        h, mi, s = [int(x) for x in hms.split(":")]
        if f:
            frac = int(f.ljust(9, "0")[:9])
    return civil_to_ns(y, mo, d, h, mi, s, frac, 0)


def floor_ns(ns, style):
    """what a timestamp style keeps of an instant shown in UTC"""
    ns = int(ns)
    if style == "date":
        return ns - ns % (86400 * 10 ** 9)
    if style == "seconds":
        return ns - ns % (10 ** 9)
    return ns


# ---------------------------------------------------------------------------------------------
# misc

def case_hash(case):
    return hashlib.sha256(json.dumps(case, sort_keys=True, ensure_ascii=False).encode()).hexdigest()[:16]


def strip_ts_text(txns):
    """AST without the rendering-only fields (for samples)"""
    return txns


class Timer:
    def __init__(self):
        self.t0 = time.time()

    def s(self):
        return round(time.time() - self.t0, 2)


# ---------------------------------------------------------------------------------------------
# balance-group report (C13)

def parse_balgrp_report(text, title="BALANCE GROUP"):
    """-> ordered list of groups {title, rows [(comm, acct, own, tree)], deltas [(comm, sum)], lines} from
    BalanceGroupReporter text, or None when the report title is missing.  A group block is: the title line (starts
    in column 0), a rule of dashes, the rows (indented), a rule of `=`, the delta lines (indented).  `lines` are the
    raw lines of the block after the dashes rule."""
    lines = text.split("\n")
    try:
        i = lines.index(title)
    except ValueError:
        return None
    j = i + 2
    groups = []
    cur = None
    in_deltas = False
    while j < len(lines):
        ln = lines[j]
        j += 1
        if ln == "" and cur is None:
            continue
        if ln and not ln[0].isspace() and not ln.startswith("====="):
            # a group title; the next line is its rule
            cur = {"title": ln, "rows": [], "deltas": [], "lines": []}
            groups.append(cur)
            in_deltas = False
            if j < len(lines) and lines[j] and set(lines[j]) == {"-"}:
                j += 1
            else:
                cur["garbled"] = "title without rule"
            continue
        if cur is None:
            groups.append({"title": None, "rows": [], "deltas": [], "lines": [ln], "garbled": ln})
            continue
        if ln == "":
            continue
        cur["lines"].append(ln)
        if ln.startswith("====="):
            in_deltas = True
            continue
        tok = ln.split()
        if in_deltas:
            cur["deltas"].append((tok[1] if len(tok) > 1 else "", tok[0]))
        elif len(tok) == 3:
            cur["rows"].append(("", tok[2], tok[0], tok[1]))
        elif len(tok) == 4:
            cur["rows"].append((tok[2], tok[3], tok[0], tok[1]))
        else:
            cur["rows"].append(("?", ln, "?", "?"))
    return groups


def gen_large_journal(rng, n, accounts=("e:x", "e:y", "e:x:deep"), counter="a:cash", comm=None, step=3600):
    """`n` simple transactions (one explicit posting + an amount-less last posting), one per `step` seconds from
    2024-01-01T00:00:00Z: journals larger than any plausible batch / block size of an implementation"""
    import datetime
    base = civil_to_ns(2024, 1, 1, 0, 0, 0, 0, 0)
    unit = {"comm": comm, "opening": None, "closing": None} if comm else None
    txns = []
    for i in range(n):
        ns = base + i * step * 10 ** 9
        dt = EPOCH + datetime.timedelta(seconds=ns // 10 ** 9)
        txns.append({"ts": {"ns": str(ns), "off": 0, "text": dt.strftime("%Y-%m-%dT%H:%M:%SZ")}, "code": "#%05d" % i,
                     "desc": rng.choice(["a", "b", "c"]), "uuid": None, "loc": None, "tags": None, "comments": None,
                     "posts": [{"acct": rng.choice(list(accounts)), "amount": "%d.%02d" % (1 + i % 7, i % 100), "unit": unit, "comment": None}],
                     "last": {"acct": counter, "comment": None}})
    return txns

"""C02 — balance report figures are the exact sums of the postings.

Tie: op `run` with `want: ["txns", "balance"]`.  The implementation prints the balance report
(`BalanceReporter::write_txt_report`, scale min 0 / max 28, so every figure is printed exactly as
stored); the Lean model answers the rows and deltas of `Balance.fromIter`.  Rows (commodity, account,
own sum, tree sum) are compared in order and text-exact (stored scale included), deltas likewise.

Oracle (independent of the model): recompute, with `fractions.Fraction`, own sums / tree sums / the row set
/ the deltas from the implementation's own list of accepted transactions and compare them with the
figures of the report text.
"""
from fractions import Fraction as F

import common
from propbase import PropBase, model_cfg, cmp_status

D = common.D
MAX96 = common.MAX96

RX_META = set("\\.+*?()|[]{}^$#&-~/ ")


def rx_escape(s):
    """escape for the `regex` crate (only characters that are meta somewhere; `\\-` etc. are accepted)"""
    return "".join(("\\" + ch) if ch in RX_META else ch for ch in s)


# ---------------------------------------------------------------------------------------------
# exact simulation of rust_decimal's `+` (only used to *classify* an oracle failure as F17)

def dnum(text):
    """(signed coefficient, scale) of a decimal text as stored"""
    sc = common.dec_scale(text)
    return (int(D(text).scaleb(sc)), sc)


def dadd(a, b):
    """rust_decimal add on the exact path; None where the aligned sum leaves 96 bits (the code rounds there)"""
    if a is None or b is None:
        return None
    if a[0] == 0:
        return b
    if b[0] == 0:
        return a
    s = max(a[1], b[1])
    z = a[0] * 10 ** (s - a[1]) + b[0] * 10 ** (s - b[1])
    if abs(z) > MAX96:
        return None
    return (z, s)


def dsum(items):
    acc = (0, 0)
    for x in items:
        acc = dadd(acc, x)
        if acc is None:
            return None
    return acc


def ancestors(acct):
    parts = acct.split(":")
    return [":".join(parts[:i]) for i in range(1, len(parts))]


def is_desc(a, b):
    """account name b is a or a descendant of a (component-wise)"""
    return b == a or b.startswith(a + ":")


def report_exact(posts, sel):
    """is every addition the balance kernel performs for these postings inside the exact domain?
    posts: [(comm, acct, amount text)] in transaction order"""
    own = {}
    for c, a, t in posts:
        own.setdefault((c, a), []).append(dnum(t))
    sums = {}
    for k, l in own.items():
        s = dsum(l)
        if s is None:
            return False
        sums[k] = s
    keys = set(sums)
    for (c, a) in list(sums):
        for x in ancestors(a):
            keys.add((c, x))
    order = sorted(keys)
    tree = {}
    for k in sorted(keys, key=lambda k: -len(k[1].split(":"))):
        kids = [x for x in order if x[0] == k[0] and x[1].startswith(k[1] + ":") and
                len(x[1].split(":")) == len(k[1].split(":")) + 1]
        cs = dsum([tree[x] for x in kids])
        t = dadd(cs, sums.get(k, (0, 0)))
        if t is None:
            return False
        tree[k] = t
    listed = [k for k in order if sel is None or k[1] in sel]
    for c in {k[0] for k in listed}:
        if dsum([sums.get(k, (0, 0)) for k in listed if k[0] == c]) is None:
            return False
    return True


# ---------------------------------------------------------------------------------------------
# generator

def hdr(rng, cfg, i):
    h = common.gen_header(rng, cfg, {"p_code": 0.1, "p_desc": 0.2, "p_uuid": 0.1, "p_loc": 0.0, "p_tags": 0.0,
                                    "p_comments": 0.05}, cluster=(2024, 1 + i % 12, 1 + i % 28))
    return h


def small_amount(rng):
    return common.gen_amount_text(rng, nonzero=True, big=False)


def mk_txn(rng, cfg, i, legs, comm, closer=None):
    """legs: [(acct, amount text)] all in commodity `comm`; the transaction is closed either by an amount-less
    last posting or an explicit balancing posting on `closer`"""
    t = hdr(rng, cfg, i)
    unit = {"comm": comm, "opening": None, "closing": None} if comm else None
    posts = [{"acct": a, "amount": amt, "unit": unit, "comment": None} for a, amt in legs]
    total = sum((D(amt) for _, amt in legs), D(0))
    last = None
    if total != 0:
        closer = closer or legs[0][0]
        if rng.random() < 0.5 or not common.dec_fits(-total):
            last = {"acct": closer, "comment": None}
        else:
            posts.append({"acct": closer, "amount": common.fmt_dec(-total), "unit": unit, "comment": None})
    t["posts"] = posts
    t["last"] = last
    return t


def spread(rng, cfg, accts, comms, n_txns=None, closer_pool=None):
    """a few transactions touching the given accounts in the given commodities"""
    n = n_txns or rng.choice([1, 2, 3, 4])
    txns = []
    for i in range(n):
        c = rng.choice(comms)
        k = rng.choice([1, 2, 2, 3])
        legs = [(rng.choice(accts), small_amount(rng)) for _ in range(k)]
        txns.append(mk_txn(rng, cfg, i, legs, c, rng.choice(closer_pool or accts)))
    return txns


def cover(rng, cfg, accts, comm, closer=None):
    """one transaction posting to every given account once"""
    legs = [(a, small_amount(rng)) for a in accts]
    return mk_txn(rng, cfg, 0, legs, comm, closer or accts[0])


PARTS = ["a", "b", "c", "d", "x", "y", "bc", "ab", "a-x", "a1", "é", "2"]


def chain(rng, depth, root=None):
    parts = [root or rng.choice(["a", "b", "e", "x"])]
    for _ in range(depth - 1):
        parts.append(rng.choice(PARTS))
    return ":".join(parts)


def b_gap(rng, cfg, levels):
    base = chain(rng, rng.choice([1, 2]))
    leaf = base + ":" + ":".join(rng.choice(PARTS) for _ in range(levels + 1))
    other = rng.choice(["e", "x:y", base + ":z"])
    posted_base = rng.random() < 0.5
    accts = [leaf, other] + ([base] if posted_base else [])
    comm = rng.choice(["", "EUR"])
    return [cover(rng, cfg, accts, comm, other)] + spread(rng, cfg, accts, [comm], rng.choice([1, 2]))


def b_same_leaf(rng, cfg):
    leaf = rng.choice(PARTS)
    accts = ["a:x:" + leaf, "a:y:" + leaf, "b:" + leaf, "a:" + leaf] + ([leaf] if leaf != "2" else [])
    rng.shuffle(accts)
    accts = accts[:rng.randrange(2, 6)]
    comm = rng.choice(["", "USD"])
    return [cover(rng, cfg, accts, comm)] + spread(rng, cfg, accts, [comm], 1)


def b_str_prefix(rng, cfg):
    accts = ["a:b", "a:bc", "a:b:c", "a:bc:d", "ab", "ab:c", "a"]
    k = rng.randrange(2, len(accts) + 1)
    accts = rng.sample(accts, k)
    comm = rng.choice(["", "EUR"])
    return [cover(rng, cfg, accts, comm)] + spread(rng, cfg, accts, [comm], rng.choice([1, 2]))


def b_multi_comm(rng, cfg):
    accts = [chain(rng, rng.choice([1, 2, 3])) for _ in range(3)]
    comms = rng.sample(["", "EUR", "USD", "ACME"], rng.randrange(2, 5))
    return [cover(rng, cfg, accts, c) for c in comms] + spread(rng, cfg, accts, comms)


def b_parent(rng, cfg, posted):
    p = chain(rng, rng.choice([1, 2]))
    kids = [p + ":" + x for x in rng.sample(PARTS, rng.randrange(1, 4))]
    accts = kids + ([p] if posted else [])
    comm = rng.choice(["", "EUR"])
    return [cover(rng, cfg, accts, comm, kids[0])] + spread(rng, cfg, accts, [comm], 1)


def b_single_root(rng, cfg):
    r = rng.choice(["a", "e", "Assets"])
    comm = rng.choice(["", "EUR"])
    if rng.random() < 0.5:
        amt = small_amount(rng)
        return [mk_txn(rng, cfg, 0, [(r, amt), (r, common.neg_text(amt))], comm)]
    kids = [r + ":" + x for x in rng.sample(PARTS, rng.randrange(1, 4))]
    return [cover(rng, cfg, kids, comm, kids[0])]


def b_cancel(rng, cfg):
    p = chain(rng, rng.choice([1, 2]))
    amt = rng.choice(["1.00", "2.50", "7", "0.001", "12.3400"])
    legs = [(p + ":x", amt), (p + ":y", common.neg_text(amt))]
    comm = rng.choice(["", "EUR"])
    txns = [mk_txn(rng, cfg, 0, legs, comm)]
    if rng.random() < 0.7:
        txns.append(mk_txn(rng, cfg, 1, [(p + ":z", rng.choice(["5", "5.0", "-3"]))], comm, "e"))
    if rng.random() < 0.3:
        txns.append(mk_txn(rng, cfg, 2, [(p + ":x:k", "1.5"), (p + ":x", "-1.5")], comm))
    return txns


def b_deep(rng, cfg, tier):
    dmax = 12 if tier == "quick" else 40
    d = rng.randrange(5, dmax + 1)
    a = chain(rng, d)
    accts = [a]
    parts = a.split(":")
    for _ in range(rng.randrange(1, 4)):
        k = rng.randrange(1, d)
        accts.append(":".join(parts[:k]) + ":" + rng.choice(PARTS))
    comm = rng.choice(["", "EUR"])
    return [cover(rng, cfg, accts, comm, accts[-1])] + spread(rng, cfg, accts, [comm], 1)


def b_many_comms(rng, cfg):
    comms = [""] + common.COMMS
    rng.shuffle(comms)
    comms = comms[:rng.randrange(4, len(comms) + 1)]
    accts = [chain(rng, rng.choice([1, 2, 3])) for _ in range(rng.randrange(2, 5))]
    return [cover(rng, cfg, rng.sample(accts, rng.randrange(1, len(accts) + 1)), c) for c in comms]


def b_name_order(rng, cfg):
    accts = ["a-x", "a:b", "a1", "a", "a-x:c", "a:b-c", "a1:b", "a:1", "a:é", "aé"]
    accts = rng.sample(accts, rng.randrange(2, len(accts) + 1))
    comm = rng.choice(["", "EUR"])
    return [cover(rng, cfg, accts, comm)] + spread(rng, cfg, accts, [comm], 1)


def b_strict_chart(rng, cfg):
    """strict mode with a chart that declares the posted accounts only (parents are synthetic)"""
    accts = [chain(rng, rng.choice([2, 3, 4])) for _ in range(rng.randrange(1, 4))]
    comm = rng.choice(["EUR", "USD"])
    cfg.update({"strict": True, "accounts": sorted(set(accts)), "commodities": [comm], "tags": []})
    return [cover(rng, cfg, accts, comm)] + spread(rng, cfg, accts, [comm], 1)


def b_big(rng, cfg):
    """values near 2^96: most of these leave the exact domain (model: UNDEF; oracle: F17 or panic)"""
    accts = [chain(rng, rng.choice([1, 2, 3])) for _ in range(3)]
    txns = []
    for i in range(rng.randrange(1, 4)):
        amt = common.gen_amount_text(rng, big=True)
        if rng.random() < 0.6:
            base = rng.choice([MAX96, MAX96 // 10, MAX96 // 3, 10 ** 27, 5 * 10 ** 27])
            sc = rng.choice([0, 0, 1, 2, 27, 28])
            digits = str(base).rjust(sc + 1, "0")
            amt = (digits[:-sc] + "." + digits[-sc:]) if sc else digits
            if rng.random() < 0.4:
                amt = "-" + amt
        legs = [(rng.choice(accts), amt)]
        if rng.random() < 0.5:
            legs.append((rng.choice(accts), small_amount(rng)))
        txns.append(mk_txn(rng, cfg, i, legs, "", rng.choice(accts)))
    return txns


BOUNDARY = {
    "gap1": lambda r, c, t: b_gap(r, c, 1),
    "gap2": lambda r, c, t: b_gap(r, c, 2),
    "gap3": lambda r, c, t: b_gap(r, c, 3),
    "same_leaf": lambda r, c, t: b_same_leaf(r, c),
    "str_prefix": lambda r, c, t: b_str_prefix(r, c),
    "multi_comm": lambda r, c, t: b_multi_comm(r, c),
    "parent_posted": lambda r, c, t: b_parent(r, c, True),
    "parent_not_posted": lambda r, c, t: b_parent(r, c, False),
    "single_root": lambda r, c, t: b_single_root(r, c),
    "cancel_subtree": lambda r, c, t: b_cancel(r, c),
    "deep": lambda r, c, t: b_deep(r, c, t),
    "many_comms": lambda r, c, t: b_many_comms(r, c),
    "name_order": lambda r, c, t: b_name_order(r, c),
    "strict_chart": lambda r, c, t: b_strict_chart(r, c),
    "big": lambda r, c, t: b_big(r, c),
}


def uses_price(txns):
    for t in txns:
        for p in t["posts"]:
            u = p.get("unit")
            if u and u.get("closing"):
                return True
    return False


def all_row_names(txns):
    names = set()
    for t in txns:
        for p in t["posts"]:
            names.add(p["acct"])
        if t.get("last"):
            names.add(t["last"]["acct"])
    for a in list(names):
        names.update(ancestors(a))
    return sorted(names)


class C02(PropBase):
    id = "C02"

    def gen(self, rng, tier, focus=None):
        out = []
        per = 50 if tier == "quick" else 1000
        for kind, f in BOUNDARY.items():
            for _ in range(per):
                cfg = {}
                txns = f(rng, cfg, tier)
                out.append(self.mk(rng, cfg, txns, kind, selector=rng.random() < 0.25))
        n = 1000 if tier == "quick" else 40000
        for _ in range(n):
            cfg = {}
            big = rng.random() < 0.04
            opts = {"p_invalid": 0.0, "big": big, "p_price": rng.choice([0.0, 0.0, 0.25]), "p_opening": 0.0,
                    "comms": common.COMMS[:rng.randrange(1, 6)], "p_comm": rng.choice([0.0, 0.5, 0.9]),
                    "depth": rng.choice([2, 4, 6]) if tier == "quick" else rng.choice([2, 4, 6, 12]),
                    "n_accts": rng.choice([2, 4, 8]), "p_loc": 0.0, "p_tags": 0.0}
            txns = common.gen_journal(rng, cfg, opts)
            out.append(self.mk(rng, cfg, txns, "big-random" if big else "random", selector=rng.random() < 0.3))
        # large journals (sums over thousands of postings, counts off any block size)
        for _ in range(1 if tier == "quick" else 6):
            n = rng.choice([2051, 2049, 1025, 4099])
            out.append(self.mk(rng, {}, common.gen_large_journal(rng, n), "large:%d" % n, selector=rng.random() < 0.3))
        # the same exact sums under a report scale that rounds (C02's own runs print at scale 0..28, where nothing is
        # rounded, so sums that are rounded *before* the tree and the deltas are built look right there): C17's journals whose
        # parts and whose total round differently, borrowed here (tree sums and deltas must be the rounded exact sums)
        if not focus:
            import c17
            for _ in range(60 if tier == "quick" else 1500):
                c = c17.PROP.mk_parts_total(rng)
                out.append(dict(c, delegate="c17", kind="scaled:" + str(c.get("kind", ""))))
        return out

    def mk(self, rng, cfg, txns, kind, selector=False):
        text = common.render_journal(txns, common.gen_layout(rng))
        case = {"op": "run", "kind": kind, "cfg": cfg, "txns": txns, "text": text, "want": ["txns", "balance"],
                "no_price": not uses_price(txns)}
        if selector:
            names = all_row_names(txns)
            k = rng.randrange(1, max(2, len(names)))
            sel = rng.sample(names, min(k, len(names)))
            if rng.random() < 0.3:
                sel.append(rng.choice(["zz", "a:nope", sel[0] + "x", sel[0][:-1] or "q"]))
            sel = sorted(set(sel))
            cfg = dict(cfg)
            cfg["sel_balance"] = [rx_escape(s) for s in sel]
            case["cfg"] = cfg
            case["msel_balance"] = sel
            case["kind"] = kind + "+sel"
        return case

    def impl_case(self, case):
        return {k: v for k, v in case.items() if k not in ("txns", "msel_balance", "no_price")}

    def model_case(self, case):
        c = {k: v for k, v in case.items() if k not in ("text", "no_price")}
        c["cfg"] = model_cfg(case.get("cfg", {}))
        return c

    # -- tie
    def compare(self, case, impl, model):
        d = cmp_status(impl, model)
        if d:
            return d
        if impl.get("r") != "OK":
            return None
        a = impl["out"]["balance"]
        b = model["out"]["balance"]
        if b.get("r") == "UNDEF":
            return "skip"
        if a.get("r") != b.get("r"):
            return "balance status differs: impl=%s model=%s (%s)" % (a.get("r"), b.get("r"), str(a.get("msg"))[:200])
        if a.get("r") != "OK":
            return None
        parsed = common.parse_balance_report(a["v"])
        if parsed is None:
            return "balance report without title: %r" % a["v"][:300]
        rows, deltas = parsed
        mrows = [tuple(r) for r in b["v"]["rows"]]
        mdeltas = [tuple(x) for x in b["v"]["deltas"]]
        rows = [tuple(r) for r in rows]
        if rows != mrows:
            for i, (x, y) in enumerate(zip(rows, mrows)):
                if x != y:
                    return "balance row %d differs: impl=%s model=%s" % (i, x, y)
            return "number of balance rows differs: impl=%d model=%d" % (len(rows), len(mrows))
        if [tuple(x) for x in deltas] != mdeltas:
            return "deltas differ: impl=%s model=%s" % (deltas, mdeltas)
        return None

    # -- oracle
    def oracle(self, case, impl):
        if impl.get("r") != "OK":
            return None
        txns = impl["out"].get("txns", {})
        bal = impl["out"].get("balance", {})
        if txns.get("r") != "OK":
            return {"sig": "txns-output", "what": "accepted set cannot be listed: %s" % txns.get("r")}
        posts = [(p["comm"], p["acct"], p["amount"]) for t in txns["v"] for p in t["posts"]]
        sel = case.get("msel_balance")
        sel = set(sel) if sel else None
        if bal.get("r") == "PANIC":
            if not report_exact(posts, sel):
                return None      # overflow outside the numeric domain of the property (C15 / F6)
            return {"sig": "balance-panic", "what": "balance report panics inside the exact domain: %s" % str(bal.get("msg"))[:200]}
        if bal.get("r") != "OK":
            return {"sig": "balance-error", "what": "no balance report for an accepted journal: %s" % str(bal.get("msg"))[:200]}
        self.remember(case)
        f = self.check_report(posts, sel, bal["v"], case)
        if f and f["sig"] == "delta-nonzero":
            # the report is exact for the loaded postings; is an accepted transaction itself unbalanced because the
            # acceptor's own sum was rounded (C01's F17)?
            for t in txns["v"]:
                if sum((F(p["txn_amount"]) for p in t["posts"]), F(0)) != 0 and \
                        dsum([dnum(p["txn_amount"]) for p in t["posts"]]) is None:
                    return {"sig": "F17:inexact-arithmetic",
                            "what": "%s (an accepted transaction does not sum to zero: rounded at load)" % f["what"]}
        if f and not report_exact(posts, sel):
            return {"sig": "F17:inexact-arithmetic",
                    "what": "%s (a sum on the way is not representable: rust_decimal rounded silently)" % f["what"]}
        return f

    def check_report(self, posts, sel, text, case):
        parsed = common.parse_balance_report(text)
        if parsed is None:
            return {"sig": "no-report", "what": "balance report text without title"}
        rows, deltas = parsed
        own = {}
        for c, a, t in posts:
            own[(c, a)] = own.get((c, a), F(0)) + F(t)
        keys = set(own)
        for (c, a) in list(own):
            for x in ancestors(a):
                keys.add((c, x))
        exp = sorted(keys)                      # by commodity, then account *name* as a string
        listed = [k for k in exp if sel is None or k[1] in sel]
        got = [(r[0], r[1]) for r in rows]
        if got != listed:
            missing = [k for k in listed if k not in got]
            extra = [k for k in got if k not in listed]
            if missing or extra or len(got) != len(set(got)):
                return {"sig": "row-set", "what": "rows are not the posted accounts and their ancestors, each once: missing=%s extra=%s dup=%s"
                        % (missing[:5], extra[:5], len(got) != len(set(got)))}
            return {"sig": "row-order", "what": "rows not sorted by (commodity, account): %s" % got[:8]}
        try:
            for (c, a, o, t) in rows:
                k = (c, a)
                if k not in own:
                    if F(o) != 0:
                        return {"sig": "gap-own", "what": "never-posted ancestor %s has own sum %s" % (k, o)}
                elif F(o) != own[k]:
                    return {"sig": "own-sum", "what": "own sum of %s is %s, postings sum to %s" % (k, o, own[k])}
                ts = sum((v for (c2, a2), v in own.items() if c2 == c and is_desc(a, a2)), F(0))
                if F(t) != ts:
                    return {"sig": "tree-sum", "what": "tree sum of %s is %s, own + descendants sum to %s" % (k, t, ts)}
            dcomms = sorted({k[0] for k in listed})
            if [d[0] for d in deltas] != dcomms:
                return {"sig": "delta-set", "what": "delta lines %s, listed commodities %s" % ([d[0] for d in deltas], dcomms)}
            for c, v in deltas:
                e = sum((own.get(k, F(0)) for k in listed if k[0] == c), F(0))
                if F(v) != e:
                    return {"sig": "delta-sum", "what": "delta of '%s' is %s, listed own sums add to %s" % (c, v, e)}
                if sel is None and case.get("no_price") and F(v) != 0:
                    return {"sig": "delta-nonzero", "what": "delta of '%s' is %s with all accounts listed and no closing price" % (c, v)}
        except (ValueError, ZeroDivisionError):
            return {"sig": "unparsable", "what": "balance report row cannot be parsed: %s" % str(rows)[:300]}
        return None

    def shrink(self, f):
        """drop transactions, then postings, while the same oracle failure persists"""
        case, sig = f["case"], f["oracle"]["sig"]
        best = dict(f)
        budget = 80

        def attempt(txns):
            nonlocal budget
            if budget <= 0 or not txns:
                return None
            budget -= 1
            cand = dict(case)
            cand["txns"] = txns
            cand["text"] = common.render_journal(txns)
            cand["no_price"] = not uses_price(txns)
            impl = common.run_driver([common.TK_IMPL], [self.impl_case(cand)], jobs=1)[0]
            of = self.oracle(cand, impl)
            if of and of.get("sig") == sig:
                model = common.run_driver([common.TK_MODEL], [self.model_case(cand)], jobs=1)[0]
                return dict(case=cand, impl=impl, model=model, oracle=of)
            return None

        changed = True
        while changed and budget > 0:
            changed = False
            txns = best["case"]["txns"]
            for i in range(len(txns)):
                r = attempt(txns[:i] + txns[i + 1:])
                if r:
                    best, changed = r, True
                    break
            if changed:
                continue
            for i, t in enumerate(txns):
                for j in range(len(t["posts"])):
                    if len(t["posts"]) <= 1:
                        break
                    t2 = dict(t)
                    t2["posts"] = t["posts"][:j] + t["posts"][j + 1:]
                    if not t2.get("last"):
                        t2["last"] = {"acct": "zz:shrink", "comment": None}
                    r = attempt(txns[:i] + [t2] + txns[i + 1:])
                    if r:
                        best, changed = r, True
                        break
                if changed:
                    break
        return best

    def nontrivial(self, case, impl):
        keys, posted = set(), set()
        for t in case.get("txns", []):
            ps = list(t["posts"]) + ([t["last"]] if t.get("last") else [])
            for p in ps:
                u = p.get("unit")
                c = u["comm"] if u else ""
                posted.add((c, p["acct"]))
        gaps = 0
        for (c, a) in posted:
            for x in ancestors(a):
                if (c, x) not in posted:
                    gaps += 1
        depth = max([len(a.split(":")) for _, a in posted] + [0])
        return gaps >= 1 or len({c for c, _ in posted}) >= 2 or depth >= 3

    def rule(self):
        return ("journals built from account trees with the boundary classes gap of 1-3 levels, same leaf under two parents, "
                "string-prefix-but-not-component-prefix names, one account in several commodities, parent posted / not posted, "
                "single root, sums cancelling inside a subtree, deep chains (quick: <= 12, thorough: <= 40 levels), up to 8 "
                "commodities incl. the empty one, names ordering differently as strings and as component lists, strict mode "
                "with synthetic parents, near-2^96 values, plus random journals of gen/common.py (with closing prices in a "
                "third of them); a quarter to a third of the cases carry an exact-name account selector (escaped regexes for the "
                "implementation, the same names for the model); non-trivial = at least one gap ancestor, two commodities or "
                "depth >= 3; distinct = sha256 of the implementation case line")

    def trusted_base(self):
        return super().trusted_base() + [
            "modelled, not verified: rust_decimal `+` outside the exact domain (model answers UNDEF, case skipped; oracle "
            "classifies F17); price conversion is off (report commodity unset), so the kernel input is the posting stream; "
            "the account selector of the tie is an exact-name selector (regex semantics are C11's)"]

    def assumptions(self):
        return ["posting amounts have scale <= 28 (representation invariant of rust_decimal, Dec.ofToken)",
                "account names determine account paths (components are non-empty and contain no ':'; hypothesis NamesInj of "
                "the theorems, proved from that condition by C02.namesInj_of_good / KeyOrder.acctName_inj)",
                "inexact decimal arithmetic is outside the modelled domain (DESIGN.md F17, known finding)"]


import deccontract  # noqa: E402
deccontract.install(C02, ["add", "sum", "cmp"])
PROP = C02()

import SumLemmas
namespace T2

/-- hypotheses on the completed row list (what bubble-up + de-dup establish) -/
structure Complete (R : List Row) (D : Nat) : Prop where
  nodup   : (R.map (·.path)).Nodup
  nonempty: ∀ m ∈ R, m.path ≠ []
  closed  : ∀ m ∈ R, 2 ≤ m.path.length → ∃ p ∈ R, p.path = m.path.dropLast
  depth   : ∀ m ∈ R, m.path.length ≤ D

theorem row_eq_of_path {R : List Row} (h : (R.map (·.path)).Nodup) {a b : Row}
    (ha : a ∈ R) (hb : b ∈ R) (hp : a.path = b.path) : a = b := by
  induction R with
  | nil => cases ha
  | cons r t ih =>
    simp only [List.map_cons, List.nodup_cons, List.mem_map, not_exists, not_and] at h
    rcases List.mem_cons.mp ha with rfl | ha' <;> rcases List.mem_cons.mp hb with rfl | hb'
    · rfl
    · exact absurd hp.symm (h.1 b hb')
    · exact absurd hp (h.1 a ha')
    · exact ih h.2 ha' hb'

theorem nodup_rows {R : List Row} (h : (R.map (·.path)).Nodup) : R.Nodup := by
  induction R with
  | nil => simp
  | cons r t ih =>
    simp only [List.map_cons, List.nodup_cons, List.mem_map, not_exists, not_and] at h
    exact List.nodup_cons.mpr ⟨fun hr => h.1 r hr rfl, ih h.2⟩

/-- every non-empty prefix of a row's path is the path of a row -/
theorem prefix_closed {R : List Row} {D} (hc : Complete R D) :
    ∀ (k : Nat) (m : Row), m ∈ R → ∀ q : Path, q ≠ [] → q <+: m.path → m.path.length = q.length + k →
      ∃ c ∈ R, c.path = q := by
  intro k
  induction k with
  | zero =>
    intro m hm q _ hpre hlen
    have : q = m.path := List.IsPrefix.eq_of_length hpre (by omega)
    exact ⟨m, hm, this.symm⟩
  | succ k ih =>
    intro m hm q hq hpre hlen
    have hqlen : 1 ≤ q.length := by
      cases q with
      | nil => exact absurd rfl hq
      | cons _ _ => simp
    have h2 : 2 ≤ m.path.length := by omega
    obtain ⟨p, hp, hpp⟩ := hc.closed m hm h2
    apply ih p hp q hq
    · -- q <+: m.path.dropLast
      rw [hpp]
      obtain ⟨t, ht⟩ := hpre
      have htne : t ≠ [] := by
        intro h; subst h; simp at ht; rw [ht] at hlen; omega
      rw [← ht, List.dropLast_append_of_ne_nil htne]
      exact List.prefix_append _ _
    · rw [hpp, List.length_dropLast]; omega

theorem child_path {n c : Row} (h : isChildOf n c = true) :
    c.path ≠ [] ∧ c.path.dropLast = n.path ∧ c.path.length = n.path.length + 1 := by
  simp [isChildOf] at h
  refine ⟨h.1, h.2, ?_⟩
  have := List.length_dropLast (xs := c.path)
  rw [h.2] at this
  have : 1 ≤ c.path.length := by
    cases hc : c.path with
    | nil => exact absurd hc h.1
    | cons _ _ => simp
  omega

theorem prefix_of_child {n c : Row} (h : isChildOf n c = true) : n.path <+: c.path := by
  have := child_path h
  rw [← this.2.1]
  exact List.dropLast_prefix _

/-- pointwise decomposition of the descendant indicator -/
theorem desc_decomp {R : List Row} {D} (hc : Complete R D) (n : Row) (m : Row) (hm : m ∈ R) :
    (if isDesc n m then m.own else 0)
      = (if decide (m.path = n.path) then m.own else 0)
        + ((R.filter (isChildOf n)).map (fun c => if isDesc c m then m.own else 0)).sum := by
  by_cases hP : isDesc n m = true
  · have hpre : n.path <+: m.path := by simpa [isDesc, List.isPrefixOf_iff_prefix] using hP
    by_cases heq : m.path = n.path
    · -- m is n's own row: no child is a prefix of m
      have : ((R.filter (isChildOf n)).map (fun c => if isDesc c m then m.own else 0)).sum = 0 := by
        apply sum_ite_none
        intro c hcmem
        have hch := (List.mem_filter.mp hcmem).2
        have hl := (child_path hch).2.2
        cases hd : isDesc c m with
        | false => rfl
        | true =>
          have : c.path <+: m.path := by simpa [isDesc, List.isPrefixOf_iff_prefix] using hd
          have := this.length_le
          rw [heq] at this; omega
      simp [hP, heq, this]
    · -- strict descendant: exactly one child is a prefix of m
      obtain ⟨t, ht⟩ := hpre
      have htne : t ≠ [] := by
        intro h; subst h; simp at ht; exact heq ht.symm
      obtain ⟨x, rest, hx⟩ := List.exists_cons_of_ne_nil htne
      subst hx
      let q : Path := n.path ++ [x]
      have hqpre : q <+: m.path := by
        rw [← ht]; exact ⟨rest, by simp [q]⟩
      have hqne : q ≠ [] := by simp [q]
      obtain ⟨c0, hc0R, hc0p⟩ := prefix_closed hc (m.path.length - q.length) m hm q hqne hqpre
        (by have := hqpre.length_le; omega)
      have hc0child : isChildOf n c0 = true := by
        simp [isChildOf, hc0p, q]
      have hc0mem : c0 ∈ R.filter (isChildOf n) := List.mem_filter.mpr ⟨hc0R, hc0child⟩
      have hnd : (R.filter (isChildOf n)).Nodup := (nodup_rows hc.nodup).filter _
      have huniq : ∀ c ∈ R.filter (isChildOf n), isDesc c m = true ↔ c = c0 := by
        intro c hcmem
        have hcR := (List.mem_filter.mp hcmem).1
        have hch := (List.mem_filter.mp hcmem).2
        constructor
        · intro hd
          have hcp : c.path <+: m.path := by simpa [isDesc, List.isPrefixOf_iff_prefix] using hd
          have hlen : c.path.length = q.length := by
            have := (child_path hch).2.2; simp [q]; omega
          have : c.path = q := by
            have h1 := List.prefix_of_prefix_length_le hcp hqpre (by omega)
            exact h1.eq_of_length hlen
          exact row_eq_of_path hc.nodup hcR hc0R (by rw [this, hc0p])
        · intro h; subst h
          simp [isDesc, List.isPrefixOf_iff_prefix, hc0p, hqpre]
      have := sum_ite_unique (R.filter (isChildOf n)) (fun c => isDesc c m) m.own c0 hc0mem hnd huniq
      simp [hP, heq, this]
  · -- not a descendant of n: not a descendant of any child either
    have hP' : isDesc n m = false := by simpa using hP
    have hne : m.path ≠ n.path := by
      intro h; apply hP; simp [isDesc, List.isPrefixOf_iff_prefix, h]
    have : ((R.filter (isChildOf n)).map (fun c => if isDesc c m then m.own else 0)).sum = 0 := by
      apply sum_ite_none
      intro c hcmem
      have hch := (List.mem_filter.mp hcmem).2
      cases hd : isDesc c m with
      | false => rfl
      | true =>
        have h1 : c.path <+: m.path := by simpa [isDesc, List.isPrefixOf_iff_prefix] using hd
        have h2 := prefix_of_child hch
        exact absurd (by simpa [isDesc, List.isPrefixOf_iff_prefix] using h2.trans h1) hP
    simp [hP', hne, this]

/-- own-row term: exactly `n.own` -/
theorem own_term {R : List Row} {D} (hc : Complete R D) (n : Row) (hn : n ∈ R) :
    (R.map (fun m => if decide (m.path = n.path) then m.own else 0)).sum = n.own := by
  have h := sum_ite_unique R (fun m => decide (m.path = n.path)) n.own n hn (nodup_rows hc.nodup)
    (by intro c hcR; simp; constructor
        · intro h; exact row_eq_of_path hc.nodup hcR hn h
        · intro h; rw [h])
  rw [← h]
  apply sum_map_congr
  intro m hmR
  by_cases hp : m.path = n.path
  · have := row_eq_of_path hc.nodup hmR hn hp; subst this; simp
  · simp [hp]

theorem descSum_step {R : List Row} {D} (hc : Complete R D) (n : Row) (hn : n ∈ R) :
    descSum R n = n.own + ((R.filter (isChildOf n)).map (descSum R)).sum := by
  unfold descSum
  rw [sum_filter_eq_ite]
  rw [sum_map_congr R _ _ (fun m hm => desc_decomp hc n m hm)]
  rw [sum_map_add, own_term hc n hn, sum_comm]
  congr 1
  apply sum_map_congr
  intro c _
  rw [sum_filter_eq_ite]

/-- C02 core: the recursive tree sum equals the sum over all descendants -/
theorem tree_eq_descSum {R : List Row} {D} (hc : Complete R D) :
    ∀ (f : Nat) (n : Row), n ∈ R → D - n.path.length < f → tree R f n = descSum R n := by
  intro f
  induction f with
  | zero => intro n _ h; omega
  | succ f ih =>
    intro n hn hf
    rw [descSum_step hc n hn]
    simp only [tree]
    congr 1
    apply sum_map_congr
    intro c hcmem
    have hcR := (List.mem_filter.mp hcmem).1
    have hl := (child_path (List.mem_filter.mp hcmem).2).2.2
    have := hc.depth c hcR
    exact ih c hcR (by omega)

end T2

#print axioms T2.tree_eq_descSum
#check @T2.tree_eq_descSum

namespace T5
/-! C17 calibration: round-half-away-from-zero on the coefficient, as `round_dp_with_strategy` does -/

/-- round the non-negative coefficient `n` (scale `s`) to scale `p ≤ s`: divide by 10^(s-p), half goes up -/
def roundCoeff (n k : Nat) : Nat := (2 * n + 10 ^ k) / (2 * 10 ^ k)      -- k = s - p, result has scale p

theorem pow_pos' (k : Nat) : 0 < 10 ^ k := Nat.pow_pos (by decide)

/-- error bound: |q·10^k − n| ≤ 10^k / 2, i.e. 2·|q·10^k − n| ≤ 10^k -/
theorem round_bound (n k : Nat) :
    2 * (roundCoeff n k * 10 ^ k) ≤ 2 * n + 10 ^ k ∧ 2 * n < 2 * (roundCoeff n k * 10 ^ k) + 10 ^ k := by
  unfold roundCoeff
  have hp := pow_pos' k
  generalize 10 ^ k = P at *
  have h1 := Nat.div_add_mod (2 * n + P) (2 * P)
  have h2 := Nat.mod_lt (2 * n + P) (show 0 < 2 * P by omega)
  generalize (2 * n + P) / (2 * P) = q at *
  generalize (2 * n + P) % (2 * P) = r at *
  have e : 2 * P * q = 2 * (q * P) := by
    rw [Nat.mul_comm q P, Nat.mul_assoc]
  omega

/-- exact when the dropped digits are zero -/
theorem round_exact (m k : Nat) : roundCoeff (m * 10 ^ k) k = m := by
  unfold roundCoeff
  have hp := pow_pos' k
  generalize 10 ^ k = P at *
  have : 2 * (m * P) + P = P + m * (2 * P) := by
    rw [Nat.mul_left_comm m 2 P]; omega
  rw [this, Nat.add_mul_div_right _ _ (by omega : 0 < 2 * P)]
  rw [Nat.div_eq_of_lt (by omega)]
  omega

/-- ties go away from zero (up on the magnitude) -/
theorem round_tie (m k : Nat) (hk : 0 < k) : roundCoeff (m * 10 ^ k + 5 * 10 ^ (k - 1)) k = m + 1 := by
  unfold roundCoeff
  have hkk : 10 ^ k = 10 * 10 ^ (k - 1) := by
    have : k = (k - 1) + 1 := by omega
    rw [this, Nat.pow_succ]; simp; omega
  have hp := pow_pos' (k - 1)
  rw [hkk]
  generalize 10 ^ (k - 1) = Q at *
  have : 2 * (m * (10 * Q) + 5 * Q) + 10 * Q = (m + 1) * (2 * (10 * Q)) := by
    have e1 : m * (10 * Q) = 10 * (m * Q) := by rw [Nat.mul_left_comm]
    have e2 : (m + 1) * (2 * (10 * Q)) = 20 * (m * Q) + 20 * Q := by
      rw [Nat.add_mul, Nat.mul_left_comm m 2, Nat.mul_left_comm m 10]; omega
    rw [e1, e2]; omega
  rw [this, Nat.mul_div_cancel _ (by omega : 0 < 2 * (10 * Q))]

#print axioms round_bound
#print axioms round_tie
end T5

namespace T

structure Dec where
  neg : Bool
  coeff : Nat
  scale : Nat
deriving Repr, DecidableEq

def sgn (b : Bool) : Int := if b then -1 else 1

def Dec.units (d : Dec) : Int := sgn d.neg * (d.coeff : Int) * (10 : Int) ^ (28 - d.scale)

def Dec.isZero (d : Dec) : Bool := d.coeff == 0

def max96 : Nat := 2^96 - 1

/-- exact path of rust_decimal add; `none` when the aligned result does not fit 96 bits -/
def Dec.add (a b : Dec) : Option Dec :=
  if a.isZero then some b else if b.isZero then some a else
  let s := max a.scale b.scale
  let x : Int := sgn a.neg * ((a.coeff * 10 ^ (s - a.scale) : Nat) : Int)
  let y : Int := sgn b.neg * ((b.coeff * 10 ^ (s - b.scale) : Nat) : Int)
  let z := x + y
  if z.natAbs ≤ max96 then some { neg := decide (z < 0), coeff := z.natAbs, scale := s } else none

theorem units_zero (d : Dec) (h : d.isZero = true) : d.units = 0 := by
  simp [Dec.isZero] at h; simp [Dec.units, h]

theorem pow_split (s k : Nat) (h1 : k ≤ s) (h2 : s ≤ 28) :
    (10:Int) ^ (s - k) * (10:Int) ^ (28 - s) = (10:Int) ^ (28 - k) := by
  rw [← Int.pow_add]; congr 1; omega

theorem sgn_natAbs (z : Int) : sgn (decide (z < 0)) * (z.natAbs : Int) = z := by
  unfold sgn
  by_cases h : z < 0
  · simp [h]; omega
  · simp [h]; omega

theorem add_units (a b r : Dec) (ha : a.scale ≤ 28) (hb : b.scale ≤ 28)
    (h : Dec.add a b = some r) : r.units = a.units + b.units := by
  unfold Dec.add at h
  split at h
  · rename_i hz; cases h; simp [units_zero a hz]
  · split at h
    · rename_i _ hz; cases h; simp [units_zero b hz]
    · simp only at h
      split at h
      · cases h
        simp only [Dec.units]
        rw [sgn_natAbs]
        have hs : max a.scale b.scale ≤ 28 := by omega
        have e1 := pow_split (max a.scale b.scale) a.scale (by omega) hs
        have e2 := pow_split (max a.scale b.scale) b.scale (by omega) hs
        rw [Int.add_mul]
        simp only [Int.natCast_mul, Int.natCast_pow, Int.mul_assoc]
        rw [← e1, ← e2]
        simp [Int.mul_assoc]
      · cases h

/-- uniqueness of sorted lists up to permutation for an antisymmetric total preorder -/
theorem sorted_perm_eq {α} (le : α → α → Prop)
    (antisymm : ∀ a b, le a b → le b a → a = b) :
    ∀ (l₁ l₂ : List α), l₁.Perm l₂ → l₁.Pairwise le → l₂.Pairwise le → l₁ = l₂ := by
  intro l₁
  induction l₁ with
  | nil => intro l₂ p _ _; exact (List.Perm.nil_eq p)
  | cons a t ih =>
    intro l₂ p s1 s2
    cases l₂ with
    | nil => exact absurd p.symm (by simp)
    | cons b u =>
      have ha : a ∈ b :: u := p.subset (List.mem_cons_self)
      have hb : b ∈ a :: t := p.symm.subset (List.mem_cons_self)
      have hab : a = b := by
        rcases List.mem_cons.mp ha with h | h
        · exact h
        · rcases List.mem_cons.mp hb with h' | h'
          · exact h'.symm
          · exact antisymm a b ((List.pairwise_cons.mp s1).1 b h') ((List.pairwise_cons.mp s2).1 a h)
      subst hab
      congr 1
      exact ih u (List.Perm.cons_inv p) (List.pairwise_cons.mp s1).2 (List.pairwise_cons.mp s2).2

end T

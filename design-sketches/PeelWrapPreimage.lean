/-! C11/C18 calibration: `into_full_haystack_pattern` / `peel_full_haystack_pattern` on character lists,
    and C09 `preimage_injective` for fixed-width newline-terminated items. -/
namespace T11

def pre : List Char := "^(?:".toList
def suf : List Char := ")$".toList

def wrap (p : List Char) : List Char := pre ++ p ++ suf

def stripPrefix (x : List Char) : List Char → Option (List Char)
  | s => if x.isPrefixOf s then some (s.drop x.length) else none

def stripSuffix (x : List Char) (s : List Char) : Option (List Char) :=
  if x.isSuffixOf s then some (s.take (s.length - x.length)) else none

/-- `match re.strip_prefix("^(?:") { Some(c) => c.strip_suffix(")$").unwrap_or(re), None => re }` -/
def peel (re : List Char) : List Char :=
  match stripPrefix pre re with
  | some c => (stripSuffix suf c).getD re
  | none => re

theorem peel_wrap (p : List Char) : peel (wrap p) = p := by
  unfold peel wrap stripPrefix
  have h1 : pre.isPrefixOf (pre ++ p ++ suf) = true := by
    rw [List.isPrefixOf_iff_prefix, List.append_assoc]; exact List.prefix_append _ _
  simp only [h1, if_true]
  have h2 : (pre ++ p ++ suf).drop pre.length = p ++ suf := by
    rw [List.append_assoc, List.drop_left]
  rw [h2]
  unfold stripSuffix
  have h3 : suf.isSuffixOf (p ++ suf) = true := by
    rw [List.isSuffixOf_iff_suffix]; exact List.suffix_append _ _
  simp only [h3, if_true, Option.getD_some]
  rw [List.length_append, Nat.add_sub_cancel, List.take_left]

/-- anchoring is neither lost nor compounded by a serialise/deserialise cycle -/
theorem wrap_peel_wrap (p : List Char) : wrap (peel (wrap p)) = wrap p := by rw [peel_wrap]

/-- patterns that already contain the wrapper text survive too -/
example : peel (wrap (wrap "abc".toList)) = wrap "abc".toList := peel_wrap _

/-! C09: the hashed message determines the (sorted) item list when items have a fixed width -/
def preimage (items : List (List Char)) : List Char := (items.map (· ++ ['\n'])).flatten

theorem preimage_injective (w : Nat) : ∀ (xs ys : List (List Char)),
    (∀ x ∈ xs, x.length = w) → (∀ y ∈ ys, y.length = w) → preimage xs = preimage ys → xs = ys := by
  intro xs
  induction xs with
  | nil =>
    intro ys _ hy h
    cases ys with
    | nil => rfl
    | cons y t => simp [preimage] at h
  | cons x t ih =>
    intro ys hx hy h
    cases ys with
    | nil => simp [preimage] at h
    | cons y u =>
      simp only [preimage, List.map_cons, List.flatten_cons, List.append_assoc] at h
      have hl : x.length = y.length := by
        rw [hx x (List.mem_cons_self), hy y (List.mem_cons_self)]
      have := List.append_inj h hl
      have h2 : (t.map (· ++ ['\n'])).flatten = (u.map (· ++ ['\n'])).flatten := by
        have := this.2; simpa using this
      rw [this.1, ih u (fun a ha => hx a (List.mem_cons_of_mem _ ha))
        (fun a ha => hy a (List.mem_cons_of_mem _ ha)) h2]

#print axioms peel_wrap
#print axioms preimage_injective
end T11

namespace T4

/-! winnow-like result and the number token: print/parse inverse (calibration for C06) -/

inductive Res (α : Type) where
  | ok (a : α) (rest : List Char)
  | bt
  | cut
deriving Repr

def isDigit (c : Char) : Bool := '0' ≤ c && c ≤ '9'

def digitChar (n : Nat) : Char := Char.ofNat (48 + n)
def digitVal (c : Char) : Nat := c.toNat - 48

/-- little-endian digits with fuel -/
def digitsRev : Nat → Nat → List Char
  | 0, _ => ['0']
  | f+1, n => if n < 10 then [digitChar n] else digitChar (n % 10) :: digitsRev f (n / 10)

def valueRev : List Char → Nat
  | [] => 0
  | c :: t => digitVal c + 10 * valueRev t

theorem digitVal_digitChar (n : Nat) (h : n < 10) : digitVal (digitChar n) = n := by
  have : n = 0 ∨ n = 1 ∨ n = 2 ∨ n = 3 ∨ n = 4 ∨ n = 5 ∨ n = 6 ∨ n = 7 ∨ n = 8 ∨ n = 9 := by omega
  rcases this with h|h|h|h|h|h|h|h|h|h <;> subst h <;> decide

theorem isDigit_digitChar (n : Nat) (h : n < 10) : isDigit (digitChar n) = true := by
  have : n = 0 ∨ n = 1 ∨ n = 2 ∨ n = 3 ∨ n = 4 ∨ n = 5 ∨ n = 6 ∨ n = 7 ∨ n = 8 ∨ n = 9 := by omega
  rcases this with h|h|h|h|h|h|h|h|h|h <;> subst h <;> decide

theorem valueRev_digitsRev : ∀ (f n : Nat), n < f → valueRev (digitsRev f n) = n := by
  intro f
  induction f with
  | zero => intro n h; omega
  | succ f ih =>
    intro n h
    unfold digitsRev
    split
    · rename_i hlt; simp [valueRev, digitVal_digitChar n hlt]
    · rename_i hge
      simp only [valueRev]
      rw [digitVal_digitChar _ (Nat.mod_lt _ (by omega)), ih (n / 10) (by omega)]
      omega

theorem all_digits_digitsRev : ∀ (f n : Nat), ∀ c ∈ digitsRev f n, isDigit c = true := by
  intro f
  induction f with
  | zero => intro n c hc; simp [digitsRev] at hc; subst hc; decide
  | succ f ih =>
    intro n c hc
    unfold digitsRev at hc
    split at hc
    · rename_i hlt; simp at hc; subst hc; exact isDigit_digitChar n hlt
    · rcases List.mem_cons.mp hc with h | h
      · subst h; exact isDigit_digitChar _ (Nat.mod_lt _ (by omega))
      · exact ih _ c h

/-- `take_while(1.., is_dec_digit)` -/
def takeDigits : List Char → List Char × List Char
  | [] => ([], [])
  | c :: t => if isDigit c then let (a, b) := takeDigits t; (c :: a, b) else ([], c :: t)

def takeDigits1 (s : List Char) : Res (List Char) :=
  match takeDigits s with
  | ([], _) => .bt
  | (ds, rest) => .ok ds rest

theorem takeDigits_append (ds rest : List Char) (hd : ∀ c ∈ ds, isDigit c = true)
    (hr : ∀ c t, rest = c :: t → isDigit c = false) :
    takeDigits (ds ++ rest) = (ds, rest) := by
  induction ds with
  | nil =>
    cases rest with
    | nil => rfl
    | cons c t => simp [takeDigits, hr c t rfl]
  | cons d t ih =>
    have hd' : isDigit d = true := hd d (List.mem_cons_self)
    simp only [List.cons_append, takeDigits, hd', if_true]
    rw [ih (fun c hc => hd c (List.mem_cons_of_mem _ hc))]

/-- `opt('-')` -/
def optMinus : List Char → Bool × List Char
  | '-' :: t => (true, t)
  | s => (false, s)

/-- `opt(preceded('.', take_while(1.., digit)))` -/
def optFrac (s2 : List Char) : List Char × List Char :=
  match s2 with
  | '.' :: s3 =>
    match takeDigits1 s3 with
    | .ok fp s4 => (fp, s4)
    | _ => ([], s2)
  | _ => ([], s2)

/-- the lexer of `p_number`: `-? d+ (. d+)?`, returns (neg, int digits, fraction digits) -/
def pNumberLex (s : List Char) : Res (Bool × List Char × List Char) :=
  match takeDigits1 (optMinus s).2 with
  | .ok ip s2 => .ok ((optMinus s).1, ip, (optFrac s2).1) (optFrac s2).2
  | .bt => .bt
  | .cut => .cut

/-- printing side: integer part `ip` (non-empty digits), fraction `fp` (digits) -/
def printNum (neg : Bool) (ip fp : List Char) : List Char :=
  (if neg then ['-'] else []) ++ (ip ++ (if fp = [] then [] else '.' :: fp))

theorem optMinus_print (neg : Bool) (body : List Char) (h : ∀ t, body ≠ '-' :: t) :
    optMinus ((if neg then ['-'] else []) ++ body) = (neg, body) := by
  cases neg with
  | true => simp [optMinus]
  | false =>
    simp only [Bool.false_eq_true, if_false, List.nil_append]
    unfold optMinus
    split
    · rename_i t; exact absurd rfl (h t)
    · rfl

theorem takeDigits1_append (ds tail : List Char) (hne : ds ≠ []) (hd : ∀ c ∈ ds, isDigit c = true)
    (ht : ∀ c t, tail = c :: t → isDigit c = false) :
    takeDigits1 (ds ++ tail) = .ok ds tail := by
  unfold takeDigits1
  rw [takeDigits_append ds tail hd ht]
  obtain ⟨d, t, h⟩ := List.exists_cons_of_ne_nil hne
  subst h; rfl

theorem optFrac_print (fp rest : List Char) (hfpd : ∀ c ∈ fp, isDigit c = true)
    (hr : ∀ c t, rest = c :: t → isDigit c = false)
    (hdot : fp = [] → ∀ c t, rest = '.' :: c :: t → isDigit c = false) :
    optFrac ((if fp = [] then [] else '.' :: fp) ++ rest) = (fp, rest) := by
  by_cases hfp : fp = []
  · subst hfp
    simp only [if_true, List.nil_append]
    unfold optFrac
    split
    · rename_i s3
      cases s3 with
      | nil => simp [takeDigits1, takeDigits]
      | cons c t =>
        have := hdot rfl c t rfl
        simp [takeDigits1, takeDigits, this]
    · rfl
  · simp only [hfp, if_false, List.cons_append]
    unfold optFrac
    simp only [takeDigits1_append fp rest hfp hfpd hr]

theorem lex_print (neg : Bool) (ip fp rest : List Char)
    (hip : ip ≠ []) (hipd : ∀ c ∈ ip, isDigit c = true) (hfpd : ∀ c ∈ fp, isDigit c = true)
    (hr : ∀ c t, rest = c :: t → isDigit c = false)
    (hdot : fp = [] → ∀ c t, rest = '.' :: c :: t → isDigit c = false) :
    pNumberLex (printNum neg ip fp ++ rest) = .ok (neg, ip, fp) rest := by
  obtain ⟨i0, it, hi⟩ := List.exists_cons_of_ne_nil hip
  have hi0 : isDigit i0 = true := hipd i0 (by simp [hi])
  have hbody : ∀ t, (ip ++ (if fp = [] then [] else '.' :: fp)) ++ rest ≠ '-' :: t := by
    intro t h; subst hi; simp at h
    have : isDigit '-' = true := by rw [← h.1]; exact hi0
    revert this; decide
  have hfracnd : ∀ c t, ((if fp = [] then [] else '.' :: fp) ++ rest) = c :: t → isDigit c = false := by
    intro c t h
    by_cases hfp : fp = []
    · simp [hfp] at h; exact hr c t h
    · simp [hfp] at h; rw [← h.1]; decide
  unfold pNumberLex printNum
  rw [List.append_assoc, optMinus_print neg _ hbody]
  simp only []
  rw [List.append_assoc, takeDigits1_append ip _ hip hipd hfracnd]
  simp only [optFrac_print fp rest hfpd hr hdot]

#print axioms lex_print
end T4

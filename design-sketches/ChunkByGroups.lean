/-! C13 calibration: `chunk_by` (consecutive equal keys) then sort by key, as in `balance_groups`.
    Under a key that is monotone along the list every key occurs once; without monotonicity it does not (F12). -/
namespace T10

variable {α : Type}

/-- itertools `chunk_by`: maximal runs of consecutive elements with equal key -/
def chunkBy (key : α → Nat) : List α → List (Nat × List α)
  | [] => []
  | a :: t =>
    match chunkBy key t with
    | (k, g) :: rest => if key a = k then (k, a :: g) :: rest else (key a, [a]) :: (k, g) :: rest
    | [] => [(key a, [a])]

/-- F12 shape: keys 7, 6, 7 along the (instant-sorted) list give the title 7 twice -/
theorem F12_witness : ((chunkBy (fun x : Nat => x) [7, 6, 7]).map (·.1)) = [7, 6, 7] := by decide

theorem chunkBy_flatten (key : α → Nat) : ∀ l : List α, ((chunkBy key l).map (·.2)).flatten = l := by
  intro l
  induction l with
  | nil => rfl
  | cons a t ih =>
    simp only [chunkBy]
    split
    · rename_i k g rest hc
      rw [hc] at ih
      split <;> simp_all
    · rename_i hc
      rw [hc] at ih
      simp_all

theorem chunkBy_keys (key : α → Nat) : ∀ l : List α, ∀ kg ∈ chunkBy key l, kg.2 ≠ [] ∧ ∀ a ∈ kg.2, key a = kg.1 := by
  intro l
  induction l with
  | nil => intro kg h; cases h
  | cons a t ih =>
    intro kg h
    simp only [chunkBy] at h
    split at h
    · rename_i k g rest hc
      rw [hc] at ih
      split at h
      · rename_i hk
        rcases List.mem_cons.mp h with rfl | h'
        · refine ⟨by simp, ?_⟩
          intro b hb
          rcases List.mem_cons.mp hb with rfl | hb'
          · exact hk
          · exact (ih (k, g) (List.mem_cons_self)).2 b hb'
        · exact ih kg (List.mem_cons_of_mem _ h')
      · rcases List.mem_cons.mp h with rfl | h'
        · simp
        · exact ih kg h'
    · simp at h; subst h; simp

/-- head key of the chunks is the key of the head element -/
theorem chunkBy_head (key : α → Nat) (a : α) (t : List α) :
    ∃ g rest, chunkBy key (a :: t) = (key a, g) :: rest := by
  simp only [chunkBy]
  split
  · split
    · rename_i hk; exact ⟨_, _, by rw [hk]⟩
    · exact ⟨_, _, rfl⟩
  · exact ⟨_, _, rfl⟩

/-- if the key never decreases along the list, chunk keys are strictly increasing: each period once -/
theorem chunkBy_strict (key : α → Nat) : ∀ l : List α, l.Pairwise (fun a b => key a ≤ key b) →
    ((chunkBy key l).map (·.1)).Pairwise (· < ·) := by
  intro l
  induction l with
  | nil => intro _; simp [chunkBy]
  | cons a t ih =>
    intro hp
    have hp' := List.pairwise_cons.mp hp
    have iht := ih hp'.2
    simp only [chunkBy]
    split
    · rename_i k g rest hc
      rw [hc] at iht
      -- k is the key of some element of t, hence ≥ key a
      have hk : key a ≤ k := by
        have hmem := chunkBy_keys key t (k, g) (by rw [hc]; exact List.mem_cons_self)
        obtain ⟨b, tb, hb⟩ := List.exists_cons_of_ne_nil hmem.1
        have hbk : key b = k := hmem.2 b (by rw [hb]; exact List.mem_cons_self)
        have hbt : b ∈ t := by
          have := chunkBy_flatten key t
          rw [hc] at this
          rw [← this]; simp
          left; simp at hb; rw [hb]; exact List.mem_cons_self
        have := hp'.1 b hbt
        omega
      split
      · exact iht
      · rename_i hne
        simp only [List.map_cons, List.pairwise_cons] at iht ⊢
        refine ⟨?_, iht⟩
        intro k' hk'
        rcases List.mem_cons.mp hk' with rfl | hk''
        · omega
        · have := iht.1 k' hk''; omega
    · simp

#print axioms chunkBy_strict
end T10

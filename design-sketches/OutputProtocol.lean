/-! C14 calibration: output protocol as a state machine.
    A destination is written through a buffered writer (capacity `cap`) over a sink that accepts at most
    `limit` bytes in total and then fails (RLIMIT_FSIZE / a failing `Write`).  `flushOnDrop = true` is the current
    tree (errors at the final flush are swallowed by `BufWriter::drop`), `false` the repaired one (`flush()?`). -/
namespace T9

structure Sink where
  written : Nat            -- bytes that reached the file
  limit : Nat              -- the sink fails when asked to go beyond `limit`
deriving Repr, DecidableEq

/-- write `n` bytes to the sink: all-or-prefix, error if the limit is hit -/
def Sink.write (s : Sink) (n : Nat) : Sink × Bool :=
  if s.written + n ≤ s.limit then ({ s with written := s.written + n }, true)
  else ({ s with written := s.limit }, false)          -- partial write up to the limit, then error

structure Buf where
  sink : Sink
  pending : Nat            -- bytes sitting in the BufWriter
  cap : Nat
deriving Repr, DecidableEq

/-- `BufWriter::write_all` of a chunk of `n` bytes -/
def Buf.write (b : Buf) (n : Nat) : Buf × Bool :=
  if b.pending + n ≤ b.cap then ({ b with pending := b.pending + n }, true)
  else
    -- flush what is pending, then write the chunk through (or buffer it)
    let (s1, ok1) := b.sink.write b.pending
    if !ok1 then ({ b with sink := s1, pending := 0 }, false)
    else if n ≤ b.cap then ({ b with sink := s1, pending := n }, true)
    else
      let (s2, ok2) := s1.write n
      ({ b with sink := s2, pending := 0 }, ok2)

def Buf.flush (b : Buf) : Buf × Bool :=
  let (s, ok) := b.sink.write b.pending
  ({ b with sink := s, pending := 0 }, ok)

/-- write all chunks with `?` on every write; then either `flush()?` (repaired) or drop (current) -/
def writeDest (flushChecked : Bool) (cap limit : Nat) (chunks : List Nat) : Nat × Bool :=
  let rec go (b : Buf) : List Nat → Buf × Bool
    | [] => (b, true)
    | n :: t => let (b', ok) := b.write n; if ok then go b' t else (b', false)
  let (b, ok) := go ⟨⟨0, limit⟩, 0, cap⟩ chunks
  if !ok then (b.sink.written, false)
  else
    let (b', okf) := b.flush          -- happens in both variants (explicitly, or inside Drop)
    (b'.sink.written, if flushChecked then okf else true)

/-- F4 on the current tree: 3 chunks of 40 bytes, 8 KiB buffer, file-size limit 10: success is reported, 10 bytes on disk -/
theorem F4_witness : writeDest false 8192 10 [40, 40, 40] = (10, true) := by decide

/-- the repaired variant reports the failure -/
example : writeDest true 8192 10 [40, 40, 40] = (10, false) := by decide

/-! invariant: bytes in the file + bytes pending = bytes accepted so far, as long as no error occurred -/

theorem sink_write_ok (s : Sink) (n : Nat) : (s.write n).2 = true → (s.write n).1.written = s.written + n ∧ (s.write n).1.limit = s.limit := by
  unfold Sink.write; split <;> simp

theorem buf_write_ok (b : Buf) (n : Nat) (h : (b.write n).2 = true) :
    (b.write n).1.sink.written + (b.write n).1.pending = b.sink.written + b.pending + n ∧
    (b.write n).1.cap = b.cap ∧ (b.write n).1.sink.limit = b.sink.limit := by
  unfold Buf.write at h ⊢
  by_cases h1 : b.pending + n ≤ b.cap
  · simp only [h1, if_true]; simp; omega
  · simp only [h1, if_false] at h ⊢
    cases hok1 : (b.sink.write b.pending).2 with
    | false => simp [hok1] at h
    | true =>
      have hs := sink_write_ok b.sink b.pending hok1
      simp only [hok1, Bool.not_true, Bool.false_eq_true, if_false] at h ⊢
      by_cases h2 : n ≤ b.cap
      · simp only [h2, if_true]; simp; omega
      · simp only [h2, if_false] at h ⊢
        have h3 := sink_write_ok (b.sink.write b.pending).1 n h
        simp; omega

theorem go_ok (chunks : List Nat) : ∀ (b : Buf), (writeDest.go b chunks).2 = true →
    (writeDest.go b chunks).1.sink.written + (writeDest.go b chunks).1.pending = b.sink.written + b.pending + chunks.sum ∧
    (writeDest.go b chunks).1.sink.limit = b.sink.limit := by
  induction chunks with
  | nil => intro b _; simp [writeDest.go]
  | cons n t ih =>
    intro b h
    simp only [writeDest.go] at h ⊢
    split at h
    · rename_i hok
      have hw := buf_write_ok b n hok
      simp only [hok, if_true]
      have := ih (b.write n).1 h
      simp only [List.sum_cons]
      omega
    · simp at h

/-- C14 core (repaired variant): success ⇒ the file holds every byte of the content, for every buffer
    capacity, every chunking, every fault offset -/
theorem success_complete (cap limit : Nat) (chunks : List Nat)
    (h : (writeDest true cap limit chunks).2 = true) :
    (writeDest true cap limit chunks).1 = chunks.sum := by
  unfold writeDest at *
  simp only at h ⊢
  split at h
  · simp at h
  · rename_i hok
    have hok' : (writeDest.go ⟨⟨0, limit⟩, 0, cap⟩ chunks).2 = true := by simpa using hok
    have hg := go_ok chunks ⟨⟨0, limit⟩, 0, cap⟩ hok'
    simp only [hok, Bool.not_true, Bool.false_eq_true, if_false] at h ⊢
    simp only [if_true] at h
    have hf := sink_write_ok _ _ (by simpa [Buf.flush] using h)
    simp only [Buf.flush]
    simp at hg
    omega

#print axioms success_complete
end T9

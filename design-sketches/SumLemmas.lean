namespace T2

abbrev Path := List String

structure Row where
  path : Path
  own : Int
deriving DecidableEq

def isChildOf (n m : Row) : Bool := decide (m.path ≠ [] ∧ m.path.dropLast = n.path)

def isDesc (n m : Row) : Bool := n.path.isPrefixOf m.path

def tree (R : List Row) : Nat → Row → Int
  | 0, _ => 0
  | f+1, n => n.own + ((R.filter (isChildOf n)).map (tree R f)).sum

def descSum (R : List Row) (n : Row) : Int := ((R.filter (isDesc n)).map (·.own)).sum

/-! ### small sum lemmas over Int -/

theorem sum_map_add {α} (l : List α) (f g : α → Int) :
    (l.map (fun a => f a + g a)).sum = (l.map f).sum + (l.map g).sum := by
  induction l with
  | nil => simp
  | cons a t ih => simp [ih]; omega

theorem sum_map_zero {α} (l : List α) : (l.map (fun _ => (0:Int))).sum = 0 := by
  induction l with
  | nil => simp
  | cons a t ih => simp [ih]

theorem sum_map_congr {α} (l : List α) (f g : α → Int) (h : ∀ a ∈ l, f a = g a) :
    (l.map f).sum = (l.map g).sum := by
  induction l with
  | nil => simp
  | cons a t ih =>
    simp only [List.map_cons, List.sum_cons]
    rw [h a (List.mem_cons_self), ih (fun b hb => h b (List.mem_cons_of_mem _ hb))]

theorem sum_filter_eq_ite {α} (l : List α) (p : α → Bool) (f : α → Int) :
    ((l.filter p).map f).sum = (l.map (fun a => if p a then f a else 0)).sum := by
  induction l with
  | nil => simp
  | cons a t ih =>
    by_cases h : p a <;> simp [List.filter_cons, h, ih]

theorem sum_comm {α β} (l : List α) (c : List β) (f : α → β → Int) :
    (l.map (fun a => (c.map (fun b => f a b)).sum)).sum
      = (c.map (fun b => (l.map (fun a => f a b)).sum)).sum := by
  induction l with
  | nil => simp [sum_map_zero]
  | cons a t ih =>
    simp only [List.map_cons, List.sum_cons, ih]
    rw [← sum_map_add]

/-- exactly one element of a nodup list satisfies `q` -/
theorem sum_ite_unique {α} [DecidableEq α] (l : List α) (q : α → Bool) (x : Int) (c0 : α)
    (hc0 : c0 ∈ l) (hnd : l.Nodup) (hq : ∀ c ∈ l, q c = true ↔ c = c0) :
    (l.map (fun c => if q c then x else 0)).sum = x := by
  induction l with
  | nil => cases hc0
  | cons a t ih =>
    have hnd' := List.nodup_cons.mp hnd
    simp only [List.map_cons, List.sum_cons]
    by_cases hac : a = c0
    · subst hac
      have : q a = true := (hq a (List.mem_cons_self)).mpr rfl
      have ht : (t.map (fun c => if q c then x else 0)).sum = 0 := by
        rw [sum_map_congr t _ (fun _ => 0)]
        · exact sum_map_zero t
        · intro b hb
          have : ¬ (q b = true) := by
            intro hqb
            have := (hq b (List.mem_cons_of_mem _ hb)).mp hqb
            subst this
            exact hnd'.1 hb
          simp [this]
      simp [this, ht]
    · have hqa : ¬ (q a = true) := fun h => hac ((hq a (List.mem_cons_self)).mp h)
      have hc0t : c0 ∈ t := by
        rcases List.mem_cons.mp hc0 with h | h
        · exact absurd h.symm hac
        · exact h
      have := ih hc0t hnd'.2 (fun c hc => hq c (List.mem_cons_of_mem _ hc))
      simp [hqa, this]

theorem sum_ite_none {α} (l : List α) (q : α → Bool) (x : Int)
    (hq : ∀ c ∈ l, q c = false) :
    (l.map (fun c => if q c then x else 0)).sum = 0 := by
  rw [sum_map_congr l _ (fun _ => 0)]
  · exact sum_map_zero l
  · intro b hb; simp [hq b hb]

end T2

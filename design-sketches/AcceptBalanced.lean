/-! C01 calibration: AST-level acceptor (transliteration of handle_posting_value, Posting::from,
    parse_txn_postings, parse_txn, Transaction::from), current and repaired variants; the
    balancedness theorem for the repaired one and `decide`-checked witnesses F1/F2 for the current one. -/
namespace T8

structure Dec where
  neg : Bool
  coeff : Nat
  scale : Nat
deriving Repr, DecidableEq

def sgn (b : Bool) : Int := if b then -1 else 1
def Dec.units (d : Dec) : Int := sgn d.neg * (d.coeff : Int) * (10 : Int) ^ (28 - d.scale)
def Dec.isZero (d : Dec) : Bool := d.coeff == 0
def Dec.isNeg (d : Dec) : Bool := d.neg            -- is_sign_negative
def Dec.negate (d : Dec) : Dec := { d with neg := !d.neg }
def Dec.zero : Dec := ⟨false, 0, 0⟩
def max96 : Nat := 2^96 - 1

def Dec.add (a b : Dec) : Option Dec :=
  if a.isZero then some b else if b.isZero then some a else
  let s := max a.scale b.scale
  let x : Int := sgn a.neg * ((a.coeff * 10 ^ (s - a.scale) : Nat) : Int)
  let y : Int := sgn b.neg * ((b.coeff * 10 ^ (s - b.scale) : Nat) : Int)
  let z := x + y
  if z.natAbs ≤ max96 then some { neg := decide (z < 0), coeff := z.natAbs, scale := s } else none

def Dec.mul (a b : Dec) : Option Dec :=
  if a.isZero || b.isZero then some Dec.zero
  else if a.scale + b.scale ≤ 28 ∧ a.coeff * b.coeff ≤ max96 then
    some { neg := a.neg != b.neg, coeff := a.coeff * b.coeff, scale := a.scale + b.scale }
  else none

inductive Outcome (α : Type) where
  | ok (a : α)
  | err
  | panic          -- arithmetic overflow (rust_decimal operator panics) or inexact (outside ExactDomain)
deriving Repr, DecidableEq

structure Val where
  value : Dec
  comm : String
deriving Repr, DecidableEq

inductive Closing where
  | unitPrice (v : Val)
  | total (v : Val)
deriving Repr, DecidableEq

structure Unit where
  comm : String
  opening : Option Val
  closing : Option Closing
deriving Repr, DecidableEq

structure RawPosting where
  acct : String
  amount : Dec
  unit : Option Unit
deriving Repr, DecidableEq

structure RawTxn where
  posts : List RawPosting
  last : Option String          -- account of the amount-less last posting
deriving Repr, DecidableEq

structure Posting where
  acct : String
  comm : String
  amount : Dec
  txnAmount : Dec
  isTotal : Bool
  txnComm : String
  priced : Bool                 -- has a closing position
deriving Repr, DecidableEq

/-- `fixF2 = false` is the current tree, `true` the repaired one -/
def openingNeg : Option Val → Bool
  | some o => o.value.isNeg
  | none => false

def handlePostingValue (fixF2 : Bool) (p : RawPosting) : Outcome Posting :=
  match p.unit with
  | none => .ok ⟨p.acct, "", p.amount, p.amount, false, "", false⟩
  | some u =>
    match u.closing with
    | none =>
      match u.opening with
      | none => .ok ⟨p.acct, u.comm, p.amount, p.amount, false, u.comm, false⟩
      | some o =>
        if o.value.isNeg then .err
        else .ok ⟨p.acct, u.comm, p.amount, p.amount, false, (if fixF2 then u.comm else ""), false⟩
    | some (.total v) =>
      if u.comm = v.comm then .err
      else if openingNeg u.opening then .err
      else if (v.value.isNeg && !p.amount.isNeg) || (p.amount.isNeg && !v.value.isNeg) then .err
      else .ok ⟨p.acct, u.comm, p.amount, v.value, true, v.comm, true⟩
    | some (.unitPrice v) =>
      if u.comm = v.comm then .err
      else if openingNeg u.opening then .err
      else if v.value.isNeg then .err
      else match Dec.mul p.amount v.value with
        | some t => .ok ⟨p.acct, u.comm, p.amount, t, false, v.comm, true⟩
        | none => .panic

/-- `Posting::from` -/
def mkPosting (p : Posting) : Outcome Posting := if p.amount.isZero then .err else .ok p

def txnSum : List Posting → Option Dec
  | [] => some Dec.zero
  | p :: t => match txnSum t with
    | some s => Dec.add p.txnAmount s          -- order of the fold is immaterial for the value
    | none => none

def Outcome.bind {α β} (x : Outcome α) (f : α → Outcome β) : Outcome β :=
  match x with
  | .ok a => f a
  | .err => .err
  | .panic => .panic

theorem Outcome.bind_ok {α β} (x : Outcome α) (f : α → Outcome β) (b : β) :
    x.bind f = .ok b ↔ ∃ a, x = .ok a ∧ f a = .ok b := by
  cases x <;> simp [Outcome.bind]

/-- one value-carrying posting line: `handle_posting_value` then `Posting::from` -/
def handlePosting (fixF2 : Bool) (p : RawPosting) : Outcome Posting :=
  (handlePostingValue fixF2 p).bind mkPosting

def mapM' {α β} (f : α → Outcome β) : List α → Outcome (List β)
  | [] => .ok []
  | a :: t => match f a with
    | .ok b => (match mapM' f t with | .ok bs => .ok (b :: bs) | .err => .err | .panic => .panic)
    | .err => .err
    | .panic => .panic

def acceptTxn (fixF1 fixF2 : Bool) (r : RawTxn) : Outcome (List Posting) :=
  match mapM' (handlePosting fixF2) r.posts with
  | .err => .err
  | .panic => .panic
  | .ok ps =>
    match ps with
    | [] => .err                                   -- repeat(1.., …)
    | p0 :: _ =>
      let withLast : Outcome (List Posting) :=
        match r.last with
        | none => .ok ps
        | some a =>
          match txnSum ps with
          | none => .panic
          | some s =>
            let amt := s.negate
            let lp : Posting := ⟨a, p0.txnComm, amt, amt, false, p0.txnComm, false⟩
            if fixF1 then (match mkPosting lp with | .ok l => .ok (ps ++ [l]) | _ => .err)
            else .ok (ps ++ [lp])
      match withLast with
      | .err => .err
      | .panic => .panic
      | .ok all =>
        if all.any (fun p => p.txnComm != p0.txnComm) then .err       -- unique().count() > 1
        else match txnSum all with
          | none => .panic
          | some s => if s.isZero then .ok all else .err

/-! ### witnesses on the current tree -/
def d (n : Int) : Dec := ⟨decide (n < 0), n.natAbs, 0⟩

/-- F1: ` a 1 / b -1 / c` is accepted and `c` is a zero posting -/
theorem F1_witness :
    ∃ ps, acceptTxn false false ⟨[⟨"a", d 1, none⟩, ⟨"b", d (-1), none⟩], some "c"⟩ = .ok ps ∧
          ∃ p ∈ ps, p.amount.isZero = true := by
  refine ⟨_, rfl, ?_⟩; decide

/-- F2: ` a 1 ACME {120 EUR} / b -1` is accepted although the postings are in different commodities -/
theorem F2_witness :
    ∃ ps, acceptTxn false false
        ⟨[⟨"a", d 1, some ⟨"ACME", some ⟨d 120, "EUR"⟩, none⟩⟩, ⟨"b", d (-1), none⟩], none⟩ = .ok ps ∧
          ∃ p ∈ ps, p.comm ≠ p.txnComm ∧ p.priced = false := by
  refine ⟨_, rfl, ?_⟩; decide

/-- with both repairs the same inputs are rejected -/
example : acceptTxn true true ⟨[⟨"a", d 1, none⟩, ⟨"b", d (-1), none⟩], some "c"⟩ = .err := by decide
example : acceptTxn true true
    ⟨[⟨"a", d 1, some ⟨"ACME", some ⟨d 120, "EUR"⟩, none⟩⟩, ⟨"b", d (-1), none⟩], none⟩ = .err := by decide


/-! ### the balancedness theorem for the repaired acceptor -/

theorem units_zero (x : Dec) (h : x.isZero = true) : x.units = 0 := by
  simp [Dec.isZero] at h; simp [Dec.units, h]

theorem pow_split (s k : Nat) (h1 : k ≤ s) (h2 : s ≤ 28) :
    (10:Int) ^ (s - k) * (10:Int) ^ (28 - s) = (10:Int) ^ (28 - k) := by
  rw [← Int.pow_add]; congr 1; omega

theorem sgn_natAbs (z : Int) : sgn (decide (z < 0)) * (z.natAbs : Int) = z := by
  unfold sgn
  by_cases h : z < 0
  · simp [h]; omega
  · simp [h]; omega

theorem add_units (a b r : Dec) (ha : a.scale ≤ 28) (hb : b.scale ≤ 28)
    (h : Dec.add a b = some r) : r.units = a.units + b.units ∧ r.scale ≤ 28 := by
  unfold Dec.add at h
  split at h
  · rename_i hz; cases h; simp [units_zero a hz, hb]
  · split at h
    · rename_i _ hz; cases h; simp [units_zero b hz, ha]
    · simp only at h
      split at h
      · cases h
        refine ⟨?_, by simp; omega⟩
        simp only [Dec.units]
        rw [sgn_natAbs]
        have hs : max a.scale b.scale ≤ 28 := by omega
        have e1 := pow_split (max a.scale b.scale) a.scale (by omega) hs
        have e2 := pow_split (max a.scale b.scale) b.scale (by omega) hs
        rw [Int.add_mul]
        simp only [Int.natCast_mul, Int.natCast_pow, Int.mul_assoc]
        rw [← e1, ← e2]
        simp
      · cases h

theorem units_ne_zero (x : Dec) (h : x.isZero = false) : x.units ≠ 0 := by
  have hc : x.coeff ≠ 0 := by simpa [Dec.isZero] using h
  unfold Dec.units sgn
  have hp : (10:Int) ^ (28 - x.scale) ≠ 0 := by
    apply Int.pow_ne_zero; decide
  have hc' : (x.coeff : Int) ≠ 0 := by exact_mod_cast hc
  cases x.neg <;> simp [hp] <;> exact hc

theorem units_zero_iff (x : Dec) : x.isZero = true ↔ x.units = 0 := by
  constructor
  · exact units_zero x
  · intro h
    cases hz : x.isZero with
    | true => rfl
    | false => exact absurd h (units_ne_zero x hz)

theorem negate_units (x : Dec) : x.negate.units = - x.units := by
  unfold Dec.negate Dec.units sgn
  cases x.neg <;> simp [Int.neg_mul]

def WFp (p : Posting) : Prop := p.txnAmount.scale ≤ 28

theorem txnSum_units : ∀ (ps : List Posting) (s : Dec), (∀ p ∈ ps, WFp p) → txnSum ps = some s →
    s.units = (ps.map (·.txnAmount.units)).sum ∧ s.scale ≤ 28 := by
  intro ps
  induction ps with
  | nil => intro s _ h; cases h; simp [Dec.zero, Dec.units]
  | cons p t ih =>
    intro s hwf h
    simp only [txnSum] at h
    split at h
    · rename_i s' hs'
      have := ih s' (fun q hq => hwf q (List.mem_cons_of_mem _ hq)) hs'
      have h2 := add_units p.txnAmount s' s (hwf p (List.mem_cons_self)) this.2 h
      simp [h2.1, this.1, h2.2]
    · cases h

/-- what one value-carrying posting looks like after `handle_posting_value` + `Posting::from` (repaired) -/
def GoodPosting (q : Posting) : Prop :=
  q.amount.units ≠ 0 ∧ ((q.comm = q.txnComm ∧ q.txnAmount = q.amount) ∨ (q.comm ≠ q.txnComm ∧ q.priced = true))

theorem hpv_good (p : RawPosting) (q : Posting) (h : handlePostingValue true p = .ok q) :
    q.amount = p.amount ∧
    ((q.comm = q.txnComm ∧ q.txnAmount = q.amount) ∨ (q.comm ≠ q.txnComm ∧ q.priced = true)) := by
  unfold handlePostingValue at h
  (repeat' split at h) <;> first | (cases h; done) | (cases h; simp_all)

theorem handle_good (p : RawPosting) (q : Posting) (h : handlePosting true p = .ok q) : GoodPosting q := by
  unfold handlePosting at h
  obtain ⟨x, hx, hmk⟩ := (Outcome.bind_ok _ _ _).mp h
  unfold mkPosting at hmk
  split at hmk
  · cases hmk
  · rename_i hz
    cases hmk
    exact ⟨units_ne_zero _ (by simpa using hz), (hpv_good p _ hx).2⟩

theorem mapM'_ok {α β} (f : α → Outcome β) : ∀ (l : List α) (bs : List β), mapM' f l = .ok bs →
    ∀ b ∈ bs, ∃ a ∈ l, f a = .ok b := by
  intro l
  induction l with
  | nil => intro bs h; cases h; intro b hb; cases hb
  | cons a t ih =>
    intro bs h b hb
    simp only [mapM'] at h
    split at h
    · rename_i b0 hb0
      split at h
      · rename_i bs' hbs'
        cases h
        rcases List.mem_cons.mp hb with rfl | hb'
        · exact ⟨a, List.mem_cons_self, hb0⟩
        · obtain ⟨a', ha', hf⟩ := ih bs' hbs' b hb'
          exact ⟨a', List.mem_cons_of_mem _ ha', hf⟩
      · cases h
      · cases h
    · cases h
    · cases h

def Balanced (ps : List Posting) : Prop := ∃ c,
  (∀ p ∈ ps, p.amount.units ≠ 0 ∧ p.txnComm = c ∧
     (p.comm = c → p.txnAmount.units = p.amount.units) ∧ (p.comm ≠ c → p.priced = true)) ∧
  (ps.map (·.txnAmount.units)).sum = 0

/-- C01 core (repaired acceptor): every accepted transaction is balanced in one commodity.
    `hwf` is the representation invariant of parsed numbers (scale ≤ 28). -/
theorem accept_balanced (r : RawTxn) (ps : List Posting)
    (hwf : ∀ q, (∃ p ∈ r.posts, handlePosting true p = .ok q) → WFp q)
    (h : acceptTxn true true r = .ok ps) : Balanced ps := by
  unfold acceptTxn at h
  split at h
  · cases h
  · cases h
  · rename_i qs hqs
    have hgood : ∀ q ∈ qs, GoodPosting q ∧ WFp q := by
      intro q hq
      obtain ⟨p, hp, hf⟩ := mapM'_ok _ r.posts qs hqs q hq
      exact ⟨handle_good p q hf, hwf q ⟨p, hp, hf⟩⟩
    cases qs with
    | nil => simp at h
    | cons p0 rest =>
      simp only at h
      -- all postings (with the implicit one, if any) are good and well-formed
      have hall : ∀ all, (match r.last with
            | none => Outcome.ok (p0 :: rest)
            | some a =>
              match txnSum (p0 :: rest) with
              | none => .panic
              | some s =>
                let amt := s.negate
                let lp : Posting := ⟨a, p0.txnComm, amt, amt, false, p0.txnComm, false⟩
                if true = true then (match mkPosting lp with | .ok l => .ok ((p0 :: rest) ++ [l]) | _ => .err)
                else .ok ((p0 :: rest) ++ [lp])) = .ok all →
            ∀ q ∈ all, GoodPosting q ∧ WFp q := by
        intro all hall
        cases hl : r.last with
        | none => simp only [hl] at hall; cases hall; exact hgood
        | some a =>
          simp only [hl] at hall
          split at hall
          · cases hall
          · rename_i s hs
            simp only [if_true] at hall
            split at hall
            · rename_i l hmk
              cases hall
              intro q hq
              rcases List.mem_append.mp hq with hq | hq
              · exact hgood q hq
              · simp at hq; subst hq
                unfold mkPosting at hmk
                split at hmk
                · cases hmk
                · rename_i hz
                  cases hmk
                  have hsw := txnSum_units (p0 :: rest) s (fun q hq => (hgood q hq).2) hs
                  refine ⟨⟨units_ne_zero _ (by simpa using hz), .inl ⟨rfl, rfl⟩⟩, ?_⟩
                  simp [WFp, Dec.negate]; exact hsw.2
            · cases hall
      split at h
      · cases h
      · cases h
      · rename_i all hallok
        have hA := hall all hallok
        split at h
        · cases h
        · rename_i hany
          split at h
          · cases h
          · rename_i s hs
            split at h
            · rename_i hz
              cases h
              have hsum := txnSum_units ps s (fun q hq => (hA q hq).2) hs
              refine ⟨p0.txnComm, ?_, ?_⟩
              · intro p hp
                have hg := (hA p hp).1
                have hc : p.txnComm = p0.txnComm := by
                  have := hany
                  simp only [List.any_eq_true, not_exists, not_and, bne_iff_ne, ne_eq, Decidable.not_not] at this
                  exact this p hp
                refine ⟨hg.1, hc, ?_, ?_⟩
                · intro hpc
                  rcases hg.2 with ⟨_, he⟩ | ⟨hne, _⟩
                  · rw [he]
                  · exact absurd (hpc.trans hc.symm) hne
                · intro hpc
                  rcases hg.2 with ⟨he, _⟩ | ⟨_, hp⟩
                  · exact absurd (he.trans hc) hpc
                  · exact hp
              · rw [← hsum.1]; exact units_zero s hz
            · cases h

#print axioms accept_balanced
end T8

namespace T6
/-! C11/C18 calibration: search semantics of a regex subset; `^(?:r)$` under search = whole-string match of `r` -/

inductive Re where
  | eps
  | chr (p : Char → Bool)
  | seq (a b : Re)
  | alt (a b : Re)
  | star (a : Re)
  | grp (a : Re)
  | bol
  | eol

/-- `M s r i j`: `r` matches `s` from position `i` to position `j` -/
inductive M (s : List Char) : Re → Nat → Nat → Prop where
  | eps  (i) : i ≤ s.length → M s .eps i i
  | chr  (p i c) : s[i]? = some c → p c = true → M s (.chr p) i (i+1)
  | seq  {a b i k j} : M s a i k → M s b k j → M s (.seq a b) i j
  | altL {a b i j} : M s a i j → M s (.alt a b) i j
  | altR {a b i j} : M s b i j → M s (.alt a b) i j
  | star0 {a} (i) : i ≤ s.length → M s (.star a) i i
  | starS {a i k j} : M s a i k → M s (.star a) k j → M s (.star a) i j
  | grp  {a i j} : M s a i j → M s (.grp a) i j
  | bol  : M s .bol 0 0
  | eol  : M s .eol s.length s.length

/-- `Regex::is_match`: unanchored search -/
def isMatch (r : Re) (s : List Char) : Prop := ∃ i j, M s r i j

/-- `into_full_haystack_pattern` at AST level: `^(?:r)$` -/
def wrap (r : Re) : Re := .seq .bol (.seq (.grp r) .eol)

theorem wrap_is_full (r : Re) (s : List Char) : isMatch (wrap r) s ↔ M s r 0 s.length := by
  constructor
  · rintro ⟨i, j, h⟩
    unfold wrap at h
    cases h with
    | seq h1 h2 =>
      cases h1
      cases h2 with
      | seq h3 h4 =>
        cases h4
        cases h3 with
        | grp h5 => exact h5
  · intro h
    exact ⟨0, s.length, .seq .bol (.seq (.grp h) .eol)⟩

/-- without the group, a top-level alternation escapes the anchors: why the wrapper uses `(?:…)` -/
def wrapNoGroup (a b : Re) : Re := .alt (.seq .bol a) (.seq b .eol)      -- how `^a|b$` parses

theorem nogroup_is_substring :
    ∃ a b s, isMatch (wrapNoGroup a b) s ∧ ¬ M s (.alt a b) 0 s.length := by
  refine ⟨.chr (· == 'x'), .chr (· == 'y'), ['x', 'z'], ?_, ?_⟩
  · exact ⟨0, 1, .altL (.seq .bol (.chr _ 0 'x' rfl rfl))⟩
  · intro h
    cases h with
    | altL h => cases h
    | altR h => cases h

#print axioms wrap_is_full
end T6

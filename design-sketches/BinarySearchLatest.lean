namespace T7
/-! C07 calibration: Rust's `binary_search_by` loop (core::slice, 1.95), and "latest entry at or before" -/

/-- `while size > 1 { half = size/2; mid = base+half; base = if key[mid] > k then base else mid; size -= half }` -/
def loop (ks : Array Int) (k : Int) : Nat → Nat → Nat → Nat
  | 0, base, _ => base
  | fuel+1, base, size =>
    if size ≤ 1 then base
    else
      let half := size / 2
      let mid := base + half
      let base' := if ks[mid]! > k then base else mid
      loop ks k fuel base' (size - half)

/-- index used by `convert_prices_inner`: `Ok(i) => Some(i)`, `Err(i) => i.checked_sub(1)` -/
def lookupIdx (ks : Array Int) (k : Int) : Option Nat :=
  if ks.size = 0 then none
  else
    let base := loop ks k ks.size 0 ks.size
    if ks[base]! = k then some base
    else
      let r := base + (if ks[base]! < k then 1 else 0)
      if r = 0 then none else some (r - 1)

def Sorted (ks : Array Int) : Prop := ∀ i j, i < j → j < ks.size → ks[i]! < ks[j]!

/-- loop invariant: everything left of `base` is ≤ k unless base is still 0-start; everything from base+size on is > k -/
theorem loop_spec (ks : Array Int) (k : Int) (hs : Sorted ks) :
    ∀ fuel base size, size ≤ fuel → 0 < size → base + size ≤ ks.size →
      (∀ i, i < base → ks[i]! ≤ k) → (0 < base → ks[base]! ≤ k) →
      (∀ j, base + size ≤ j → j < ks.size → k < ks[j]!) →
      let b := loop ks k fuel base size
      b < ks.size ∧ (∀ i, i < b → ks[i]! ≤ k) ∧ (0 < b → ks[b]! ≤ k) ∧ (∀ j, b < j → j < ks.size → k < ks[j]!) := by
  intro fuel
  induction fuel with
  | zero => intro base size h1 h2; omega
  | succ fuel ih =>
    intro base size hf hpos hb hleft hbase hright
    unfold loop
    by_cases h1 : size ≤ 1
    · simp only [h1, if_true]
      have : size = 1 := by omega
      subst this
      exact ⟨by omega, hleft, hbase, fun j hj hj2 => hright j (by omega) hj2⟩
    · simp only [h1, if_false]
      have hhalf : 0 < size / 2 := Nat.div_pos (by omega) (by decide)
      have hhalf2 : size / 2 < size := Nat.div_lt_self (by omega) (by decide)
      by_cases hgt : ks[base + size / 2]! > k
      · simp only [hgt, if_true]
        apply ih base (size - size / 2) (by omega) (by omega) (by omega) hleft hbase
        intro j hj hj2
        by_cases hj3 : base + size ≤ j
        · exact hright j hj3 hj2
        · -- base + size - half ≤ j < base + size : key ≥ key[mid] > k, since mid ≤ j
          have hmid : base + size / 2 ≤ j := by omega
          rcases Nat.lt_or_ge (base + size / 2) j with hlt | hge
          · have := hs (base + size / 2) j hlt hj2; omega
          · have : j = base + size / 2 := by omega
            subst this; omega
      · simp only [hgt, if_false]
        have hle : ks[base + size / 2]! ≤ k := by omega
        apply ih (base + size / 2) (size - size / 2) (by omega) (by omega) (by omega)
        · intro i hi
          rcases Nat.lt_or_ge i (base + size / 2) with _ | _
          · have := hs i (base + size / 2) (by omega) (by omega); omega
          · omega
        · intro _; exact hle
        · intro j hj hj2; exact hright j (by omega) hj2

/-- the entry chosen is the latest one at or before `k` -/
theorem lookup_latest (ks : Array Int) (k : Int) (hs : Sorted ks) :
    match lookupIdx ks k with
    | some i => i < ks.size ∧ ks[i]! ≤ k ∧ ∀ j, i < j → j < ks.size → k < ks[j]!
    | none => ∀ j, j < ks.size → k < ks[j]! := by
  unfold lookupIdx
  by_cases h0 : ks.size = 0
  · simp [h0]
  · simp only [h0, if_false]
    have hspec := loop_spec ks k hs ks.size 0 ks.size (Nat.le_refl _) (by omega) (by omega)
      (fun i hi => by omega) (fun h => by omega) (fun j hj hj2 => by omega)
    simp only at hspec
    generalize loop ks k ks.size 0 ks.size = b at hspec
    obtain ⟨hb, hleft, hbase, hright⟩ := hspec
    by_cases heq : ks[b]! = k
    · simp only [heq, if_true]
      exact ⟨hb, by omega, hright⟩
    · simp only [heq, if_false]
      by_cases hlt : ks[b]! < k
      · simp only [hlt, if_true]
        have : ¬ (b + 1 = 0) := by omega
        simp only [this, if_false, Nat.add_sub_cancel]
        exact ⟨hb, by omega, hright⟩
      · simp only [hlt, if_false, Nat.add_zero]
        have hgt : k < ks[b]! := by omega
        by_cases hb0 : b = 0
        · simp only [hb0, if_true]
          intro j hj
          rcases Nat.eq_zero_or_pos j with h | h
          · subst h; subst hb0; exact hgt
          · subst hb0; exact hright j h hj
        · have hbpos : 0 < b := by omega
          exact absurd (hbase hbpos) (by omega)

#print axioms lookup_latest
end T7

import TacklerModel.Model.Scale
open Tackler
#check @List.takeWhile_append_of_pos
#check @List.dropWhile_append_of_pos
#check @List.take_of_length_le
#check @List.length_take
#check @List.take_append_drop
#check @Nat.ofDigitChars_append
#check @Nat.isDigit_of_mem_toDigits
#check @String.toList_ofList
#check @Nat.mul_div_mul_right
#check @Nat.mul_div_mul_left
#check @Int.natAbs_mul
#check @Int.sign_mul
#check @Int.sign_natCast_of_ne_zero
#check @Int.sign_eq_one_of_pos
#check @Int.natAbs_pow
#check @List.length_dropWhile_le
example : ('.' : Char).isDigit = false := by decide
example (c : Char) (h : c.isDigit = true) : c ≠ '.' := by
  intro e; subst e; exact absurd h (by decide)

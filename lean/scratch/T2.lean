example (a b : Int) (h : a - b ≤ 3) (h2 : b - a ≤ 3) : (a - b).natAbs ≤ 3 := by omega
example (n : Nat) : ((n:Int) + 1).natAbs = n + 1 := by omega

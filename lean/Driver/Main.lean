import Driver.Ops.Run
import Driver.Ops.Balance
import Driver.Ops.Register
import Driver.Ops.Rematch
import Driver.Ops.Audit
import Driver.Ops.Equity
import Driver.Ops.Price
import Driver.Ops.Export
import Driver.Ops.GitSel
import Driver.Ops.Out
import Driver.Ops.Scale
import Driver.Ops.Strict
import Driver.Ops.Ts
import Driver.Ops.Cfg
import Driver.Ops.Group
import Driver.Ops.Fdef
import Driver.Ops.ReportText
import Driver.Ops.Priced
import Driver.Ops.DecOp
import Driver.Ops.Sub
/-! Line-protocol driver of the model: one JSON case per input line, one JSON answer per line.
    To add an op: write `Driver/Ops/<Name>.lean`, import it here, add one line to `opTable`
    (or to `outputTable` for a new output kind of op `run`). -/
open Lean Tackler Codec

/-- output kinds of op `run` -/
def outputTable : List (String × Ops.OutputFn) := [
  ("txns", Ops.outTxns),
  ("balance", Ops.outBalanceP),       -- = outBalance unless the case has a `price` block
  ("register", Ops.outRegisterP),
  ("register_all", Ops.outRegisterAll),
  ("equity", Ops.outEquity),
  ("selects", Ops.outSelects),
  ("baltxt", Ops.outBalanceTxt),
  ("probe", Ops.outProbe),
  ("balgrp", Ops.outBalGrpP),
  ("identity", Ops.outIdentity),
  ("roundtrip", Ops.outRoundtrip),
  ("regtxt", Ops.outRegisterTxt),
  ("balgrptxt", Ops.outBalGrpTxt)
]

/-- ops -/
def opTable : List (String × (Json → R Json)) := [
  ("run", Ops.opRun outputTable),
  ("rematch", Ops.opRematch),
  ("peel", Ops.opPeel),
  ("selects", Ops.opSelects),
  ("audit", Ops.opAudit),
  ("hash", Ops.opHash),
  ("price", Ops.opPrice),
  ("parse", Ops.opParse),
  ("gitsel", Ops.opGitSel),
  ("out", Ops.opOut),
  ("bufw", Ops.opBufw),
  ("fmt", Ops.opFmt),
  ("strict", Ops.opStrict outputTable),
  ("ts", Ops.opTs),
  ("tsfmt", Ops.opTsfmt),
  ("cfg", Ops.opCfg),
  ("fdef", Ops.opFdef),
  ("b64", Ops.opB64),
  ("dec", Ops.opDec),
  ("sub", Ops.opSub)
]

def dispatch (j : Json) : R Json := do
  let op ← str (← field j "op")
  match opTable.lookup op with
  | some f => f j
  | none => throw s!"unknown op {op}"

partial def loop (h : IO.FS.Stream) (out : IO.FS.Stream) : IO Unit := do
  let line ← h.getLine
  if line.isEmpty then return ()
  let res := match Json.parse line with
    | .ok j => (match dispatch j with
      | .ok r => r
      | .error e => Json.mkObj [("r", "BADCASE"), ("msg", Json.str e)])
    | .error e => Json.mkObj [("r", "BADCASE"), ("msg", Json.str e)]
  out.putStrLn res.compress
  loop h out

def main : IO Unit := do
  let out ← IO.getStdout
  loop (← IO.getStdin) out
  out.flush

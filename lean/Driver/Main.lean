import Driver.Codec
open Lean Tackler Codec

def okV (v : Json) : Json := Json.mkObj [("r", "OK"), ("v", v)]

/-- one wanted output of op `run` -/
def output (_st : Settings) (ts : List Txn) (w : String) : Json :=
  match w with
  | "txns" => okV (jTxns ts)
  | _ => Json.mkObj [("r", "NOMODEL")]

/-- op `run`: settings + journal AST (+ wanted outputs) ⇒ load status and outputs -/
def opRun (j : Json) : R Json := do
  let st ← settings (← field j "cfg")
  let rs ← rawTxns (← field j "txns")
  let want ← match optField j "want" with
    | some w => strList w
    | none => pure []
  match loadJournal st rs with
  | .err => pure (Json.mkObj [("r", "ERR")])
  | .undef => pure (Json.mkObj [("r", "UNDEF")])
  | .ok (ts, st') =>
    pure (Json.mkObj [("r", "OK"), ("n", .num (JsonNumber.fromNat ts.length)),
      ("out", Json.mkObj (want.map (fun w => (w, output st' ts w))))])

def dispatch (j : Json) : R Json := do
  let op ← str (← field j "op")
  match op with
  | "run" => opRun j
  | _ => throw s!"unknown op {op}"

partial def loop (h : IO.FS.Stream) (out : IO.FS.Stream) : IO Unit := do
  let line ← h.getLine
  if line.isEmpty then return ()
  let res := match Json.parse line with
    | .ok j => (match dispatch j with
      | .ok r => r
      | .error e => Json.mkObj [("r", "BADCASE"), ("msg", Json.str e)])
    | .error e => Json.mkObj [("r", "BADCASE"), ("msg", Json.str e)]
  out.putStrLn res.compress
  loop h out

def main : IO Unit := do
  let out ← IO.getStdout
  loop (← IO.getStdin) out
  out.flush

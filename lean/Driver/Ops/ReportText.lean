import Driver.Ops.Scale
import Driver.Ops.Register
import Driver.Ops.Group
import TacklerModel.Model.ReportText
/-! C17 (journal level): output kinds `regtxt` and `balgrptxt` of op `run` – the figures of the register and the
    balance-group report *as shown at the case's scale* (`"scale": {"min": n, "max": m}`, like `baltxt`):
    `Tackler.registerReport` / `Tackler.balgrpReport`.
    Selectors: `msel_register` / `msel_balgrp` = lists of exact account names (absent or empty = all accounts);
    `mgroup_by`, `mreport_tz` as for output kind `balgrp` (defaults: month, UTC). -/
open Lean Tackler Codec

namespace Ops

def jShownRegRow (r : ShownRegRow) : Json :=
  .arr #[.str (acctName r.acct), .str r.amount, .str r.total, .str r.comm]

def jShownRegEntry (e : ShownRegEntry) : Json :=
  Json.mkObj [("ns", .str (toString e.txn.header.ts.ns)), ("code", jOptStr e.txn.header.code),
    ("desc", jOptStr e.txn.header.desc), ("uuid", jOptStr e.txn.header.uuid),
    ("rows", .arr (e.rows.map jShownRegRow).toArray)]

/-- output kind `regtxt`: `registerReport` at the case's scale -/
def outRegisterTxt : OutputFn := fun j _ ts => do
  let names ← regNames j
  match ← caseScale j with
  | .err => pure (Json.mkObj [("r", "CFGERR")])
  | .undef => pure (Json.mkObj [("r", "UNDEF")])
  | .ok sc => pure (outcome (registerReport sc (exactRegSel names) ts) (fun es => .arr (es.map jShownRegEntry).toArray))

def jGroupText (g : GroupText) : Json :=
  Json.mkObj [("title", .str g.title), ("rows", .arr (g.txt.rows.map jShownRow).toArray),
    ("deltas", .arr (g.txt.deltas.map (fun (c, d) => Json.arr #[.str c, .str d])).toArray)]

/-- output kind `balgrptxt`: `balgrpReport` at the case's scale -/
def outBalGrpTxt : OutputFn := fun j st ts => do
  let names ← selNames j "msel_balgrp"
  let g ← match optField j "mgroup_by" with
    | some v => groupBy (← str v)
    | none => pure .month
  let tz ← match optField j "mreport_tz" with
    | some v => journalTz v
    | none => pure (.fixed 0)
  match ← caseScale j with
  | .err => pure (Json.mkObj [("r", "CFGERR")])
  | .undef => pure (Json.mkObj [("r", "UNDEF")])
  | .ok sc => pure (outcome (balgrpReport st (exactSel names) g tz sc ts) (fun gs => .arr (gs.map jGroupText).toArray))

end Ops

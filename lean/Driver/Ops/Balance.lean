import Driver.Ops.Run
import Driver.Ops.Sel
import TacklerModel.Model.Balance
/-! output kind `balance` of op `run`: rows and deltas of the balance kernel.
    Account selector (see `Driver/Ops/Sel.lean`): `msel_balance` = list of exact account names
    (absent or empty = all accounts), else `sel_balance` / `sel_global` = configured pattern lists
    (`Tackler.balanceBySel`). -/
open Lean Tackler Codec

namespace Ops

def exactSel (names : List String) : BalRow → Bool :=
  fun r => names.isEmpty || names.contains (acctName r.acct)

def jBalRow (r : BalRow) : Json :=
  .arr #[.str r.comm, .str (acctName r.acct), jDec r.own, jDec r.tree]

def jBalance (b : Balance) : Json :=
  Json.mkObj [("rows", .arr (b.rows.map jBalRow).toArray),
    ("deltas", .arr (b.deltas.map (fun (c, d) => Json.arr #[.str c, jDec d])).toArray)]

def selNames (j : Json) (k : String) : R (List String) :=
  match optField j k with
  | some v => strList v
  | none => pure []

def jUndefOut : Json := Json.mkObj [("r", "UNDEF")]

def outBalance : OutputFn := fun j st ts => do
  match ← caseSel j "balance" ts with
  | .exact names => pure (outcome (fromIter st (exactSel names) (postsOf ts)) jBalance)
  | .pats ras => pure (outcome (balanceBySel st ras (postsOf ts)) jBalance)
  | .undef => pure jUndefOut

end Ops

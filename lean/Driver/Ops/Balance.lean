import Driver.Ops.Run
import TacklerModel.Model.Balance
/-! output kind `balance` of op `run`: rows and deltas of the balance kernel.
    Account selector (until the regex model is wired in): `msel_balance` = list of exact account names
    (absent or empty = all accounts). -/
open Lean Tackler Codec

namespace Ops

def exactSel (names : List String) : BalRow → Bool :=
  fun r => names.isEmpty || names.contains (acctName r.acct)

def jBalRow (r : BalRow) : Json :=
  .arr #[.str r.comm, .str (acctName r.acct), jDec r.own, jDec r.tree]

def jBalance (b : Balance) : Json :=
  Json.mkObj [("rows", .arr (b.rows.map jBalRow).toArray),
    ("deltas", .arr (b.deltas.map (fun (c, d) => Json.arr #[.str c, jDec d])).toArray)]

def selNames (j : Json) (k : String) : R (List String) :=
  match optField j k with
  | some v => strList v
  | none => pure []

def outBalance : OutputFn := fun j st ts => do
  let names ← selNames j "msel_balance"
  pure (outcome (fromIter st (exactSel names) (postsOf ts)) jBalance)

end Ops

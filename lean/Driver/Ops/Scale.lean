import Driver.Ops.Balance
import TacklerModel.Model.Scale
import TacklerModel.Model.BalanceLayout
/-! C17: op `fmt` (decimal text + min + max ⇒ the figure as the reporters print it) and output kind
    `baltxt` of op `run` (the figures of the balance report at the case's scale: `balanceReport`).
    The scale is read from the case: `"scale": {"min": n, "max": m}`. -/
open Lean Tackler Codec

namespace Ops

def caseScale (j : Json) : R (Outcome Scale) := do
  let s ← field j "scale"
  pure (Scale.ofRaw (← nat (← field s "min")) (← nat (← field s "max")))

/-- op `fmt`: the figure `d`, its negation (`Neg::neg`), a zero of the same stored scale (what `d + -d` is)
    and the plain `ZERO`, each as shown at the scale; plus `get_precision(d)` and the rounded decimal
    (`round_dp_with_strategy`) of `d` and `-d` in stored form -/
def opFmt (j : Json) : R Json := do
  let d ← dec (← field j "d")
  match ← caseScale j with
  | .err => pure (Json.mkObj [("r", "CFGERR")])
  | .undef => pure (Json.mkObj [("r", "UNDEF")])
  | .ok sc =>
    pure (Json.mkObj [("r", "OK"),
      ("prec", .num (JsonNumber.fromNat (sc.getPrecision d))),
      ("shown", .str (shown sc d)),
      ("neg", .str (shown sc d.negate)),
      ("zero_same", .str (shown sc ⟨false, 0, d.scale⟩)),
      ("zero", .str (shown sc Dec.zero)),
      ("rounded", .str (d.roundHA (sc.getPrecision d)).toString),
      ("neg_rounded", .str (d.negate.roundHA (sc.getPrecision d.negate)).toString)])

def jShownRow (r : ShownRow) : Json :=
  .arr #[.str r.comm, .str (acctName r.acct), .str r.own, .str r.tree]

def jBalanceText (b : BalanceText) : Json :=
  Json.mkObj [("rows", .arr (b.rows.map jShownRow).toArray),
    ("deltas", .arr (b.deltas.map (fun (c, d) => Json.arr #[.str c, .str d])).toArray)]

/-- output kind `baltxt`: `balanceReport` at the case's scale (`rows`, `deltas`: the figures), and the report's lines
    after the title and its underline, character for character (`lines`: `BalLayout.bodyLines`) -/
def outBalanceTxt : OutputFn := fun j st ts => do
  let names ← selNames j "msel_balance"
  match ← caseScale j with
  | .err => pure (Json.mkObj [("r", "CFGERR")])
  | .undef => pure (Json.mkObj [("r", "UNDEF")])
  | .ok sc =>
    pure (outcome ((fromIter st (exactSel names) (postsOf ts)).map (fun b => (balanceTxt sc b, BalLayout.bodyLines sc b)))
      (fun (t, ls) => (jBalanceText t).setObjVal! "lines" (.arr (ls.map (fun l => Json.str (String.ofList l))).toArray)))

end Ops

import Driver.Codec
import TacklerModel.Model.Price
/-! op `price` (C07): settings + journal AST + price entries + lookup type + reference instant + report
    commodity ⇒ the price db as loaded, per transaction the converted postings, the price metadata records. -/
open Lean Tackler Codec Tackler.Price

namespace Ops

def priceEntry (j : Json) : R PriceEntry := do
  pure ⟨← int (← field j "ns"), ← str (← field j "base"), ← dec (← field j "rate"), ← str (← field j "target")⟩

def jEntry (e : PriceEntry) : Json :=
  Json.mkObj [("ns", .str (toString e.ns)), ("base", .str e.base), ("rate", jDec e.rate), ("target", .str e.target)]

def jOptDec : Option Dec → Json
  | some d => jDec d
  | none => .null

def jConverted (c : Converted) : Json :=
  Json.mkObj [("acct", jPath c.acct), ("comm", .str c.comm), ("amount", jDec c.amount), ("rate", jOptDec c.rate)]

def jRecord (r : PriceRecord) : Json :=
  Json.mkObj [("ns", match r.ns with | some n => .str (toString n) | none => .null),
    ("source", .str r.source), ("rate", jOptDec r.rate), ("target", .str r.target)]

def lookupOf (s : String) (before : Option Int) : R PriceLookup :=
  if s == "none" then pure .none
  else if s == "txn-time" then pure .txnTime
  else if s == "last-price" then pure .lastPrice
  else if s == "given-time" then
    match before with
    | some b => pure (.givenTime b)
    | none => throw "given-time without reference instant"
  else throw s!"bad lookup {s}"

def status (s : String) : Json := Json.mkObj [("r", .str s)]

def okVal (v : Json) : Json := Json.mkObj [("r", "OK"), ("v", v)]

def opPrice (j : Json) : R Json := do
  let st ← settings (← field j "cfg")
  let rs ← rawTxns (← field j "txns")
  let es ← (← arr (← field j "prices")).mapM priceEntry
  let before ← match optField j "before_ns" with
    | some b => do pure (some (← int b))
    | none => pure none
  let lk ← lookupOf (← str (← field j "lookup")) before
  let rc ← optStr j "report_commodity"
  -- `Settings::try_from`: conversion needs a report commodity; the price file is read only when a lookup is set
  let dbO : Outcome (List PriceEntry) :=
    if lk == .none then .ok []
    else match rc with
      | none => .err
      | some _ => pricedbFromEntries es
  match dbO with
  | .err => pure (status "CFGERR")
  | .undef => pure (status "UNDEF")
  | .ok db =>
  match loadJournal st rs with
  | .err => pure (status "ERR")
  | .undef => pure (status "UNDEF")
  | .ok (ts, _) =>
    let ctx := makeCtx lk ts rc db
    let conv : Json := match mapO (fun t => (convertPrices ctx t).map (fun cs => (t, cs))) ts with
      | .ok l => okVal (Json.mkObj [
          ("txns", .arr (l.map (fun (t, cs) => Json.mkObj [("ns", .str (toString t.header.ts.ns)),
              ("uuid", jOptStr t.header.uuid), ("posts", .arr (cs.map jConverted).toArray)])).toArray),
          ("meta", .arr ((metadata ctx).map jRecord).toArray)])
      | .err => status "ERR"
      | .undef => status "UNDEF"
    pure (Json.mkObj [("r", "OK"), ("n", .num (JsonNumber.fromNat ts.length)),
      ("db", .arr (db.map jEntry).toArray), ("conv", conv)])

end Ops

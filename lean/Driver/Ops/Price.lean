import Driver.Codec
import TacklerModel.Model.Price
import TacklerModel.Model.Time
/-! op `price` (C07): settings + journal AST + price entries + lookup type + reference instant + report
    commodity ⇒ the price db as loaded, per transaction the converted postings, the price metadata records. -/
open Lean Tackler Codec Tackler.Price

namespace Ops

/-- lexical content of a timestamp: `{"y","m","d","time": [h, mi, s, "fraction digits"|null]|null, "zone": null|"Z"|[neg, hh, mm]}` -/
def tsToken (j : Json) : R Time.TsToken := do
  let time ← match optField j "time" with
    | none => pure none
    | some t => do
      let a ← arr t
      match a with
      | [h, mi, s, f] =>
        let fr ← match f with
          | .null => pure none
          | v => do pure (some (← str v).toList)
        pure (some (← nat h, ← nat mi, ← nat s, fr))
      | _ => throw "bad time token"
  let zone ← match optField j "zone" with
    | none => pure none
    | some (.str _) => pure (some none)
    | some z => do
      match (← arr z) with
      | [n, hh, mm] => pure (some (some (← bool n, ← nat hh, ← nat mm)))
      | _ => throw "bad zone token"
  pure ⟨← nat (← field j "y"), ← nat (← field j "m"), ← nat (← field j "d"), time, zone⟩

/-- instant of a timestamp given as token (resolved by the model: `Time.resolveTs`) or, without token, as ns -/
def instantOf (tc : Time.TsCfg) (j : Json) (nsKey : String) : R (Outcome Int) :=
  match optField j "tok" with
  | some t => do
    let tok ← tsToken t
    pure ((Time.resolveTs tc tok).map (·.ns))
  | none => do pure (.ok (← int (← field j nsKey)))

def priceEntry (tc : Time.TsCfg) (j : Json) : R (Outcome PriceEntry) := do
  let base ← str (← field j "base")
  let rate ← dec (← field j "rate")
  let target ← str (← field j "target")
  pure ((← instantOf tc j "ns").map (fun ns => ⟨ns, base, rate, target⟩))

def jEntry (e : PriceEntry) : Json :=
  Json.mkObj [("ns", .str (toString e.ns)), ("base", .str e.base), ("rate", jDec e.rate), ("target", .str e.target)]

def jOptDec : Option Dec → Json
  | some d => jDec d
  | none => .null

def jConverted (c : Converted) : Json :=
  Json.mkObj [("acct", jPath c.acct), ("comm", .str c.comm), ("amount", jDec c.amount), ("rate", jOptDec c.rate)]

def jRecord (r : PriceRecord) : Json :=
  Json.mkObj [("ns", match r.ns with | some n => .str (toString n) | none => .null),
    ("source", .str r.source), ("rate", jOptDec r.rate), ("target", .str r.target)]

def lookupOf (s : String) (before : Option Int) : R PriceLookup :=
  if s == "none" then pure .none
  else if s == "txn-time" then pure .txnTime
  else if s == "last-price" then pure .lastPrice
  else if s == "given-time" then
    match before with
    | some b => pure (.givenTime b)
    | none => throw "given-time without reference instant"
  else throw s!"bad lookup {s}"

def status (s : String) : Json := Json.mkObj [("r", .str s)]

def okVal (v : Json) : Json := Json.mkObj [("r", "OK"), ("v", v)]

def opPrice (j : Json) : R Json := do
  let st ← settings (← field j "cfg")
  let rs ← rawTxns (← field j "txns")
  let tzOff ← match optField j "tz_offset_s" with
    | some o => int o
    | none => pure 0
  let tc : Time.TsCfg := ⟨tzOff, (0, 0, 0, 0)⟩
  let esO ← (← arr (← field j "prices")).mapM (priceEntry tc)
  let rc ← optStr j "report_commodity"
  let lookupName ← str (← field j "lookup")
  -- a price line whose timestamp does not resolve fails the price file (only read when a lookup is set)
  let esAll := Price.mapO id esO
  match (if lookupName == "none" then Outcome.ok [] else esAll) with
  | .err => pure (status "CFGERR")
  | .undef => pure (status "UNDEF")
  | .ok es =>
  let beforeO ← match optField j "before" with
    | some b => do pure (some (← instantOf tc b "ns"))
    | none => pure none
  match beforeO with
  | some .err => pure (status "CFGERR")
  | some .undef => pure (status "UNDEF")
  | _ =>
  let before : Option Int := match beforeO with
    | some (.ok b) => some b
    | _ => none
  let lk ← lookupOf lookupName before
  -- `Settings::try_from`: conversion needs a report commodity; the price file is read only when a lookup is set
  let dbO : Outcome (List PriceEntry) :=
    if lk == .none then .ok []
    else match rc with
      | none => .err
      | some _ => pricedbFromEntries es
  match dbO with
  | .err => pure (status "CFGERR")
  | .undef => pure (status "UNDEF")
  | .ok db =>
  match loadJournal st rs with
  | .err => pure (status "ERR")
  | .undef => pure (status "UNDEF")
  | .ok (ts, _) =>
    let ctx := makeCtx lk ts rc db
    let conv : Json := match mapO (fun t => (convertPrices ctx t).map (fun cs => (t, cs))) ts with
      | .ok l => okVal (Json.mkObj [
          ("txns", .arr (l.map (fun (t, cs) => Json.mkObj [("ns", .str (toString t.header.ts.ns)),
              ("uuid", jOptStr t.header.uuid), ("posts", .arr (cs.map jConverted).toArray)])).toArray),
          ("meta", .arr ((metadata ctx).map jRecord).toArray)])
      | .err => status "ERR"
      | .undef => status "UNDEF"
    pure (Json.mkObj [("r", "OK"), ("n", .num (JsonNumber.fromNat ts.length)),
      ("db", .arr (db.map jEntry).toArray), ("conv", conv)])

end Ops

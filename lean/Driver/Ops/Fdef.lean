import Driver.Codec
import Driver.Ops.Run
import TacklerModel.Model.FilterDef
/-! ops of C18 (filter definitions in every encoding):

* `fdef`: definition text `def` (plain JSON or `base64:` armor; `force` = "armor" | "json" picks the entry point)
  [+ `cfg` + probe journal `txns`] [+ `off`] ⇒ `ERR` | `UNDEF` | the re-serialised JSON text (`render (toJson f)`),
  the description, the uuids of the selected transactions; the same for the definition parsed from the re-serialised
  text (`json2`, `desc2`, `sel2`), and the re-serialisation of its armored form (`json3`).
* `b64`: strings `xs` ⇒ `b64decode` (hex + UTF-8 text) or null; byte strings `hs` (hex) ⇒ `b64encode`.

`parseJsonText` is the *driver's* stand-in for `serde_json`'s text layer (the model takes that layer as a parameter):
RFC 8259 text → `JVal`, object fields in document order with duplicates, numbers as their source text, recursion
limit 128 as in `serde_json`. -/
open Lean Tackler Codec Tackler.FilterDef

namespace Ops
namespace JsonText

def isWs (c : Char) : Bool := c == ' ' || c == '\n' || c == '\t' || c == '\r'

def skipWs : List Char → List Char
  | c :: cs => if isWs c then skipWs cs else c :: cs
  | [] => []

def hexVal (c : Char) : Option Nat :=
  if '0' ≤ c ∧ c ≤ '9' then some (c.toNat - 48)
  else if 'a' ≤ c ∧ c ≤ 'f' then some (c.toNat - 87)
  else if 'A' ≤ c ∧ c ≤ 'F' then some (c.toNat - 55)
  else none

def hex4 : List Char → Option (Nat × List Char)
  | a :: b :: c :: d :: rest =>
    match hexVal a, hexVal b, hexVal c, hexVal d with
    | some w, some x, some y, some z => some (((w * 16 + x) * 16 + y) * 16 + z, rest)
    | _, _, _, _ => none
  | _ => none

/-- the body of a string after the opening quote -/
partial def strBody (acc : List Char) : List Char → Option (String × List Char)
  | [] => none
  | '"' :: rest => some (String.ofList acc.reverse, rest)
  | '\\' :: e :: rest =>
    if e == '"' then strBody ('"' :: acc) rest
    else if e == '\\' then strBody ('\\' :: acc) rest
    else if e == '/' then strBody ('/' :: acc) rest
    else if e == 'b' then strBody (Char.ofNat 8 :: acc) rest
    else if e == 'f' then strBody (Char.ofNat 12 :: acc) rest
    else if e == 'n' then strBody ('\n' :: acc) rest
    else if e == 'r' then strBody ('\r' :: acc) rest
    else if e == 't' then strBody ('\t' :: acc) rest
    else if e == 'u' then
      match hex4 rest with
      | none => none
      | some (u, rest1) =>
        if 0xD800 ≤ u ∧ u ≤ 0xDBFF then
          -- a high surrogate must be followed by an escaped low surrogate
          match rest1 with
          | '\\' :: 'u' :: rest2 =>
            (match hex4 rest2 with
             | some (l, rest3) =>
               if 0xDC00 ≤ l ∧ l ≤ 0xDFFF then
                 strBody (Char.ofNat (0x10000 + (u - 0xD800) * 1024 + (l - 0xDC00)) :: acc) rest3
               else none
             | none => none)
          | _ => none
        else if 0xDC00 ≤ u ∧ u ≤ 0xDFFF then none
        else strBody (Char.ofNat u :: acc) rest1
    else none
  | [_] => none
  | c :: rest => if c.toNat < 32 then none else strBody (c :: acc) rest

def takeDigits (cs : List Char) : List Char × List Char := (cs.takeWhile Char.isDigit, cs.dropWhile Char.isDigit)

/-- a number: `-? (0 | [1-9][0-9]*) (. [0-9]+)? ([eE] [+-]? [0-9]+)?` → its text -/
def number (cs : List Char) : Option (String × List Char) :=
  let (sign, cs1) := match cs with
    | '-' :: r => (['-'], r)
    | r => ([], r)
  let (ip, cs2) := takeDigits cs1
  if ip.isEmpty || (ip.length > 1 && ip.head? == some '0') then none else
  let (fr, cs3) := match cs2 with
    | '.' :: r => let (ds, r') := takeDigits r; (some ('.' :: ds), r')
    | r => (none, r)
  if fr == some ['.'] then none else
  let (ex, cs4) := match cs3 with
    | e :: r =>
      if e == 'e' || e == 'E' then
        let (sg, r1) := match r with
          | '+' :: r1 => (['+'], r1)
          | '-' :: r1 => (['-'], r1)
          | r1 => ([], r1)
        let (ds, r2) := takeDigits r1
        (some (e :: sg ++ ds, ds.isEmpty), r2)
      else (none, cs3)
    | [] => (none, [])
  match ex with
  | some (_, true) => none
  | _ => some (String.ofList (sign ++ ip ++ fr.getD [] ++ (ex.map (·.1)).getD []), cs4)

partial def value (depth : Nat) (cs0 : List Char) : Option (JVal × List Char) :=
  let cs := skipWs cs0
  match cs with
  | 'n' :: 'u' :: 'l' :: 'l' :: rest => some (.null, rest)
  | 't' :: 'r' :: 'u' :: 'e' :: rest => some (.bool true, rest)
  | 'f' :: 'a' :: 'l' :: 's' :: 'e' :: rest => some (.bool false, rest)
  | '"' :: rest => (strBody [] rest).map fun (s, r) => (.str s, r)
  | '[' :: rest =>
    if depth == 0 then none else
    match skipWs rest with
    | ']' :: r => some (.arr [], r)
    | _ => items (depth - 1) [] rest
  | '{' :: rest =>
    if depth == 0 then none else
    match skipWs rest with
    | '}' :: r => some (.obj [], r)
    | _ => fields (depth - 1) [] rest
  | _ => (number cs).map fun (t, r) => (.num t, r)
where
  items (depth : Nat) (acc : List JVal) (cs : List Char) : Option (JVal × List Char) :=
    match value depth cs with
    | none => none
    | some (v, r) =>
      match skipWs r with
      | ',' :: r' => items depth (v :: acc) r'
      | ']' :: r' => some (.arr (v :: acc).reverse, r')
      | _ => none
  fields (depth : Nat) (acc : List (String × JVal)) (cs : List Char) : Option (JVal × List Char) :=
    match skipWs cs with
    | '"' :: r =>
      (match strBody [] r with
       | none => none
       | some (k, r1) =>
         match skipWs r1 with
         | ':' :: r2 =>
           (match value depth r2 with
            | none => none
            | some (v, r3) =>
              match skipWs r3 with
              | ',' :: r4 => fields depth ((k, v) :: acc) r4
              | '}' :: r4 => some (.obj ((k, v) :: acc).reverse, r4)
              | _ => none)
         | _ => none)
    | _ => none

end JsonText

partial def jvalDepth : JVal → Nat
  | .arr items => 1 + (items.map jvalDepth).foldl max 0
  | .obj fields => 1 + (fields.map (fun p => jvalDepth p.2)).foldl max 0
  | _ => 0

/-- `serde_json::from_str` as far as the JSON value goes (no limit on the nesting) -/
def parseJsonText (s : String) : Option JVal :=
  match JsonText.value 1000000 s.toList with
  | some (v, rest) => if (JsonText.skipWs rest).isEmpty then some v else none
  | none => none

/-- the same, refusing values nested deeper than 100.  `serde_json` limits the recursion of what it *deserialises* to 128
    levels but skips ignored values without a limit; the model does not describe that: when the two readers lead to
    different answers the driver says UNDEF. -/
def parseJsonTextShallow (s : String) : Option JVal :=
  match parseJsonText s with
  | some v => if jvalDepth v > 100 then none else some v
  | none => none

def outcomeKey (o : Outcome Filter) : String :=
  match o with
  | .ok f => "OK " ++ render (toJson f)
  | .err => "ERR"
  | .undef => "UNDEF"

def hexOfBytes (bs : List UInt8) : String :=
  String.ofList (bs.flatMap fun b => [hexDigit (b.toNat / 16), hexDigit (b.toNat % 16)])

def bytesOfHex (s : String) : List UInt8 :=
  let rec go : List Char → List UInt8
    | a :: b :: rest =>
      (match JsonText.hexVal a, JsonText.hexVal b with
       | some x, some y => byte (x * 16 + y) :: go rest
       | _, _ => go rest)
    | _ => []
  go s.toList

/-- every stored pattern is inside the domain where the matcher is faithful -/
def patternsFaithful (f : Filter) : Bool :=
  (patterns f).all fun src =>
    match Regex.parse src with
    | some r => !r.usesPerl
    | none => false

def selectUuids (f : Filter) (ts : List Txn) : Json :=
  if patternsFaithful f then
    .arr ((filterTxns storedMatch f ts).map (fun t => jOptStr t.header.uuid)).toArray
  else .str "UNDEF"

def opFdef (j : Json) : R Json := do
  let defText ← str (← field j "def")
  let off ← match optField j "off" with
    | some o => int o
    | none => pure 0
  let force ← optStr j "force"
  let run (P : String → Option JVal) : Outcome Filter := match force with
    | some "armor" => fromArmor P defText
    | some "json" => fromJsonStr P defText
    | _ => parseDefinition P defText
  let res : Outcome Filter :=
    if outcomeKey (run parseJsonText) == outcomeKey (run parseJsonTextShallow) then run parseJsonText else .undef
  match res with
  | .err => pure (Json.mkObj [("r", "ERR"), ("armored", .bool (isArmored defText))])
  | .undef => pure (Json.mkObj [("r", "UNDEF")])
  | .ok f =>
    let js := render (toJson f)
    let second : List (String × Json) := match fromJsonStr parseJsonText js with
      | .ok f2 =>
        let arm := armorOf js
        let j3 := match fromArmor parseJsonText arm with
          | .ok f3 => Json.str (render (toJson f3))
          | .err => Json.str "ERR"
          | .undef => Json.str "UNDEF"
        [("r2", Json.str "OK"), ("json2", Json.str (render (toJson f2))), ("desc2", Json.str (describe off f2)),
         ("json3", j3)]
      | .err => [("r2", Json.str "ERR")]
      | .undef => [("r2", Json.str "UNDEF")]
    let base : List (String × Json) := [("r", Json.str "OK"), ("armored", Json.bool (isArmored defText)),
      ("json", Json.str js), ("desc", Json.str (describe off f))] ++ second
    match optField j "txns" with
    | none => pure (Json.mkObj base)
    | some _ =>
      let st ← settings (← field j "cfg")
      let (loaded, _) ← loadCase j st
      match loaded with
      | .ok (ts, _) =>
        let sel2 : List (String × Json) := match fromJsonStr parseJsonText js with
          | .ok f2 => [("sel2", selectUuids f2 ts)]
          | _ => []
        pure (Json.mkObj (base ++ [("n", Json.num (JsonNumber.fromNat ts.length)), ("sel", selectUuids f ts)] ++ sel2))
      | .err => pure (Json.mkObj [("r", "LOADERR")])
      | .undef => pure (Json.mkObj [("r", "UNDEF"), ("at", "load")])

def opB64 (j : Json) : R Json := do
  let xs ← match optField j "xs" with
    | some v => strList v
    | none => pure []
  let hs ← match optField j "hs" with
    | some v => strList v
    | none => pure []
  let dec := xs.map fun x =>
    match b64decode x.toList with
    | some bs => Json.mkObj [("hex", .str (hexOfBytes bs)),
        ("utf8", match utf8decode bs with | some cs => Json.str (String.ofList cs) | none => Json.null)]
    | none => Json.null
  let enc := hs.map fun h => Json.str (String.ofList (b64encode (bytesOfHex h)))
  pure (Json.mkObj [("r", "OK"), ("dec", .arr dec.toArray), ("enc", .arr enc.toArray)])

end Ops

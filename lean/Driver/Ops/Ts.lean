import Driver.Codec
import TacklerModel.Model.Time
/-! ops of C16:
    * `ts`    : journal zone (`{"off": seconds}` or `{"table": {lo, hi, init, trans}}`) + default time
                `[h, m, s, ns]` + a list of timestamp texts ⇒ per text instant ns and offset seconds | ERR | UNDEF
                (`Time.parseTsZ`)
    * `tsfmt` : instant + own zone + a list of report zones (offset or table) ⇒ the texts of `tackler_api::txn_ts` -/
open Lean Tackler Codec

namespace Ops

def zoneTable (j : Json) : R Time.ZoneTable := do
  let trans ← (← arr (← field j "trans")).mapM (fun e => do
    match ← arr e with
    | [a, b] => pure (← int a, ← int b)
    | _ => throw "bad transition")
  pure ⟨← int (← field j "lo"), ← int (← field j "hi"), ← int (← field j "init"), trans⟩

def journalTz (j : Json) : R Time.JournalTz := do
  match optField j "table" with
  | some t => pure (.table (← zoneTable t))
  | none => pure (.fixed (← int (← field j "off")))

def defaultTime (j : Json) : R (Nat × Nat × Nat × Nat) := do
  match ← arr j with
  | [h, m, s, n] => pure (← nat h, ← nat m, ← nat s, ← nat n)
  | _ => throw "bad default time"

def jTs (t : Ts) : Json :=
  Json.mkObj [("ns", .str (toString t.ns)), ("off", .num (JsonNumber.fromInt t.offset))]

def opTs (j : Json) : R Json := do
  let texts ← strList (← field j "texts")
  let tz ← journalTz (← field j "tz")
  let dt ← defaultTime (← field j "default_time")
  let one (text : String) : Json :=
    match Time.parseTsZ ⟨tz, dt⟩ text with
    | .ok t => Json.mkObj [("r", "OK"), ("ns", .str (toString t.ns)), ("off", .num (JsonNumber.fromInt t.offset))]
    | .err => Json.mkObj [("r", "ERR")]
    | .undef => Json.mkObj [("r", "UNDEF")]
  pure (Json.mkObj [("r", "OK"), ("v", .arr (texts.map one).toArray)])

/-- offset of a zone at an instant; `none` outside the table's window -/
def zoneOffset (tz : Time.JournalTz) (ns : Int) : Option Int :=
  match tz with
  | .fixed o => some o
  | .table z => if Time.inWindow z ns then some (Time.offsetAt z ns) else none

def fmtAt (ns : Int) (rtz : Time.JournalTz) : Json :=
  match zoneOffset rtz ns with
  | some r => Json.mkObj [("r", "OK"), ("rtz_off", .num (JsonNumber.fromInt r)),
      ("seconds", .str (Time.fmtStyle .seconds ns r)), ("full", .str (Time.fmtStyle .full ns r)),
      ("date", .str (Time.fmtStyle .date ns r)), ("month", .str (Time.fmtMonth ns r)),
      ("year", .str (Time.fmtYear ns r)), ("week", .str (Time.fmtIsoWeek ns r)),
      ("week_date", .str (Time.fmtIsoWeekDate ns r))]
  | none => Json.mkObj [("r", "UNDEF")]

def opTsfmt (j : Json) : R Json := do
  let ns ← int (← field j "ns")
  let own ← journalTz (← field j "own")
  let rtzs ← (← arr (← field j "rtzs")).mapM journalTz
  if !Time.instantOk ns then pure (Json.mkObj [("r", "ERR")]) else
  match zoneOffset own ns with
  | some o =>
    pure (Json.mkObj [("r", "OK"), ("v", Json.mkObj [
      ("own_off", .num (JsonNumber.fromInt o)),
      ("rfc3339", .str (Time.rfc3339 ns o)), ("seconds_tz", .str (Time.fmtSecondsTz ns o)),
      ("full_tz", .str (Time.fmtFullTz ns o)),
      ("utc_seconds", .str (Time.fmtSeconds ns 0)), ("utc_full", .str (Time.fmtFull ns 0)),
      ("utc_date", .str (Time.fmtDate ns 0)), ("utc_month", .str (Time.fmtMonth ns 0)),
      ("utc_year", .str (Time.fmtYear ns 0)), ("utc_week", .str (Time.fmtIsoWeek ns 0)),
      ("utc_week_date", .str (Time.fmtIsoWeekDate ns 0)),
      ("at", .arr (rtzs.map (fmtAt ns)).toArray)])])
  | none => pure (Json.mkObj [("r", "UNDEF")])

end Ops

import Driver.Ops.Run
import Driver.Ops.Rematch
import TacklerModel.Model.ReportSel
/-! account selectors of the output kinds `balance`, `register`, `equity` of op `run`.

Two encodings:
* `msel_<report>`: list of *exact account names* (absent or empty = all accounts) – used by the checks whose
  business is not the regular expressions (C02, C03, C10, C17);
* `sel_<report>` (+ `sel_global`): the configured *pattern lists* (`[report] accounts`, `[report.<x>] accounts`,
  `[export.equity] accounts`), evaluated by `Tackler.accSelector (effectiveSel own global)` – the real selector.
  Answer `UNDEF` when a pattern is outside the modelled regex subset (or rejected: the model cannot tell),
  longer than the size the model vouches for, or uses `\d \w \s` while an account name of the journal is not ASCII.

`msel_*` wins when both are present. -/
open Lean Tackler Codec

namespace Ops

inductive CaseSel where
  | exact (names : List String)
  | pats (ras : List String)
  | undef

/-- every account name the outputs can show is inside the domain of the compiled set -/
def selInDomain (sel : AccSelector) (ts : List Txn) : Bool :=
  match sel with
  | .all => true
  | .byAccount ws =>
    ts.all (fun t => t.posts.all (fun p => ws.all (fun w => Regex.inDomain w (acctName p.acct).toList)))

def caseSel (j : Json) (report : String) (ts : List Txn) : R CaseSel := do
  match optField j ("msel_" ++ report) with
  | some v => pure (.exact (← strList v))
  | none =>
    let own ← optStrList j ("sel_" ++ report)
    let g ← optStrList j "sel_global"
    let eff := effectiveSel own g
    if !eff.all Regex.patternSizeOk then pure .undef
    else
      match accSelector eff with
      | .ok sel => pure (if selInDomain sel ts then .pats eff else .undef)
      | _ => pure .undef

/-- output kind `selects` of op `run`: what op `selects` answers, for the case's own `sel_*` lists and `names` -/
def outSelects : OutputFn := fun j _ _ => do
  let names ← strList (← field j "names")
  let g ← optStrList j "sel_global"
  pure (okV (Json.mkObj [
    ("balance", selOne (← optStrList j "sel_balance") g names),
    ("register", selOne (← optStrList j "sel_register") g names),
    ("equity", selOne (← optStrList j "sel_equity") g names)]))

end Ops

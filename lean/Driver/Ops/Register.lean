import Driver.Ops.Run
import TacklerModel.Model.Register
/-! output kinds `register` and `register_all` of op `run`: the printed entries of the register engine
    (no price conversion).  Per entry: header key (ns, code, desc, uuid) and the rows
    (account, amount, running total, commodity).
    Account selector (until the regex model is wired in): `msel_register` = list of exact account names
    (absent or empty = all accounts); `register_all` ignores it. -/
open Lean Tackler Codec

namespace Ops

def exactRegSel (names : List String) : RegRow → Bool :=
  fun r => names.isEmpty || names.contains (acctName r.post.acct)

def jRegRow (r : RegRow) : Json :=
  .arr #[.str (acctName r.post.acct), jDec r.post.amount, jDec r.total, .str r.comm]

def jRegEntry (e : RegEntry) : Json :=
  Json.mkObj [("ns", .str (toString e.txn.header.ts.ns)), ("code", jOptStr e.txn.header.code),
    ("desc", jOptStr e.txn.header.desc), ("uuid", jOptStr e.txn.header.uuid),
    ("rows", .arr (e.rows.map jRegRow).toArray)]

def jRegister (es : List RegEntry) : Json := .arr ((printedEntries es).map jRegEntry).toArray

def regNames (j : Json) : R (List String) :=
  match optField j "msel_register" with
  | some v => strList v
  | none => pure []

def outRegister : OutputFn := fun j _ ts => do
  let names ← regNames j
  pure (outcome (register (exactRegSel names) ts) jRegister)

def outRegisterAll : OutputFn := fun _ _ ts =>
  pure (outcome (register selAll ts) jRegister)

end Ops

import Driver.Ops.Run
import Driver.Ops.Sel
import TacklerModel.Model.Register
/-! output kinds `register` and `register_all` of op `run`: the printed entries of the register engine
    (no price conversion).  Per entry: header key (ns, code, desc, uuid) and the rows
    (account, amount, running total, commodity).
    Account selector (see `Driver/Ops/Sel.lean`): `msel_register` = list of exact account names
    (absent or empty = all accounts), else `sel_register` / `sel_global` = configured pattern lists
    (`Tackler.registerBySel`); `register_all` ignores both. -/
open Lean Tackler Codec

namespace Ops

def exactRegSel (names : List String) : RegRow → Bool :=
  fun r => names.isEmpty || names.contains (acctName r.post.acct)

def jRegRow (r : RegRow) : Json :=
  .arr #[.str (acctName r.post.acct), jDec r.post.amount, jDec r.total, .str r.comm]

def jRegEntry (e : RegEntry) : Json :=
  Json.mkObj [("ns", .str (toString e.txn.header.ts.ns)), ("code", jOptStr e.txn.header.code),
    ("desc", jOptStr e.txn.header.desc), ("uuid", jOptStr e.txn.header.uuid),
    ("rows", .arr (e.rows.map jRegRow).toArray)]

def jRegister (es : List RegEntry) : Json := .arr ((printedEntries es).map jRegEntry).toArray

def regNames (j : Json) : R (List String) :=
  match optField j "msel_register" with
  | some v => strList v
  | none => pure []

def jPrinted (es : List RegEntry) : Json := .arr (es.map jRegEntry).toArray

def outRegister : OutputFn := fun j _ ts => do
  match ← caseSel j "register" ts with
  | .exact names => pure (outcome (register (exactRegSel names) ts) jRegister)
  | .pats ras => pure (outcome (registerBySel ras ts) jPrinted)
  | .undef => pure (Json.mkObj [("r", "UNDEF")])

def outRegisterAll : OutputFn := fun _ _ ts =>
  pure (outcome (register selAll ts) jRegister)

end Ops

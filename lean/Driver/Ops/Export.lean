import Driver.Ops.Run
import TacklerModel.Model.Print
/-! outputs `identity` (identity export text of the loaded set) and `roundtrip` (export → parse → load →
    compare → export again) of op `run`. -/
open Lean Tackler Codec

namespace Ops

def jUndefX : Json := Json.mkObj [("r", "UNDEF")]

def outIdentity : OutputFn := fun _ _ ts =>
  match Print.identityExport? ts with
  | some t => pure (okV (Json.str (String.ofList t)))
  | none => pure jUndefX

/-- the model's own round trip: the export text of the loaded set is loaded again (same configuration) and
    exported again -/
def outRoundtrip : OutputFn := fun j _ ts => do
  let st0 ← settings (← field j "cfg")
  let cfg ← tsCfg j
  match Print.identityExport? ts with
  | none => pure jUndefX
  | some t =>
    match loadText cfg st0 t with
    | .undef => pure jUndefX
    | .err => pure (okV (Json.mkObj [("reparse", "ERR")]))
    | .ok (ts2, _) =>
      let t2 := Print.identityExport? ts2
      pure (okV (Json.mkObj [("reparse", "OK"), ("same_txns", .bool (ts2 = ts)),
        ("same_text", .bool (t2 = some t))]))

end Ops

import Driver.Codec
import TacklerModel.Model.Config
/-! op `cfg` (C19): environment + raw configuration-file values + option set ⇒ clap/run error or the
    effective configuration (`Config.effective`). -/
open Lean Tackler Codec Tackler.Config

namespace Ops

private def optStrList (j : Json) (k : String) : R (Option (List String)) :=
  match optField j k with
  | none => pure none
  | some v => do pure (some (← strList v))

private def optBool (j : Json) (k : String) : R (Option Bool) :=
  match optField j k with
  | none => pure none
  | some v => do pure (some (← bool v))

private def envOf (j : Json) : R Env := do
  let tsOk ← strList (← field j "ts_ok")
  let dbOk ← strList (← field j "db_ok")
  pure { cwd := ← str (← field j "cwd"), cfgDir := ← str (← field j "cfg_dir"),
         tsOk := fun s => tsOk.contains s, dbOk := fun p _ => dbOk.contains p }

private def fileOf (j : Json) : R FileCfg := do
  let fs ← match optField j "fs" with
    | none => pure none
    | some v => do pure (some (⟨← optStr v "path", ← str (← field v "dir"), ← str (← field v "suffix")⟩ : FsCfg))
  let git ← match optField j "git" with
    | none => pure none
    | some v => do pure (some (⟨← optStr v "repo", ← optStr v "repository", ← str (← field v "ref"),
                                ← str (← field v "dir"), ← str (← field v "suffix")⟩ : GitCfg))
  let price ← match optField j "price" with
    | none => pure none
    | some v => do pure (some (⟨← str (← field v "db_path"), ← str (← field v "lookup_type")⟩ : PriceCfg))
  pure { strict := ← bool (← field j "strict"), audit := ← bool (← field j "audit"),
         storage := ← str (← field j "storage"), fs := fs, git := git, price := price,
         accounts := ← strList (← field j "accounts"), commodities := ← strList (← field j "commodities"),
         permitEmpty := ← bool (← field j "permit_empty"), targets := ← strList (← field j "targets"),
         selGlobal := ← optStrList j "sel_global", commodity := ← optStr j "commodity",
         selBalance := ← optStrList j "sel_balance", selBalGrp := ← optStrList j "sel_balgrp",
         selRegister := ← optStrList j "sel_register", groupBy := ← str (← field j "group_by"),
         exportTargets := ← strList (← field j "export_targets"),
         equityAccount := ← str (← field j "equity_account"), selEquity := ← optStrList j "sel_equity" }

private def cliOf (j : Json) : R CliOpts := do
  pure { strict := ← optBool j "strict.mode", audit := ← optBool j "audit.mode",
         inputFile := ← optStr j "input.file", inputStorage := ← optStr j "input.storage",
         inputFsDir := ← optStr j "input.fs.dir", inputFsExt := ← optStr j "input.fs.ext",
         inputGitRepo := ← optStr j "input.git.repository", inputGitRef := ← optStr j "input.git.ref",
         inputGitCommit := ← optStr j "input.git.commit", inputGitDir := ← optStr j "input.git.dir",
         accounts := ← optStrList j "accounts", reports := ← optStrList j "reports",
         pricedb := ← optStr j "pricedb", reportCommodity := ← optStr j "report.commodity",
         lookupType := ← optStr j "price.lookup-type", priceBefore := ← optStr j "price.before",
         groupBy := ← optStr j "group-by", exports := ← optStrList j "exports" }

private def reportName : ReportT → String
  | .balance => "balance" | .balanceGroup => "balance-group" | .register => "register"
private def exportName : ExportT → String
  | .equity => "equity" | .identity => "identity"
private def lookupName : Lookup → String
  | .none => "none" | .lastPrice => "last-price" | .txnTime => "txn-time" | .givenTime => "given-time"
private def groupByName : GroupBy → String
  | .year => "year" | .month => "month" | .date => "date" | .isoWeek => "iso-week" | .isoWeekDate => "iso-week-date"

private def jInput : Input → Json
  | .file p => Json.mkObj [("k", "file"), ("path", .str p)]
  | .fs d s => Json.mkObj [("k", "fs"), ("dir", .str d), ("suffix", .str s)]
  | .git r d sel e =>
    Json.mkObj (([("k", Json.str "git"), ("repo", Json.str r), ("dir", Json.str d), ("ext", Json.str e)] : List (String × Json)) ++
      (match sel with
       | .commitId k => [("commit", Json.str k)]
       | .reference x => [("ref", Json.str x)]))

private def jEffective (e : Effective) : Json :=
  Json.mkObj [
    ("strict", .bool e.strict), ("audit", .bool e.audit),
    ("reports", jStrList (e.reports.map reportName)), ("exports", jStrList (e.exports.map exportName)),
    ("sel", Json.mkObj [("balance", jStrList e.selBalance), ("balgrp", jStrList e.selBalGrp),
                        ("register", jStrList e.selRegister), ("equity", jStrList e.selEquity)]),
    ("commodity", jOptStr e.commodity), ("lookup", .str (lookupName e.lookup)),
    ("before", match e.priceLookup with | .givenTime ts => .str ts | _ => .null),
    ("pricedb", jOptStr e.priceDb), ("group_by", .str (groupByName e.groupBy)),
    ("input", jInput e.input)]

def opCfg (j : Json) : R Json := do
  let env ← envOf (← field j "env")
  let f ← fileOf (← field j "file")
  let c ← cliOf (← field j "cli")
  match effective env f c with
  | .ok e => pure (Json.mkObj [("r", "OK"), ("v", jEffective e)])
  | .undef => pure (Json.mkObj [("r", "UNDEF")])
  | .err =>
    -- which stage rejected: the clap attributes (exit status 2) or the run (exit status 1)
    pure (Json.mkObj [("r", "ERR"), ("stage", if clapAccepts c then "run" else "clap")])

end Ops

import Driver.Codec
import TacklerModel.Model.Print
/-! op `dec`: the model's `Dec` operations themselves (`Dec.add`, `mul`, `sum`, `negate`, `cmpVal`, `ofString?`,
    `toString`, `divQuot`) – the direct contract tie against `rust_decimal`.  Operands are stored-form texts; a leading
    `~` negates after parsing.  `INEXACT` = outside the domain where the model predicts the library (it rounds there);
    `OVERFLOW` = the model is certain that `checked_*` answers `None`. -/
open Lean Tackler Codec

namespace Ops

def decOperand (j : Json) : R Dec := do
  let t ← str j
  match t.toList with
  | '~' :: r => match Dec.ofString? (String.ofList r) with
    | some d => pure d.negate
    | none => throw s!"bad decimal {t}"
  | _ => match Dec.ofString? t with
    | some d => pure d
    | none => throw s!"bad decimal {t}"

def jDec (d : Dec) : Json :=
  Json.mkObj [("r", "OK"), ("v", .str d.toString), ("scale", .num (JsonNumber.fromNat d.scale)), ("neg", .bool d.neg)]

def ordNum (o : Ordering) : Int := match o with | .lt => -1 | .eq => 0 | .gt => 1

def opDec (j : Json) : R Json := do
  let f ← str (← field j "f")
  if f == "parse" then
    let t ← str (← field j "a")
    match Dec.ofString? t with
    | some d => return jDec d
    | none => return Json.mkObj [("r", "ERR")]
  if f == "sum" then
    let l ← (← arr (← field j "l")).mapM decOperand
    match Dec.sum l with
    | some r => return jDec r
    | none => return Json.mkObj [("r", if Dec.sumOverflows l then "OVERFLOW" else "INEXACT")]
  let a ← decOperand (← field j "a")
  if f == "neg" then return jDec a.negate
  if f == "show" then
    return Json.mkObj [("r", "OK"), ("v", .str a.toString), ("scale", .num (JsonNumber.fromNat a.scale)), ("neg", .bool a.isNeg),
      ("zero", .bool a.isZero), ("pos", .bool a.isPos)]
  let b ← decOperand (← field j "b")
  match f with
  | "add" => match Dec.add a b with
    | some r => return jDec r
    | none => return Json.mkObj [("r", if Dec.addOverflows a b then "OVERFLOW" else "INEXACT")]
  | "mul" => match Dec.mul a b with
    | some r => return jDec r
    | none => return Json.mkObj [("r", if Dec.mulOverflows a b then "OVERFLOW" else "INEXACT")]
  | "cmp" =>
    return Json.mkObj [("r", "OK"), ("cmp", .num (JsonNumber.fromInt (ordNum (Dec.cmpVal a b)))), ("eq", .bool (Dec.eqVal a b)),
      ("lt", .bool (Dec.ltVal a b)), ("le", .bool (Dec.leVal a b))]
  | "div" => match Dec.divQuot a b with
    | some r => return jDec r
    | none => return Json.mkObj [("r", "INEXACT")]
  | _ => throw s!"unknown dec function {f}"

end Ops

import Driver.Codec
import TacklerModel.Model.Filter
import TacklerModel.Model.Regex
/-! decoding of model-side filter definitions (`mfilter`) and the placeholder pattern matcher -/
open Lean Tackler Codec

namespace Ops

/-- whole-string match for the pattern shapes the generators emit until the regex model is wired in:
    a literal `L`, `L.*`, `.*L`, `.*L.*`, `.*` (no other metacharacters) -/
def simpleMatch (pat hay : String) : Bool :=
  let p := pat.toList
  let h := hay.toList
  let pre := p.take 2 == ['.', '*']
  let suf := p.length ≥ 2 && p.drop (p.length - 2) == ['.', '*']
  if p == ['.', '*'] then !h.contains '\n'
  else if pre && suf && p.length ≥ 4 then
    let l := (p.drop 2).take (p.length - 4)
    (List.range (h.length + 1)).any (fun i => l.isPrefixOf (h.drop i))
  else if pre then (p.drop 2).isSuffixOf h
  else if suf then (p.take (p.length - 2)).isPrefixOf h
  else p == h

/-- whole-string match through the regex model: `new_full_haystack_regex(pat).is_match(hay)` -/
def regexMatch (pat hay : String) : Bool :=
  match Regex.newFullHaystack pat with
  | some r => Regex.search r hay.toList
  | none => false

def patternInSubset (pat : String) : Bool :=
  Regex.patternSizeOk pat &&
  (match Regex.newFullHaystack pat with
   | some r => !r.usesPerl
   | none => false)

/-- all patterns of a filter tree are inside the modelled regex subset (else the driver answers UNDEF) -/
partial def filterInSubset : Filter → Bool
  | .and fs => fs.all filterInSubset
  | .or fs => fs.all filterInSubset
  | .not f => filterInSubset f
  | .code re | .desc re | .tags re | .comments re | .postAccount re | .postComment re | .postCommodity re => patternInSubset re
  | .postAmountEq re _ | .postAmountLess re _ | .postAmountGreater re _ => patternInSubset re
  | _ => true

partial def filterOfJson (j : Json) : R Filter := do
  let k ← str (← field j "k")
  match k with
  | "tt" => pure .tt
  | "ff" => pure .ff
  | "and" => do pure (.and (← (← arr (← field j "fs")).mapM filterOfJson))
  | "or" => do pure (.or (← (← arr (← field j "fs")).mapM filterOfJson))
  | "not" => do pure (.not (← filterOfJson (← field j "f")))
  | "tsBegin" => do pure (.tsBegin (← int (← field j "ns")))
  | "tsEnd" => do pure (.tsEnd (← int (← field j "ns")))
  | "code" => do pure (.code (← str (← field j "re")))
  | "desc" => do pure (.desc (← str (← field j "re")))
  | "uuid" => do pure (.uuid (← str (← field j "u")))
  | "bbox" => do pure (.bbox (← dec (← field j "s")) (← dec (← field j "w")) (← dec (← field j "n")) (← dec (← field j "e")))
  | "bbox3" => do pure (.bbox3 (← dec (← field j "s")) (← dec (← field j "w")) (← dec (← field j "d"))
      (← dec (← field j "n")) (← dec (← field j "e")) (← dec (← field j "h")))
  | "tags" => do pure (.tags (← str (← field j "re")))
  | "comments" => do pure (.comments (← str (← field j "re")))
  | "postAccount" => do pure (.postAccount (← str (← field j "re")))
  | "postComment" => do pure (.postComment (← str (← field j "re")))
  | "postAmountEq" => do pure (.postAmountEq (← str (← field j "re")) (← dec (← field j "x")))
  | "postAmountLess" => do pure (.postAmountLess (← str (← field j "re")) (← dec (← field j "x")))
  | "postAmountGreater" => do pure (.postAmountGreater (← str (← field j "re")) (← dec (← field j "x")))
  | "postCommodity" => do pure (.postCommodity (← str (← field j "re")))
  | _ => throw s!"unknown filter kind {k}"

end Ops

import Driver.Codec
import Driver.Ops.Filter
/-! op `run`: settings + journal AST (+ wanted outputs) ⇒ load status and outputs.
    Outputs are looked up in a table passed by `Main` (one entry per output kind). -/
open Lean Tackler Codec

namespace Ops

/-- an output of op `run`: case JSON, settings after the load, loaded (sorted) transactions -/
abbrev OutputFn := Json → Settings → List Txn → R Json

def okV (v : Json) : Json := Json.mkObj [("r", "OK"), ("v", v)]

def outTxns : OutputFn := fun _ _ ts => pure (okV (jTxns ts))

def runOutput (table : List (String × OutputFn)) (j : Json) (st : Settings) (ts : List Txn) (w : String) : Json :=
  match table.lookup w with
  | some f => (match f j st ts with
    | .ok v => v
    | .error e => Json.mkObj [("r", "BADCASE"), ("msg", Json.str e)])
  | none => Json.mkObj [("r", "NOMODEL")]

def opRun (table : List (String × OutputFn)) (j : Json) : R Json := do
  let st ← settings (← field j "cfg")
  let rs ← rawTxns (← field j "txns")
  let want ← match optField j "want" with
    | some w => strList w
    | none => pure []
  match loadJournal st rs with
  | .err => pure (Json.mkObj [("r", "ERR")])
  | .undef => pure (Json.mkObj [("r", "UNDEF")])
  | .ok (ts0, st') =>
    -- optional transaction filter (`TxnData::filter`): outputs are computed from the selected set
    let ts ← match optField j "mfilter" with
      | some f => do pure (filterTxns simpleMatch (← filterOfJson f) ts0)
      | none => pure ts0
    pure (Json.mkObj [("r", "OK"), ("n", .num (JsonNumber.fromNat ts0.length)), ("selected", .num (JsonNumber.fromNat ts.length)),
      ("out", Json.mkObj (want.map (fun w => (w, runOutput table j st' ts w))))])

end Ops

import Driver.Codec
import Driver.Ops.Filter
import Driver.Ops.Parse
/-! op `run`: settings + journal (+ wanted outputs) ⇒ load status and outputs.
    The journal is given as an AST (`txns`: the semantic layers only), as text (`text`: parsed by
    `Model/Syntax`, then loaded) or as a list of files (`files`: `paths_to_txns`).  With `astcheck` and both
    `text` and `txns` present the answer also says whether `Syntax.parseJournal text` equals the AST.
    An optional `mfilter` (model-side filter definition) selects the transactions the outputs are computed from.
    Outputs are looked up in a table passed by `Main` (one entry per output kind). -/
open Lean Tackler Codec

namespace Ops

/-- an output of op `run`: case JSON, settings after the load, loaded (sorted) transactions -/
abbrev OutputFn := Json → Settings → List Txn → R Json

def okV (v : Json) : Json := Json.mkObj [("r", "OK"), ("v", v)]

def outTxns : OutputFn := fun _ _ ts => pure (okV (jTxns ts))

def runOutput (table : List (String × OutputFn)) (j : Json) (st : Settings) (ts : List Txn) (w : String) : Json :=
  match table.lookup w with
  | some f => (match f j st ts with
    | .ok v => v
    | .error e => Json.mkObj [("r", "BADCASE"), ("msg", Json.str e)])
  | none => Json.mkObj [("r", "NOMODEL")]

/-- the load of the case: AST, text or files -/
def loadCase (j : Json) (st : Settings) : R (Outcome (List Txn × Settings) × List (String × Json)) := do
  match optField j "txns" with
  | some txns =>
    -- an AST cannot carry a number token that is not representable as a `Dec`; the parser rejects such a token
    -- (`Syntax.pNumber` via `Dec.ofToken = none`) and with it the whole input, so the load is `err`
    match rawTxns txns with
    | .error e => if e.startsWith "unrepresentable decimal" then pure (.err, []) else throw e
    | .ok rs =>
    let extra ← match optField j "astcheck", optField j "text" with
      | some (.bool true), some t => do
        let cfg ← tsCfg j
        let text ← str t
        pure [("ast", Json.str (match Syntax.parseJournal cfg text.toList with
          | none => "nosyntax"
          | some ps => if ps = rs then "same" else "diff"))]
      | _, _ => pure []
    pure (loadJournal st rs, extra)
  | none =>
    let cfg ← tsCfg j
    match optField j "files" with
    | some fs =>
      let texts ← (← arr fs).mapM (fun f => do pure (← str (← field f "text")).toList)
      pure (loadFiles cfg st texts, [])
    | none =>
      let text ← str (← field j "text")
      pure (loadText cfg st text.toList, [])

def opRun (table : List (String × OutputFn)) (j : Json) : R Json := do
  let st ← settings (← field j "cfg")
  let (res, extra) ← loadCase j st
  let want ← match optField j "want" with
    | some w => strList w
    | none => pure []
  let status (r : String) : List (String × Json) := [("r", Json.str r)]
  match res with
  | .err => pure (Json.mkObj (status "ERR" ++ extra))
  | .undef => pure (Json.mkObj (status "UNDEF" ++ extra))
  | .ok (ts0, st') =>
    -- optional transaction filter (`TxnData::filter`): outputs are computed from the selected set
    match optField j "mfilter" with
    | some fj =>
      let f ← filterOfJson fj
      if !filterInSubset f then pure (Json.mkObj (status "UNDEF" ++ extra))
      else
        let ts := filterTxns regexMatch f ts0
        pure (Json.mkObj (status "OK" ++ [("n", Json.num (JsonNumber.fromNat ts0.length)),
          ("selected", Json.num (JsonNumber.fromNat ts.length)),
          ("out", Json.mkObj (want.map (fun w => (w, runOutput table j st' ts w))))] ++ extra))
    | none =>
      pure (Json.mkObj (status "OK" ++ [("n", Json.num (JsonNumber.fromNat ts0.length)),
        ("out", Json.mkObj (want.map (fun w => (w, runOutput table j st' ts0 w))))] ++ extra))

end Ops

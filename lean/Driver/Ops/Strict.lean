import Driver.Ops.Run
import TacklerModel.Model.Charts
/-! op `strict` (C12): one journal AST, several configurations (`runs`).  Every run builds the settings
    with `settingsTryFrom` (charts, report commodity, price-file commodities, equity account) and then
    loads the journal like op `run`.  Answer: `{"r":"MULTI","runs":[…]}`; a run whose settings
    construction fails answers `{"r":"CFGERR"}`. -/
open Lean Tackler Codec

namespace Ops

def pricePair (j : Json) : R (String × String) := do
  match ← arr j with
  | [a, b] => pure (← str a, ← str b)
  | _ => throw "price entry: expected [base, eq]"

/-- the chart-related configuration: the `Codec.settings` keys plus optional `report_commodity`,
    `price_comms` (null = lookup type none), `equity_target`, `equity_account` -/
def chartCfg (j : Json) : R ChartCfg := do
  let strict ← bool (← field j "strict")
  let audit ← bool (← field j "audit")
  let pe ← bool (← field j "permit_empty")
  let accounts ← (← arr (← field j "accounts")).mapM path
  let comms ← strList (← field j "commodities")
  let tags ← strList (← field j "tags")
  let rc ← optStr j "report_commodity"
  let pd ← match optField j "price_comms" with
    | none => pure none
    | some p => do pure (some (← (← arr p).mapM pricePair))
  let et ← match optField j "equity_target" with
    | none => pure false
    | some b => bool b
  let ea ← match optField j "equity_account" with
    | none => pure ["Equity", "Balance"]
    | some a => path a
  pure { strict, audit, permitEmpty := pe, accounts, commodities := comms, tags, equityTarget := et,
         equityAccount := ea, reportCommodity := rc, priceDb := pd }

/-- output kind `probe` of op `run`: which probe commodities `get_commodity` knows after the load and, per
    probe account, in which of them `get_txn_account` finds the account -/
def outProbe : OutputFn := fun j st _ => do
  let p ← field j "probe"
  let accts ← (← arr (← field p "accounts")).mapM path
  let comms ← strList (← field p "commodities")
  let bit (b : Bool) : Char := if b then '1' else '0'
  let known := String.ofList (comms.map (fun c => bit (st.getCommodity c).isOk))
  let rows := accts.map (fun a => Json.str (String.ofList (comms.map (fun c => bit (st.getTxnAccount a c).isOk))))
  pure (okV (Json.mkObj [("comms", .str known), ("accts", .arr rows.toArray)]))

def runOne (table : List (String × OutputFn)) (j : Json) (rs : List RawTxn) (want : List String) (cfg : Json) :
    R Json := do
  let c ← chartCfg cfg
  match settingsTryFrom c with
  | .err => pure (Json.mkObj [("r", "CFGERR")])
  | .undef => pure (Json.mkObj [("r", "UNDEF")])
  | .ok st =>
    match loadJournal st rs with
    | .err => pure (Json.mkObj [("r", "ERR")])
    | .undef => pure (Json.mkObj [("r", "UNDEF")])
    | .ok (ts, st') =>
      pure (Json.mkObj [("r", "OK"), ("n", .num (JsonNumber.fromNat ts.length)),
        ("out", Json.mkObj (want.map (fun w => (w, runOutput table j st' ts w))))])

def opStrict (table : List (String × OutputFn)) (j : Json) : R Json := do
  let rs ← rawTxns (← field j "txns")
  let want ← match optField j "want" with
    | some w => strList w
    | none => pure []
  let runs ← arr (← field j "runs")
  let outs ← runs.mapM (fun r => do runOne table j rs want (← field r "cfg"))
  pure (Json.mkObj [("r", "MULTI"), ("runs", .arr outs.toArray)])

end Ops

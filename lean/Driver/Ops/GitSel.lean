import Driver.Codec
import TacklerModel.Model.Select
/-! op `gitsel` (C08): the `git ls-tree -r -t` listing of a commit + dir + ext (+ the journal ASTs of the
    blobs) ⇒ what `git_to_txns` selects and loads, and what `get_paths_by_ext` selects on a checkout.

    case fields: `tree` = [{mode, path, oid}], `dir`, `ext`, `via_settings` (suffix normalisation of
    `get_input_settings`), `blobs` = {oid: [raw txn …] | null (not a journal)}, `cfg`.
    answer: {"r":"OK","git":{"r","sel":[paths, sorted],"txns":[…]},"fs":{"r","paths":[paths, sorted]}} -/
open Lean Tackler Codec
open Tackler.Select

namespace Ops

def kindOfMode (m : String) : R Kind :=
  if m == "040000" || m == "40000" then pure .tree
  else if m == "100644" then pure .blob
  else if m == "100755" then pure .blobExe
  else if m == "120000" then pure .link
  else if m == "160000" then pure .commit
  else throw s!"unknown mode {m}"

def gitEntryOf (j : Json) : R Entry := do
  pure ⟨← kindOfMode (← str (← field j "mode")), ← str (← field j "path"), ← str (← field j "oid")⟩

def sortedStrs (l : List String) : Json :=
  jStrList (l.toArray.qsort (· < ·)).toList

/-- `txns_text` on the blob with the given id: at least one transaction, all accepted -/
def parseBlob (blobs : Json) (st : Settings) (oid : String) : Outcome (List Txn × Settings) :=
  match optField blobs oid with
  | none => .err
  | some b =>
    match rawTxns b with
    | .error _ => .err
    | .ok [] => .err
    | .ok rs => acceptJournal st rs

def opGitSel (j : Json) : R Json := do
  let tree ← (← arr (← field j "tree")).mapM gitEntryOf
  let dir ← str (← field j "dir")
  let ext0 ← str (← field j "ext")
  let via ← match optField j "via_settings" with
    | some v => bool v
    | none => pure false
  let ext := if via then normSuffix ext0 else ext0
  let blobs := (optField j "blobs").getD (Json.mkObj [])
  let st ← match optField j "cfg" with
    | some c => settings c
    | none => pure (Settings.ofConfig false false true [] [] [])
  let gitJ : Json :=
    match gitSelect dir ext tree with
    | .err => Json.mkObj [("r", "ERR")]
    | .undef => Json.mkObj [("r", "UNDEF")]
    | .ok sel =>
      match gitLoad (parseBlob blobs) dir ext st tree with
      | .ok (ts, _) => Json.mkObj [("r", "OK"), ("sel", sortedStrs (sel.map (·.path))), ("txns", jTxns ts)]
      | .err => Json.mkObj [("r", "ERR"), ("sel", sortedStrs (sel.map (·.path)))]
      | .undef => Json.mkObj [("r", "UNDEF")]
  let fsJ : Json :=
    match fsSelect dir ext (checkout tree) with
    | .ok fs => Json.mkObj [("r", "OK"), ("paths", sortedStrs (fs.map (·.path)))]
    | .err => Json.mkObj [("r", "ERR")]
    | .undef => Json.mkObj [("r", "UNDEF")]
  pure (Json.mkObj [("r", "OK"), ("git", gitJ), ("fs", fsJ)])

end Ops

import Driver.Codec
import TacklerModel.Model.SubCmd
/-! op `sub` (C14): the sub-commands `tackler init` / `tackler new books` of `Model/SubCmd.lean` on the directory the
    python runner of gen/c14.py prepares: `existing` ⊆ {conf, txns, dir}; a pre-existing `conf` holds `tackler.toml`
    and `accounts.toml`, a pre-existing `txns` holds `journal.txn`, `welcome.txn`, `price.db`, `mine.txn` (somebody's
    files).  Answer: success flag, the files created (none → file) and the pre-existing files whose node changed. -/
open Lean Tackler Codec Tackler.Output

namespace Ops

def subTexts : InitTexts := ⟨[1], [2], [3], [4], [5], [6], fun _ => [7]⟩

def stripDot (p : String) : String :=
  match p.toList with
  | '.' :: '/' :: r => String.ofList r
  | _ => p

def isFile : Option Node → Bool
  | some (.file _) => true
  | _ => false

def opSub (j : Json) : R Json := do
  let cmd ← str (← field j "cmd")
  let pre ← strList (← field j "existing")
  let name : String := if cmd == "new" then "books" else "."
  let rootDirs : List String := if cmd == "new" then (if pre.isEmpty then [] else ["books"]) else ["."]
  let dirs := rootDirs ++ ((pre.filter (fun d => d == "conf" || d == "txns")).map (pjoin name))
  let files :=
    (if pre.contains "conf" then ["tackler.toml", "accounts.toml"].map (pjoin (pjoin name "conf")) else []) ++
    (if pre.contains "txns" then ["journal.txn", "welcome.txn", "price.db", "mine.txn"].map (pjoin (pjoin name "txns")) else [])
  let t : Tree := ⟨fun p => if dirs.contains p then some .dir else if files.contains p then some (.file [0xFF]) else none⟩
  let (ok, t') := if cmd == "new" then newExec subTexts name t else initExec subTexts name t
  let cand := (initPaths subTexts name ++ files).eraseDups
  let created := cand.filter (fun p => (t.node p).isNone && isFile (t'.node p))
  let changed := files.filter (fun p => t'.node p != t.node p)
  let srt (l : List String) : Array Json := ((l.map stripDot).toArray.qsort (· < ·)).map Json.str
  pure (Json.mkObj [("r", "OK"), ("ok", .bool ok), ("created", .arr (srt created)), ("changed", .arr (srt changed))])

end Ops

import Driver.Codec
import TacklerModel.Model.Syntax
/-! op `parse`: journal text ⇒ parse tree of `Model/Syntax` as JSON (same shape as the generator's AST).
    Also the helpers op `run` uses for text-level cases (`text`, `files`, `tscfg`, `astcheck`). -/
open Lean Tackler Codec

namespace Ops

/-- `tscfg: {"offset": seconds, "default_time": [h, m, s, ns]}`; absent ⇒ UTC, 00:00:00 -/
def tsCfg (j : Json) : R Time.TsCfg :=
  match optField j "tscfg" with
  | none => pure Time.utcCfg
  | some c => do
    let off ← int (← field c "offset")
    let dt ← (← arr (← field c "default_time")).mapM nat
    match dt with
    | [h, m, s, ns] => pure ⟨off, (h, m, s, ns)⟩
    | _ => throw "bad default_time"

def jVal (v : Val) : Json := Json.mkObj [("v", jDec v.value), ("c", .str v.comm)]

def jClosing : Closing → Json
  | .unitPrice v => Json.mkObj [("k", "@"), ("v", jDec v.value), ("c", .str v.comm)]
  | .total v => Json.mkObj [("k", "="), ("v", jDec v.value), ("c", .str v.comm)]

def jUnit (u : PostUnit) : Json :=
  Json.mkObj [("comm", .str u.comm),
    ("opening", match u.opening with | some o => jVal o | none => .null),
    ("closing", match u.closing with | some c => jClosing c | none => .null)]

def jRawPosting (p : RawPosting) : Json :=
  Json.mkObj [("acct", jPath p.acct), ("amount", jDec p.amount),
    ("unit", match p.unit with | some u => jUnit u | none => .null),
    ("comment", jOptStr p.comment)]

def jRawTxn (t : RawTxn) : Json :=
  Json.mkObj (jHeader t.header ++ [("posts", .arr (t.posts.map jRawPosting).toArray),
    ("last", match t.last with
      | some (a, c) => Json.mkObj [("acct", jPath a), ("comment", jOptStr c)]
      | none => .null)])

def opParse (j : Json) : R Json := do
  let cfg ← tsCfg j
  let text ← str (← field j "text")
  match Syntax.parseJournal cfg text.toList with
  | none => pure (Json.mkObj [("r", "ERR")])
  | some ts => pure (Json.mkObj [("r", "OK"), ("v", .arr (ts.map jRawTxn).toArray)])

end Ops

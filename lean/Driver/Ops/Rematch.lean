import Driver.Codec
import TacklerModel.Model.Selector
/-! ops of the regular-expression component (C11; also for C05/C18):

* `rematch`: `pats` + `hays` ⇒ per pattern: plain search (`Regex::new(p).is_match(h)`), full-haystack wrapper
  (`new_full_haystack_regex(p).is_match(h)`), wrapped text, peeled text, the ParseWrap check; and the set
  (`new_full_haystack_regex_set(pats).is_match(h)`).  `"UNDEF"` = outside the modelled subset;
  a single `null` among the Booleans = this haystack is outside the domain (`\d \w \s` on non-ASCII).
* `peel`: string ⇒ `peel_full_haystack_pattern(s)`, `into_full_haystack_pattern(s)`
* `selects`: selector lists of the three reports (+ the report-wide list) and account names ⇒ per report the
  Boolean of `AccSelector.eval` for every name. -/
open Lean Tackler Codec

namespace Ops

def jUndef : Json := .str "UNDEF"

def jBools (l : List (Option Bool)) : Json :=
  .arr (l.map (fun b => match b with | some v => Json.bool v | none => Json.null)).toArray

def matchAll (r : Regex) (dom : Regex) (hays : List String) : Json :=
  jBools (hays.map (fun h => if Regex.inDomain dom h.toList then some (Regex.search r h.toList) else none))

def rematchOne (hays : List String) (p : String) : Json :=
  if !Regex.patternSizeOk p then Json.mkObj [("plain", jUndef), ("full", jUndef)]
  else
    let plain := match Regex.parse p with
      | some r => matchAll r r hays
      | none => jUndef
    let full := match Regex.newFullHaystack p with
      | some w => matchAll w w hays
      | none => jUndef
    -- ParseWrap (theorem C11.parse_wrap), re-checked on the executable definitions
    let pw := match Regex.parse p with
      | some r => Regex.newFullHaystack p == some (Regex.wrapAst r)
      | none => true
    Json.mkObj [("plain", plain), ("full", full), ("pw", .bool pw),
      ("wrapped", .str (Regex.wrapStr p)), ("peeled", .str (Regex.peelStr (Regex.wrapStr p)))]

def opRematch (j : Json) : R Json := do
  let pats ← strList (← field j "pats")
  let hays ← strList (← field j "hays")
  let set := if pats.all Regex.patternSizeOk then
      match Regex.newFullHaystackSet pats with
      | some ws =>
        jBools (hays.map (fun h =>
          if ws.all (fun w => Regex.inDomain w h.toList) then some (Regex.setIsMatch ws h) else none))
      | none => jUndef
    else jUndef
  pure (Json.mkObj [("r", "OK"), ("per", .arr (pats.map (rematchOne hays)).toArray), ("set", set),
    ("set_peeled", jStrList (pats.map (fun p => Regex.peelStr (Regex.wrapStr p))))])

def opPeel (j : Json) : R Json := do
  let s ← str (← field j "s")
  pure (Json.mkObj [("r", "OK"), ("peeled", .str (Regex.peelStr s)), ("wrapped", .str (Regex.wrapStr s))])

def optStrList (j : Json) (k : String) : R (Option (List String)) :=
  match optField j k with
  | none => pure none
  | some v => do pure (some (← strList v))

def selOne (own global : Option (List String)) (names : List String) : Json :=
  let eff := effectiveSel own global
  if !eff.all Regex.patternSizeOk then jUndef
  else
    match accSelector eff with
    | .ok sel =>
      let dom := match sel with
        | .all => true
        | .byAccount ws => names.all (fun n => ws.all (fun w => Regex.inDomain w n.toList))
      if dom then .arr (names.map (fun n => Json.bool (sel.eval n))).toArray else jUndef
    | _ => jUndef

def opSelects (j : Json) : R Json := do
  let sel ← field j "sel"
  let names ← strList (← field j "names")
  let g ← optStrList sel "global"
  pure (Json.mkObj [("r", "OK"),
    ("balance", selOne (← optStrList sel "balance") g names),
    ("register", selOne (← optStrList sel "register") g names),
    ("equity", selOne (← optStrList sel "equity") g names)])

end Ops

import Driver.Codec
import TacklerModel.Model.Audit
/-! op `audit` (C09): settings + hash algorithm name + journal AST + selection (indices of the
    transactions the filter must select, or `null` for `get_all`) + selector lists
    ⇒ load status, set status, selected UUIDs, `TxnSetChecksum`, account-selector checksums.

    The UUID texts of the AST are as written in the journal (any letter case); decoding applies
    `uuidToString`, which stands for `Uuid::parse_str(..)` followed by the canonical `Display`. -/
open Lean Tackler Codec

namespace Ops

def canonHeaderUuid (r : RawTxn) : RawTxn :=
  { r with header := { r.header with uuid := r.header.uuid.map uuidToString } }

def jChecksum (c : Hash.Checksum) : Json := Json.mkObj [("alg", .str c.algorithm), ("value", .str c.value)]

def jOptChecksum : Option Hash.Checksum → Json
  | some c => jChecksum c
  | none => .null

def selKinds : List (String × SelectorKind) :=
  [("balance", .balance), ("balgrp", .balance), ("register", .register), ("equity", .equity)]

def opAudit (j : Json) : R Json := do
  let st ← settings (← field j "cfg")
  let rs := (← rawTxns (← field j "txns")).map canonHeaderUuid
  let algName ← str (← field j "hash")
  let sel ← match optField j "sel" with
    | none => pure none
    | some s => do pure (some (← (← arr s).mapM nat))
  let selectors := optField j "selectors"
  match Hash.Algo.ofName algName with
  | none => pure (Json.mkObj [("r", "CFGERR")])
  | some alg =>
    match loadJournal st rs, acceptJournal st rs with
    | .err, _ => pure (Json.mkObj [("r", "ERR")])
    | .undef, _ => pure (Json.mkObj [("r", "UNDEF")])
    | .ok _, .err => pure (Json.mkObj [("r", "ERR")])
    | .ok _, .undef => pure (Json.mkObj [("r", "UNDEF")])
    | .ok (ts, _), .ok (accepted, _) =>
      let hash := getHash st alg
      let set := match sel with
        | none => TxnData.getAll hash ts
        | some idx =>
          let picked := idx.filterMap (fun i => accepted[i]?)
          TxnData.filter hash (fun t => picked.contains t) ts
      let jset := match set with
        | .err => Json.mkObj [("r", "ERR")]
        | .undef => Json.mkObj [("r", "UNDEF")]
        | .ok s =>
          Json.mkObj [("r", "OK"),
            ("uuids", .arr (s.txns.map (fun t => jOptStr t.header.uuid)).toArray),
            ("tsc", match s.checksum with
              | some c => Json.mkObj [("size", .num (JsonNumber.fromNat c.size)), ("alg", .str c.hash.algorithm),
                  ("value", .str c.hash.value)]
              | none => .null)]
      let sels ← selKinds.mapM (fun (name, kind) => do
        let ras ← match selectors.bind (fun s => optField s name) with
          | some l => strList l
          | none => pure []
        pure (name, jOptChecksum (accSelChecksum st alg kind ras)))
      pure (Json.mkObj [("r", "OK"), ("n", .num (JsonNumber.fromNat ts.length)), ("set", jset),
        ("sels", Json.mkObj sels)])

/-- op `hash`: algorithm name + messages `{items, sep (hex bytes)}` ⇒ `Hash.checksum` values, and
    pattern sets ⇒ the checksum of a by-account selector of each kind built from them; used to compare
    the Lean digests with `sha2`/`sha3`/`hashlib` on messages of every length around the block boundaries -/
def unhexNibble (c : Char) : Nat :=
  if c.toNat ≥ 97 then c.toNat - 87 else c.toNat - 48

def unhex : List Char → List UInt8
  | a :: b :: t => UInt8.ofNat (unhexNibble a * 16 + unhexNibble b) :: unhex t
  | _ => []

def opHash (j : Json) : R Json := do
  let algName ← str (← field j "hash")
  match Hash.Algo.ofName algName with
  | none => pure (Json.mkObj [("r", "CFGERR")])
  | some alg =>
    let msgs ← match optField j "msgs" with
      | some m => arr m
      | none => pure []
    let vals ← msgs.mapM (fun m => do
      let items ← strList (← field m "items")
      let sep ← str (← field m "sep")
      pure (jChecksum (Hash.checksum alg items (unhex sep.toList))))
    let sets ← match optField j "patsets" with
      | some m => arr m
      | none => pure []
    let sels ← sets.mapM (fun ps => do
      let pats ← strList ps
      pure (Json.mkObj [("balance", jChecksum (selectorChecksum .balance alg pats)),
        ("register", jChecksum (selectorChecksum .register alg pats)),
        ("equity", jChecksum (selectorChecksum .equity alg pats))]))
    pure (Json.mkObj [("r", "OK"), ("v", .arr vals.toArray), ("sels", .arr sels.toArray)])

end Ops

import Driver.Ops.Price
import Driver.Ops.Balance
import Driver.Ops.Register
import Driver.Ops.Group
import TacklerModel.Model.PricedReports
/-! output kinds `balance`, `register`, `balgrp` of op `run` with an optional `price` block in the case
    (C07 × C02 / C03 / C13): the same JSON op `price` takes, as one object

    `"price": {"prices": [{"tok"|"ns", "base", "rate", "target"}…], "lookup": "none"|"txn-time"|"last-price"|"given-time",
               "before": {"tok"|"ns"}?, "report_commodity": string|null, "tz_offset_s": int?}`

    With the block the outputs are the reports of `Model/PricedReports.lean` (`balanceReport`, `registerReport`,
    `balgrpReport`: one price context per report, built from all transactions of the report) and the answer carries
    the metadata records next to the figures (`{"r": "OK", "v": <as without the block>, "meta": [...]}`); a price
    configuration `Settings::try_from` rejects answers `{"r": "CFGERR"}`.  Without the block the outputs are exactly
    those of `Ops/Balance.lean`, `Ops/Register.lean`, `Ops/Group.lean`.  The account selector with a `price` block is
    the exact-name one (`msel_*`). -/
open Lean Tackler Codec Tackler.Price Tackler.Priced

namespace Ops

structure PriceSetup where
  lk : PriceLookup
  rc : Option String
  db : List PriceEntry
  st : Settings          -- the settings with the report commodity and the price-file commodities registered

/-- `Settings::try_from` on the price part of the configuration, as op `price` does it -/
def priceSetup (pj : Json) (st : Settings) : R (Outcome PriceSetup) := do
  let tzOff ← match optField pj "tz_offset_s" with
    | some o => int o
    | none => pure 0
  let tc : Time.TsCfg := ⟨tzOff, (0, 0, 0, 0)⟩
  let esO ← (← arr (← field pj "prices")).mapM (priceEntry tc)
  let rc ← optStr pj "report_commodity"
  let lookupName ← str (← field pj "lookup")
  match (if lookupName == "none" then Outcome.ok [] else Price.mapO id esO) with
  | .err => pure .err
  | .undef => pure .undef
  | .ok es =>
  let beforeO ← match optField pj "before" with
    | some b => do pure (some (← instantOf tc b "ns"))
    | none => pure none
  match beforeO with
  | some .err => pure .err
  | some .undef => pure .undef
  | _ =>
  let before : Option Int := match beforeO with
    | some (.ok b) => some b
    | _ => none
  let lk ← lookupOf lookupName before
  let dbO : Outcome (List PriceEntry) :=
    if lk == .none then .ok []
    else match rc with
      | none => .err
      | some _ => pricedbFromEntries es
  pure (dbO.bind (fun db => (reportSettings st lk rc es).map (fun st' => ⟨lk, rc, db, st'⟩)))

def withMeta (o : Outcome (List PriceRecord × Json)) : Json :=
  match o with
  | .ok (recs, v) => Json.mkObj [("r", "OK"), ("v", v), ("meta", .arr (recs.map jRecord).toArray)]
  | .err => Json.mkObj [("r", "ERR")]
  | .undef => Json.mkObj [("r", "UNDEF")]

def cfgErr : Json := Json.mkObj [("r", "CFGERR")]

def outBalanceP : OutputFn := fun j st ts => do
  match optField j "price" with
  | none => outBalance j st ts
  | some pj =>
    match ← priceSetup pj st with
    | .err => pure cfgErr
    | .undef => pure jUndefOut
    | .ok ps =>
      let names ← selNames j "msel_balance"
      pure (withMeta ((balanceReport ps.st (exactSel names) ps.lk ps.rc ps.db ts).map
        (fun rep => (rep.records, jBalance rep.bal))))

def outRegisterP : OutputFn := fun j st ts => do
  match optField j "price" with
  | none => outRegister j st ts
  | some pj =>
    match ← priceSetup pj st with
    | .err => pure cfgErr
    | .undef => pure jUndefOut
    | .ok ps =>
      let names ← regNames j
      pure (withMeta ((registerReport (exactRegSel names) ps.lk ps.rc ps.db ts).map
        (fun rep => (rep.records, .arr ((printedEntries rep.entries).map (fun e =>
          Json.mkObj [("ns", .str (toString e.txn.header.ts.ns)), ("code", jOptStr e.txn.header.code),
            ("desc", jOptStr e.txn.header.desc), ("uuid", jOptStr e.txn.header.uuid),
            ("rows", .arr (e.rows.map (fun r => Json.arr #[.str (acctName r.post.acct), jDec r.post.amount,
              .str r.post.comm, jOptDec r.rate, jDec r.total, .str r.comm])).toArray)])).toArray))))

def outBalGrpP : OutputFn := fun j st ts => do
  match optField j "price" with
  | none => outBalGrp j st ts
  | some pj =>
    match ← priceSetup pj st with
    | .err => pure cfgErr
    | .undef => pure jUndefOut
    | .ok ps =>
      let names ← selNames j "msel_balgrp"
      let g ← match optField j "mgroup_by" with
        | some v => groupBy (← str v)
        | none => pure .month
      let tz ← match optField j "mreport_tz" with
        | some v => journalTz v
        | none => pure (.fixed 0)
      pure (withMeta ((balgrpReport ps.st (exactSel names) g tz ps.lk ps.rc ps.db ts).map
        (fun rep => (rep.records, .arr (rep.groups.map jBalGroup).toArray))))

end Ops
